"""Lemma client for C05 (what escapes a `with try_with_lazy_message(...)` block).  Not code of
/repo: it spells out the with-statement protocol of the language reference (8.5: "if the suite was
exited due to an exception, and the return value from __exit__() was false, the exception is
reraised; if the return value was true, the exception is suppressed"; an exception raised by
__exit__ itself replaces it) and calls the contracted `try_with_lazy_message.__exit__` of /repo;
pyvc checks it against that contract only."""


def with_block_raising(cm, body_exception):
  """`with cm: raise body_exception` after a successful __enter__."""
  suppressed = cm.__exit__(type(body_exception), body_exception, body_exception.__traceback__)
  if suppressed:
    return None
  raise body_exception


def with_block_returning(cm):
  """`with cm: pass` after a successful __enter__."""
  cm.__exit__(None, None, None)
  return None
