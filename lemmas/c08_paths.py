"""Lemma client for C08 (traversal paths of a Buildable are sound).  Not code of /repo: it only
calls contracted functions of /repo (Buildable.__flatten__, Buildable.__path_elements__,
daglish.Attr.follow / Index.follow -> getattr / indexing on the Buildable); pyvc checks it against
the callee contracts only."""
from fiddle import daglish


def path_follows_value(b, i):
  values, metadata = b.__flatten__()
  elements = b.__path_elements__()
  element = elements[i]
  if isinstance(element, daglish.Attr):
    got = element.follow(b)
  else:
    got = element.follow(b)
  return got, values[i]
