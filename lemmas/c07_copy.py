"""Lemma clients for C07 (shallow copies are independent).  These functions are *not* code of
/repo: each one only calls contracted functions of /repo (Buildable.__copy__ and one edit
operation).  pyvc checks them against the callee contracts only, so every statement proved
here is a lemma over those contracts: "an edit of the copy leaves the original (and everything
else that existed) untouched" and "an edit of the original leaves the copy what it was"."""


def edit_copy_setattr(b, name, value):
  c = b.__copy__()
  c.__setattr__(name, value)
  return c


def edit_copy_delattr(b, name):
  c = b.__copy__()
  c.__delattr__(name)
  return c


def edit_copy_setitem(b, key, value):
  c = b.__copy__()
  c[key] = value
  return c


def edit_copy_delitem(b, key):
  c = b.__copy__()
  del c[key]
  return c


def edit_original_setattr(b, name, value):
  c = b.__copy__()
  b.__setattr__(name, value)
  return c


def edit_original_delattr(b, name):
  c = b.__copy__()
  b.__delattr__(name)
  return c
