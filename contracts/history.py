"""Sidecar contracts for fiddle/_src/history.py (DESIGN.md §5 C16)."""
import z3
from pyvc.sorts import *  # noqa
from pyvc.contract import contract, Loop
from pyvc.state import SpecFn
from contracts.common import *  # noqa

F = 'fiddle/_src/history.py'
NOTHING = singleton('no-object')      # placeholder reference for conditional `mod` entries
T = z3.BoolVal(True)

# module-level state of history.py, as seen by the engine
HISTORY_GLOBALS = {'_location_provider': SpecFn('history._location_provider')}
from pyvc import contract as _C
_C.MODULE_GLOBALS[F] = HISTORY_GLOBALS


def tracking_on(h):
  """history.tracking_enabled() in heap h (truthiness of the thread-local flag)."""
  v = h.fld(ref(TRACKING_STATE), 'enabled')
  return z3.And(is_VBool(v), bval(v))


def counter(h):
  return ival(h.fld(ref(SET_COUNTER), 'count'))


def GlobalsInv(h):
  return z3.And(is_VBool(h.fld(ref(TRACKING_STATE), 'enabled')),
                is_VInt(h.fld(ref(SET_COUNTER), 'count')))


# the location provider is user-replaceable: assumed not to raise and not to touch the heap
contract('history._location_provider', F, '_location_provider', abstract=True, params=[],
         allocates=True, note='assumed: returns a Location, does not raise, modifies nothing')

contract('history.tracking_enabled', F, 'tracking_enabled', kind='inline')
contract('history.set_tracking', F, 'set_tracking', kind='inline')

ENTRY_FIELDS = ('sequence_id', 'param_name', 'kind', 'new_value', 'location')


def is_entry(c, e, key, kind, value=None):
  """e is a HistoryEntry created by this call for `key` with the next sequence number."""
  h0, h = c.old, c.heap
  r = ref(e)
  conj = [is_VRef(e), r >= h0.alloc, r < h.alloc, cls_is(h.cls(r), 'HistoryEntry'),
          h.fld(r, 'sequence_id') == VInt(counter(h0)),
          h.fld(r, 'param_name') == key,
          h.fld(r, 'kind') == kind]
  if value is not None:
    conj.append(h.fld(r, 'new_value') == value)
  return z3.And(conj)


def _entry_contract(cid, qual, kind, value_of, note):
  contract(
      cid, F, qual, requires=lambda c: GlobalsInv(c.old),
      ensures=lambda c: z3.And(is_entry(c, c.result, c['param_name'], kind,
                                        value_of(c) if value_of else None),
                               counter(c.heap) == counter(c.old) + 1,
                               GlobalsInv(c.heap),
                               c.heap.fld(ref(TRACKING_STATE), 'enabled')
                               == c.old.fld(ref(TRACKING_STATE), 'enabled')),
      mod=lambda c: [ref(SET_COUNTER)], writes=('count',) + ENTRY_FIELDS,
      props=('C16',), note=note)


_entry_contract('history.new_value', 'new_value', CK_NEW_VALUE, lambda c: c['value'],
                'fresh entry, NEW_VALUE, value as given, sequence id = counter, counter + 1')
_entry_contract('history.deleted_value', 'deleted_value', CK_NEW_VALUE, lambda c: DELETED,
                'fresh entry, NEW_VALUE, DELETED marker, sequence id = counter, counter + 1')


def _ut_post(c):
  h = c.heap
  e = c.result
  fs = h.fld(ref(e), 'new_value')
  return z3.And(
      is_entry(c, e, c['param_name'], CK_UPDATE_TAGS),
      # the recorded tag set is a fresh snapshot with the same members
      is_VRef(fs), ref(fs) >= c.old.alloc, ref(fs) < h.alloc, cls_is(h.cls(ref(fs)), 'set'),
      h.hasarr(ref(fs)) == c.old.hasarr(ref(c['updated_tags'])),
      counter(h) == counter(c.old) + 1, GlobalsInv(h),
      h.fld(ref(TRACKING_STATE), 'enabled') == c.old.fld(ref(TRACKING_STATE), 'enabled'))


contract('history.update_tags', F, 'update_tags',
         requires=lambda c: z3.And(GlobalsInv(c.old), isref(c.old, c['updated_tags'], 'set')),
         ensures=_ut_post, mod=lambda c: [ref(SET_COUNTER)], writes=('count',) + ENTRY_FIELDS,
         props=('C16', 'C14'),
         note='fresh entry, UPDATE_TAGS, frozenset snapshot of the tags, counter + 1')


# --- History --------------------------------------------------------------------------
def HistoryObj(h, hv):
  """hv is a History whose values are lists."""
  k = z3.Const('ho_k', Val)
  r = ref(hv)
  return z3.And(isref(h, hv, 'History'),
                FA([k], z3.Implies(h.has(r, k), isref(h, h.dget(r, k), 'list')),
                   patterns=[h.has(r, k)]))


def _miss_post(c):
  h0, h = c.old, c.heap
  H = ref(c['self'])
  key = c['key']
  k = z3.Const('mp_k', Val)
  res = c.result
  return z3.And(
      h.has(H, key), h.dget(H, key) == res,
      z3.If(h0.has(H, key), res == h0.dget(H, key),
            z3.And(is_VRef(res), ref(res) >= h0.alloc, cls_is(h.cls(ref(res)), 'list'),
                   h.len(ref(res)) == 0)),
      FA([k], z3.Implies(k != key, z3.And(h.has(H, k) == h0.has(H, k),
                                          h.dget(H, k) == h0.dget(H, k))),
         patterns=[h.has(H, k), h.dget(H, k)]))


contract('history.History.__missing__', F, 'History.__missing__',
         requires=lambda c: isref(c.old, c['self'], 'History'),
         ensures=_miss_post, mod=lambda c: [ref(c['self'])], props=('C16',),
         note='setdefault(key, []): existing list or a fresh empty one, other keys untouched')


def hist_list(h, H, key):
  return ref(h.dget(H, key))


def HistAppended(c, Hv, key, kind, value=None):
  """Exactly one fresh entry was appended to the history list of `key`."""
  h0, h = c.old, c.heap
  H = ref(Hv)
  k = z3.Const('ha_k', Val)
  i = z3.Int('ha_i')
  l = hist_list(h, H, key)
  l0 = hist_list(h0, H, key)
  had = h0.has(H, key)
  n0 = z3.If(had, h0.len(l0), z3.IntVal(0))
  return z3.And(
      h.has(H, key), is_VRef(h.dget(H, key)), cls_is(h.cls(l), 'list'),
      z3.If(had, l == l0, l >= h0.alloc),
      h.len(l) == n0 + 1,
      FA([i], z3.Implies(z3.And(0 <= i, i < n0), h.elt(l, i) == h0.elt(l0, i)),
         patterns=[h.elt(l, i)]),
      is_entry(c, h.elt(l, n0), key, kind, value),
      counter(h) == counter(h0) + 1,
      FA([k], z3.Implies(k != key, z3.And(h.has(H, k) == h0.has(H, k),
                                          h.dget(H, k) == h0.dget(H, k))),
         patterns=[h.has(H, k), h.dget(H, k)]))


def HistAppendedN(c, Hv, key, specs):
  """Exactly len(specs) fresh entries were appended, in order, to the history list of `key`.
  specs: [(kind, value-or-None, extra(entry ref) -> Bool or None)]."""
  h0, h = c.old, c.heap
  H = ref(Hv)
  k = z3.Const('ha_k', Val)
  i = z3.Int('ha_i')
  l = hist_list(h, H, key)
  l0 = hist_list(h0, H, key)
  had = h0.has(H, key)
  n0 = z3.If(had, h0.len(l0), z3.IntVal(0))
  conj = [
      h.has(H, key), is_VRef(h.dget(H, key)), cls_is(h.cls(l), 'list'),
      z3.If(had, l == l0, l >= h0.alloc),
      h.len(l) == n0 + len(specs),
      FA([i], z3.Implies(z3.And(0 <= i, i < n0), h.elt(l, i) == h0.elt(l0, i)),
         patterns=[h.elt(l, i)]),
      counter(h) == counter(h0) + len(specs),
      FA([k], z3.Implies(k != key, z3.And(h.has(H, k) == h0.has(H, k),
                                          h.dget(H, k) == h0.dget(H, k))),
         patterns=[h.has(H, k), h.dget(H, k)])]
  for j, (kind, value, extra) in enumerate(specs):
    e = h.elt(l, n0 + j)
    r = ref(e)
    conj += [is_VRef(e), r >= h0.alloc, r < h.alloc, cls_is(h.cls(r), 'HistoryEntry'),
             h.fld(r, 'sequence_id') == VInt(counter(h0) + j),
             h.fld(r, 'param_name') == key, h.fld(r, 'kind') == kind]
    if value is not None:
      conj.append(h.fld(r, 'new_value') == value)
    if extra is not None:
      conj.append(extra(r))
  return z3.And(conj)


def _hist_mod(c):
  h0 = c.old
  H = ref(c['self'])
  key = c['param_name']
  return [H, ref(SET_COUNTER),
          z3.If(h0.has(H, key), hist_list(h0, H, key), ref(NOTHING))]


def _snapshot(c, e):
  """The entry's new_value is a fresh frozen copy of the tag set passed in."""
  h = c.heap
  fs = h.fld(ref(e), 'new_value')
  return z3.And(is_VRef(fs), ref(fs) >= c.old.alloc, ref(fs) < h.alloc, cls_is(h.cls(ref(fs)), 'set'),
                h.hasarr(ref(fs)) == c.old.hasarr(ref(c['updated_tags'])))


def _add_contract(cid, qual, kind, value_of, extra_req=None, extra_post=None):
  def req(c):
    r = [GlobalsInv(c.old), HistoryObj(c.old, c['self'])]
    if extra_req:
      r.append(extra_req(c))
    return z3.And(r)

  def post(c):
    h0, h = c.old, c.heap
    on = tracking_on(h0)
    same = z3.And(h.hasarr(ref(c['self'])) == h0.hasarr(ref(c['self'])),
                  h.valarr(ref(c['self'])) == h0.valarr(ref(c['self'])),
                  counter(h) == counter(h0),
                  z3.Implies(h0.has(ref(c['self']), c['param_name']),
                             z3.And(h.len(hist_list(h0, ref(c['self']), c['param_name']))
                                    == h0.len(hist_list(h0, ref(c['self']), c['param_name'])),
                                    h.eltarr(hist_list(h0, ref(c['self']), c['param_name']))
                                    == h0.eltarr(hist_list(h0, ref(c['self']), c['param_name'])))))
    H_ = ref(c['self'])
    n0 = z3.If(h0.has(H_, c['param_name']), h0.len(hist_list(h0, H_, c['param_name'])), z3.IntVal(0))
    appended = HistAppended(c, c['self'], c['param_name'], kind, value_of(c) if value_of else None)
    if extra_post is not None:
      appended = z3.And(appended, extra_post(c, h.elt(hist_list(h, H_, c['param_name']), n0)))
    return z3.And(
        GlobalsInv(h), HistoryObj(h, c['self']),
        h.fld(ref(TRACKING_STATE), 'enabled') == h0.fld(ref(TRACKING_STATE), 'enabled'),
        z3.If(on, appended, same))

  contract(cid, F, qual, requires=req, ensures=post, mod=_hist_mod,
           cases=lambda c: [tracking_on(c.old), c.old.has(ref(c['self']), c['param_name'])],
           writes=('count',) + ENTRY_FIELDS, result='none', props=('C16', 'C14'),
           note='appends exactly one entry iff tracking is enabled; otherwise changes nothing')


_add_contract('history.History.add_new_value', 'History.add_new_value', CK_NEW_VALUE,
              lambda c: c['value'])
_add_contract('history.History.add_deleted_value', 'History.add_deleted_value', CK_NEW_VALUE,
              lambda c: DELETED)
_add_contract('history.History.add_updated_tags', 'History.add_updated_tags', CK_UPDATE_TAGS,
              None, extra_req=lambda c: isref(c.old, c['updated_tags'], 'set'), extra_post=_snapshot)


# --- suspend_tracking ---------------------------------------------------------------------------
def _enabled(h):
  return h.fld(ref(TRACKING_STATE), 'enabled')


contract(
    'history.suspend_tracking', F, 'suspend_tracking', cm=True,
    requires=lambda c: GlobalsInv(c.old),
    enter_ensures=lambda c: _enabled(c.heap) == VBool(z3.BoolVal(False)),
    # whatever the body did (nested blocks included), the value found on entry is restored
    exit_post=lambda c: _enabled(c.heap) == _enabled(c.old),
    exc_rel=lambda c, E, Fx: z3.And(Fx.val == E.val, Fx.cls_term == E.cls_term),
    mod=lambda c: [ref(TRACKING_STATE)], writes=('enabled',), allocates=False,
    props=('C16',),
    note='tracking is disabled in the body and the previous value is restored on every exit '
         '(normal or exceptional); nesting follows by composition; exceptions propagate unchanged',
)
