"""Sidecar contracts for the flatten / unflatten / shallow-copy path of fiddle/_src/config.py
(DESIGN §5 C07, C08): `_buildable_flatten`, `BuildableTraverserMetadata.arguments`,
`Buildable.__init_callable__`, `Buildable.__unflatten__`, `Buildable.__flatten__`,
`Buildable.__copy__`."""
import z3
from pyvc.sorts import *  # noqa
from pyvc.contract import contract, Loop
from pyvc.expr import zip_axioms
from pyvc.calls import is_type_obj
from contracts.common import *  # noqa
from contracts.common import _defaults_exist
from contracts import history as H
from contracts.config import (F, bfields, bsig, BInv, BFields, MetaObj, fresh_copies, oa_has, oa_value,
                              oa_keys)
from pyvc.expr import dkeys_cnt, dkeys_seq

FS = 'fiddle/_src/signatures.py'

# the inspect.Signature of a callable value: get_signature is a (cached) function of the callable
sig_of_fn = z3.Function('sig_of_fn', Val, I)

contract('signatures.get_signature', FS, 'get_signature', abstract=True, params=['fn_or_cls'],
         ensures=lambda c: z3.And(isref(c.heap, c.result, 'Signature'),
                                  ref(c.result) == sig_of_fn(c['fn_or_cls']),
                                  WF(sig_of_fn(c['fn_or_cls'])),
                                  _defaults_exist(c.heap, sig_of_fn(c['fn_or_cls']))),
         may_raise=('ValueError', 'TypeError'), allocates=True,
         note='assumed: inspect.signature is a function of the callable (the model identifies '
              'structurally equal Signature objects; only their structure is ever read); the result '
              'is well formed (everything inspect.Signature.__init__ validates); ValueError / '
              'TypeError when the callable has no signature')


# --- Buildable.__init_callable__ ----------------------------------------------------------------
def init_callable_post(h0, h, sv, fn):
  """The three fields __init_callable__ sets on sv: callable, empty store, fresh signature info."""
  s = ref(sv)
  A, si = h.fld(s, '__arguments__'), h.fld(s, '__signature_info__')
  k = z3.Const('ic_k', Val)
  return z3.And(
      h.fld(s, '__fn_or_cls__') == fn,
      is_VRef(A), ref(A) >= h0.alloc, ref(A) < h.alloc, cls_is(h.cls(ref(A)), 'dict'),
      FA([k], z3.Not(h.has(ref(A), k)), patterns=[h.has(ref(A), k)]),
      is_VRef(si), ref(si) >= h0.alloc, ref(si) < h.alloc, SigInfoInv(h, si),
      sig_of(h, ref(si)) == sig_of_fn(fn))


contract(
    'config.Buildable.__init_callable__', F, 'Buildable.__init_callable__',
    requires=lambda c: z3.And(isref(c.old, c['self'], 'Buildable'), ref(c['self']) < c.old.alloc),
    ensures=lambda c: z3.And(
        z3.Not(isref(c.old, c['fn_or_cls'], 'Buildable')),
        init_callable_post(c.old, c.heap, c['self'], c['fn_or_cls'])),
    may_raise=('ValueError', 'TypeError'),
    writes=('__fn_or_cls__', '__arguments__', '__signature_info__'),
    mod=lambda c: [ref(c['self'])], result='none',
    calls={'signatures.get_signature': 'signatures.get_signature'},
    props=('C07',),
    note='returns normally only for a callable that is not a Buildable; then the callable is '
         'stored, the argument store is a fresh empty dict and the signature info is a fresh '
         'SignatureInfo of get_signature(callable); nothing else changes',
)


# --- _buildable_flatten ---------------------------------------------------------------------------
def _bf_flags(c):
  t, f = z3.BoolVal(True), z3.BoolVal(False)
  return [t, bval(c['include_defaults']), f, t, t]


def enumerates(N, V, n, mh, mv):
  """(N[i], V[i]) for i < n enumerates the finite map (mh, mv) without repetition."""
  i = z3.Int('en_i')
  k = z3.Const('en_k', Val)
  return z3.And(
      n >= 0,
      FA([i], z3.Implies(z3.And(0 <= i, i < n),
                         z3.And(mh(N[i]), V[i] == mv(N[i]), zip_last(N, n, N[i]) == i)),
         patterns=[N[i]]),
      FA([k], z3.Implies(mh(k), zip_last(N, n, k) >= 0), patterns=[zip_last(N, n, k)]))


def filtered_copies(h0, h, res, src, clsname, setlike, keep):
  """res is a fresh dict with the keys k of src satisfying keep(k); every value is a fresh,
  distinct container (class clsname) with the members of the corresponding source container."""
  r, s = ref(res), ref(src)
  k = z3.Const('fl_k', Val)
  k2 = z3.Const('fl_k2', Val)
  v = lambda x: ref(h.dget(r, x))
  same = (lambda x: h.hasarr(v(x)) == h0.hasarr(ref(h0.dget(s, x)))) if setlike else \
      (lambda x: z3.And(h.len(v(x)) == h0.len(ref(h0.dget(s, x))),
                        h.eltarr(v(x)) == h0.eltarr(ref(h0.dget(s, x)))))
  return z3.And(
      is_VRef(res), r >= h0.alloc, r < h.alloc, cls_is(h.cls(r), 'dict'),
      FA([k], h.has(r, k) == z3.And(h0.has(s, k), keep(k)), patterns=[h.has(r, k)]),
      FA([k], z3.Implies(h.has(r, k), z3.And(is_VRef(h.dget(r, k)), v(k) >= h0.alloc, v(k) < h.alloc,
                                             v(k) != r, cls_is(h.cls(v(k)), clsname), same(k))),
         patterns=[h.dget(r, k)]),
      FA([k, k2], z3.Implies(z3.And(h.has(r, k), h.has(r, k2), k != k2), v(k) != v(k2)),
         patterns=[z3.MultiPattern(h.dget(r, k), h.dget(r, k2))]))


def nonempty_set(h, sv):
  k = z3.Const('ne_k', Val)
  return z3.Exists([k], h.hasarr(ref(sv))[k])


def flatten_post(c, bv, values, meta, inc_def):
  """(values, meta) describe bv: its callable, an enumeration of its ordered arguments, frozen
  copies of its non-empty tag sets and of its history lists."""
  h0, h = c.old, c.heap
  g = bsig(h0, bv)
  si, Av, Hh, Tg = bfields(h0, bv)
  A = ref(Av)
  has0, val0 = h0.hasarr(A), h0.valarr(A)
  t, f = z3.BoolVal(True), z3.BoolVal(False)
  flags = [t, inc_def, f, t, t]
  m = ref(meta)
  names = h.fld(m, 'argument_names')
  N, V = h.eltarr(ref(names)), h.eltarr(ref(values))
  n = h.len(ref(names))
  full = lambda key: oa_has(g, has0, key, sig_n(g), store_nvar(g, has0), lambda x: z3.BoolVal(True), flags)
  return z3.And(
      is_VRef(values), ref(values) >= h0.alloc, cls_is(h.cls(ref(values)), 'tuple'),
      is_VRef(meta), m >= h0.alloc, cls_is(h.cls(m), 'BuildableTraverserMetadata'),
      h.fld(m, 'fn_or_cls') == h0.fld(ref(bv), '__fn_or_cls__'),
      is_VRef(names), ref(names) >= h0.alloc, ref(names) < h.alloc, cls_is(h.cls(ref(names)), 'tuple'),
      ref(names) != ref(values),
      h.len(ref(values)) == n,
      # the names come in the iteration order of ordered_arguments(...) (see oa_keys)
      n == dkeys_cnt(oa_keys(g, has0, t, inc_def, f, t)),
      FA([z3.Int('fo_i')], z3.Implies(z3.And(0 <= z3.Int('fo_i'), z3.Int('fo_i') < n),
                                      N[z3.Int('fo_i')] == dkeys_seq(oa_keys(g, has0, t, inc_def, f, t))[z3.Int('fo_i')]),
         patterns=[N[z3.Int('fo_i')]]),
      enumerates(N, V, n, full, lambda key: oa_value(g, has0, val0, key)),
      z3.Implies(z3.Not(inc_def),
                 enumerates(N, V, n, lambda key: has0[key], lambda key: val0[key])),
      filtered_copies(h0, h, h.fld(m, 'argument_tags'), Tg, 'set', True,
                      lambda key: nonempty_set(h0, h0.dget(ref(Tg), key))),
      filtered_copies(h0, h, h.fld(m, 'argument_history'), Hh, 'tuple', False,
                      lambda key: z3.BoolVal(True)),
      h.fld(m, 'argument_tags') != h.fld(m, 'argument_history'))


contract(
    'config._buildable_flatten', F, '_buildable_flatten',
    requires=lambda c: z3.And(BInv(c.old, c['buildable']), is_VBool(c['include_defaults'])),
    ensures=lambda c: flatten_post(c, c['buildable'], c.res(0), c.res(1), bval(c['include_defaults'])),
    defaults={'include_defaults': VBool(z3.BoolVal(False))},
    result=('tuple', 2),
    facts=lambda c: [('zip', c.heap.eltarr(ref(c.heap.fld(ref(c.res(1)), 'argument_names'))),
                      c.heap.len(ref(c.heap.fld(ref(c.res(1)), 'argument_names'))))],
    props=('C07', 'C08'),
    note='values and metadata.argument_names enumerate exactly the ordered arguments (each key '
         'once, value paired with its key); metadata carries the callable, frozen copies of the '
         'non-empty tag sets and tuple copies of the history lists; all results are fresh objects; '
         'the Buildable is not modified (frame)',
)

contract('config.Buildable.__flatten__', F, 'Buildable.__flatten__', kind='inline')


# --- BuildableTraverserMetadata.arguments ---------------------------------------------------------
def SeqObj(h, v):
  return z3.And(z3.Or(isref(h, v, 'tuple'), isref(h, v, 'list')), ref(v) < h.alloc, h.len(ref(v)) >= 0)


def zipped_dict(h0, h, res, names, values):
  """res is a fresh dict equal to dict(zip(names, values))."""
  r = ref(res)
  N, V = h0.eltarr(ref(names)), h0.eltarr(ref(values))
  ln, lv = h0.len(ref(names)), h0.len(ref(values))
  n = z3.If(lv < ln, lv, ln)
  k = z3.Const('zd_k', Val)
  w = zip_last(N, n, k)
  return z3.And(
      is_VRef(res), r >= h0.alloc, r < h.alloc, cls_is(h.cls(r), 'dict'),
      zip_axioms(N, n),
      FA([k], h.has(r, k) == (w >= 0), patterns=[h.has(r, k)]),
      FA([k], z3.Implies(h.has(r, k), h.dget(r, k) == V[w]), patterns=[h.dget(r, k)]))


contract(
    'config.BuildableTraverserMetadata.arguments', F, 'BuildableTraverserMetadata.arguments',
    requires=lambda c: z3.And(isref(c.old, c['self'], 'BuildableTraverserMetadata'),
                              SeqObj(c.old, c.old.fld(ref(c['self']), 'argument_names')),
                              SeqObj(c.old, c['values'])),
    ensures=lambda c: zipped_dict(c.old, c.heap, c.result,
                                  c.old.fld(ref(c['self']), 'argument_names'), c['values']),
    props=('C07', 'C08'),
    note='a fresh dict: key k is present iff it occurs among the (first min(len)) names, with the '
         'value paired with its last occurrence; nothing else changes',
)


# --- Buildable.__unflatten__ ----------------------------------------------------------------------
def _uf_req(c):
  h = c.old
  mv = c['metadata']
  m = ref(mv)
  return z3.And(is_VRef(c['cls']), is_type_obj(ref(c['cls'])), cls_in(type_cid(c['cls']), 'Buildable'),
                MetaObj(h, mv), m < h.alloc,
                SeqObj(h, h.fld(m, 'argument_names')), SeqObj(h, c['values']),
                H.GlobalsInv(h))


def unflatten_post(h0, h, res, cid, values, mv):
  m = ref(mv)
  r = ref(res)
  fn = h0.fld(m, 'fn_or_cls')
  A, Hh, Tg = h.fld(r, '__arguments__'), h.fld(r, '__argument_history__'), h.fld(r, '__argument_tags__')
  cc = type('C', (), {})()
  cc.old, cc.heap = h0, h
  return z3.And(
      is_VRef(res), r >= h0.alloc, h.cls(r) == cid,
      z3.Not(isref(h0, fn, 'Buildable')),
      h.fld(r, '__fn_or_cls__') == fn,
      is_VRef(h.fld(r, '__signature_info__')), ref(h.fld(r, '__signature_info__')) >= h0.alloc,
      ref(h.fld(r, '__signature_info__')) < h.alloc,
      SigInfoInv(h, h.fld(r, '__signature_info__')),
      sig_of(h, ref(h.fld(r, '__signature_info__'))) == sig_of_fn(fn),
      zipped_dict(h0, h, A, h0.fld(m, 'argument_names'), values),
      fresh_copies(cc, Tg, h0.fld(m, 'argument_tags'), 'defaultdict', True),
      fresh_copies(cc, Hh, h0.fld(m, 'argument_history'), 'History', False))


contract(
    'config.Buildable.__unflatten__', F, 'Buildable.__unflatten__',
    requires=_uf_req,
    ensures=lambda c: unflatten_post(c.old, c.heap, c.result, type_cid(c['cls']), c['values'],
                                     c['metadata']),
    may_raise=('ValueError', 'TypeError'),
    writes=('__fn_or_cls__', '__arguments__', '__signature_info__', '__argument_tags__',
            '__argument_history__', 'signature', 'has_var_keyword', '_var_positional_start'),
    props=('C07', 'C08'),
    note='a fresh instance of cls: callable and signature of metadata.fn_or_cls, argument store '
         'dict(zip(names, values)) in a fresh dict, fresh tag sets / history lists with the '
         'metadata\'s members; nothing that existed before is modified (frame)',
)


# --- Buildable.__copy__ ---------------------------------------------------------------------------
def _cp_req(c):
  h = c.old
  sv = c['self']
  return z3.And(BInv(h, sv), ref(sv) < h.alloc,
                # the stored signature is the signature of the stored callable (established by
                # __init_callable__, the only writer of both fields)
                bsig(h, sv) == sig_of_fn(h.fld(ref(sv), '__fn_or_cls__')))


def copy_post(c, cls_of_result=None):
  h0, h = c.old, c.heap
  sv = c['self']
  s = ref(sv)
  si0, A0v, Hh0, Tg0 = bfields(h0, sv)
  A0 = ref(A0v)
  has0, val0 = h0.hasarr(A0), h0.valarr(A0)
  res = c.result
  r = ref(res)
  si, Av, Hh, Tg = bfields(h, res)
  A = ref(Av)
  k = z3.Const('cp_k', Val)
  k2 = z3.Const('cp_k2', Val)
  tset = lambda hh, T, key: hh.hasarr(ref(hh.dget(ref(T), key)))
  tagged0 = lambda key: z3.And(h0.has(ref(Tg0), key), nonempty_set(h0, h0.dget(ref(Tg0), key)))
  return z3.And(
      is_VRef(res), r >= h0.alloc, h.cls(r) == (h0.cls(s) if cls_of_result is None else cls_of_result),
      # the copy satisfies the representation invariant, so every edit contract applies to it
      BInv(h, res), store_nvar(bsig(h0, sv), h.hasarr(A)) == store_nvar(bsig(h0, sv), has0),
      bsig(h, res) == sig_of_fn(h.fld(r, '__fn_or_cls__')),
      h.fld(r, '__fn_or_cls__') == h0.fld(s, '__fn_or_cls__'),
      is_VRef(si), ref(si) >= h0.alloc, ref(si) < h.alloc, SigInfoInv(h, si), sig_of(h, ref(si)) == bsig(h0, sv),
      # the argument store: a fresh dict with the same keys and the *same* (shared) values
      is_VRef(Av), A >= h0.alloc, A < h.alloc, cls_is(h.cls(A), 'dict'),
      FA([k], h.has(A, k) == has0[k], patterns=[h.has(A, k)]),
      FA([k], z3.Implies(has0[k], h.dget(A, k) == val0[k]), patterns=[h.dget(A, k)]),
      # tags: exactly the arguments with a non-empty tag set, in fresh sets with the same members
      is_VRef(Tg), ref(Tg) >= h0.alloc, ref(Tg) < h.alloc, cls_is(h.cls(ref(Tg)), 'defaultdict'),
      FA([k], h.has(ref(Tg), k) == tagged0(k), patterns=[h.has(ref(Tg), k)]),
      FA([k], z3.Implies(h.has(ref(Tg), k),
                         z3.And(is_VRef(h.dget(ref(Tg), k)), ref(h.dget(ref(Tg), k)) >= h0.alloc,
                                ref(h.dget(ref(Tg), k)) < h.alloc,
                                cls_in(h.cls(ref(h.dget(ref(Tg), k))), 'set'),
                                tset(h, Tg, k) == tset(h0, Tg0, k))),
         patterns=[h.dget(ref(Tg), k)]),
      FA([k, k2], z3.Implies(z3.And(h.has(ref(Tg), k), h.has(ref(Tg), k2), k != k2),
                             h.dget(ref(Tg), k) != h.dget(ref(Tg), k2)),
         patterns=[z3.MultiPattern(h.dget(ref(Tg), k), h.dget(ref(Tg), k2))]),
      # history: the same keys, fresh lists with the same entries
      is_VRef(Hh), ref(Hh) >= h0.alloc, ref(Hh) < h.alloc, cls_is(h.cls(ref(Hh)), 'History'),
      FA([k], h.has(ref(Hh), k) == h0.has(ref(Hh0), k), patterns=[h.has(ref(Hh), k)]),
      FA([k], z3.Implies(h.has(ref(Hh), k),
                         z3.And(is_VRef(h.dget(ref(Hh), k)), ref(h.dget(ref(Hh), k)) >= h0.alloc,
                                ref(h.dget(ref(Hh), k)) < h.alloc,
                                cls_is(h.cls(ref(h.dget(ref(Hh), k))), 'list'),
                                h.len(ref(h.dget(ref(Hh), k))) == h0.len(ref(h0.dget(ref(Hh0), k))),
                                h.eltarr(ref(h.dget(ref(Hh), k))) == h0.eltarr(ref(h0.dget(ref(Hh0), k))))),
         patterns=[h.dget(ref(Hh), k)]))


contract(
    'config.Buildable.__copy__', F, 'Buildable.__copy__',
    requires=_cp_req, ensures=copy_post,
    facts=lambda c: [] if c.result is None else [('nvar', (bsig(c.old, c['self']),
                               c.heap.hasarr(ref(c.heap.fld(ref(c.result), '__arguments__')))),
                      store_nvar(bsig(c.old, c['self']),
                                 c.old.hasarr(ref(c.old.fld(ref(c['self']), '__arguments__')))))],
    may_raise=('ValueError', 'TypeError'),
    writes=('__fn_or_cls__', '__arguments__', '__signature_info__', '__argument_tags__',
            '__argument_history__', 'signature', 'has_var_keyword', '_var_positional_start'),
    props=('C07',),
    note='copy.copy(buildable): a fresh Buildable of the same class, callable and signature; its '
         'argument store is a fresh dict with the same keys bound to the same (shared) values; its '
         'tag sets and history lists are fresh objects with the same members; the original and '
         'everything reachable from it is unchanged (frame) — so no later edit of either can be '
         'seen through the other',
)


# --- C07 lemmas over the contracts above (clients kept in /verif/lemmas, see its docstring) ---------
from contracts.config import _b_mod, WRITES, SET_COUNTER   # noqa: E402

FL = '@verif/lemmas/c07_copy.py'
_COPY_WRITES = ('__fn_or_cls__', '__arguments__', '__signature_info__', '__argument_tags__',
                '__argument_history__', 'signature', 'has_var_keyword', '_var_positional_start')


def _lemma_req(c, key_ok_, with_value):
  h = c.old
  bc = type(c)({'self': c['b']}, h, h)
  out = [_cp_req(bc), key_ok_]
  if with_value:
    v = c['value']
    out.append(z3.Implies(isref(h, v, 'TaggedValueCls'),
                          z3.And(BFields(h, v), ref(v) < h.alloc, ref(v) != ref(c['b']))))
  return z3.And(*out)


def _edit_copy_lemma(fn, params_key, with_value, key_ok_):
  contract(
      'lemma.c07.' + fn, FL, fn,
      requires=lambda c: _lemma_req(c, key_ok_(c), with_value),
      ensures=lambda c: z3.And(is_VRef(c.result), ref(c.result) >= c.old.alloc, BInv(c.heap, c.result)),
      may_raise=('ValueError', 'TypeError', 'AttributeError', 'IndexError'),
      mod=lambda c: [ref(SET_COUNTER), ref(H.NOTHING)], writes=WRITES + _COPY_WRITES + ('start', 'stop', 'step'),
      props=('C07',),
      note='LEMMA over contracts (client in /verif/lemmas): after c = copy.copy(b), this edit of c '
           'modifies no object that existed before the copy was made except the global history '
           'counter — in particular b, its argument dict, its tag sets and its history lists are '
           'unchanged (frame obligations), on the normal and on every exceptional exit',
  )


_edit_copy_lemma('edit_copy_setattr', 'name', True, lambda c: is_VStr(c['name']))
_edit_copy_lemma('edit_copy_delattr', 'name', False, lambda c: is_VStr(c['name']))
_edit_copy_lemma('edit_copy_setitem', 'key', True, lambda c: z3.Or(
    is_VInt(c['key']), z3.And(c['key'] == VARARGS, sig_vps(bsig(c.old, c['b'])) >= 0)))


def _edit_original_lemma(fn, with_value, tags):
  contract(
      'lemma.c07.' + fn, FL, fn,
      requires=lambda c: _lemma_req(c, is_VStr(c['name']), with_value),
      ensures=lambda c: copy_post(type(c)({'self': c['b']}, c.old, c.heap, result=c.result)),
      may_raise=('ValueError', 'TypeError', 'AttributeError'),
      mod=lambda c: _b_mod(type(c)({'self': c['b']}, c.old, c.old), c['name'], tags=tags),
      writes=WRITES + _COPY_WRITES,
      props=('C07',),
      note='LEMMA over contracts (client in /verif/lemmas): after c = copy.copy(b), this edit of b '
           'leaves c exactly the copy it was: same class, callable, signature, store, tags, history '
           '(as b had them *before* the edit), still in fresh containers',
  )


_edit_original_lemma('edit_original_setattr', True, True)
_edit_original_lemma('edit_original_delattr', False, False)


# --- _buildable_path_elements (C08) and the path-soundness lemma ---------------------------------------
def path_elements_post(c, bv, res, inc_def):
  """res is a fresh tuple with one fresh path element per ordered argument, in iteration order:
  Attr(name) for a str key, Index(i) for an int key."""
  h0, h = c.old, c.heap
  g = bsig(h0, bv)
  has0 = h0.hasarr(ref(bfields(h0, bv)[1]))
  t, f = z3.BoolVal(True), z3.BoolVal(False)
  K = oa_keys(g, has0, t, inc_def, f, t)
  n = dkeys_cnt(K)
  r = ref(res)
  i = z3.Int('pe_i')
  e = lambda ix: h.elt(r, ix)
  key = lambda ix: dkeys_seq(K)[ix]
  return z3.And(
      is_VRef(res), r >= h0.alloc, cls_is(h.cls(r), 'tuple'), h.len(r) == n, n >= 0,
      FA([i], z3.Implies(z3.And(0 <= i, i < n), z3.And(
          is_VRef(e(i)), ref(e(i)) >= h0.alloc, ref(e(i)) < h.alloc,
          z3.If(is_VStr(key(i)),
                z3.And(cls_is(h.cls(ref(e(i))), 'Attr'), h.fld(ref(e(i)), 'name') == key(i)),
                z3.And(cls_is(h.cls(ref(e(i))), 'Index'), h.fld(ref(e(i)), 'index') == key(i))))),
         patterns=[e(i)]))


contract(
    'config._buildable_path_elements', F, '_buildable_path_elements',
    requires=lambda c: z3.And(BInv(c.old, c['buildable']), is_VBool(c['include_defaults'])),
    ensures=lambda c: path_elements_post(c, c['buildable'], c.result, bval(c['include_defaults'])),
    defaults={'include_defaults': VBool(z3.BoolVal(False))},
    writes=('name', 'index'),
    props=('C08',),
    note='one fresh path element per ordered argument, in the same order as flatten\'s names: '
         'Attr(name) for a name, Index(i) for a position; the Buildable is not modified (frame)',
)

contract('config.Buildable.__path_elements__', F, 'Buildable.__path_elements__', kind='inline')

FD = 'fiddle/_src/daglish.py'
contract('daglish.Attr.follow', FD, 'Attr.follow', kind='inline')
contract('daglish.Index.follow', FD, 'Index.follow', kind='inline')

FL8 = '@verif/lemmas/c08_paths.py'


def _pf_req(c):
  h = c.old
  b = c['b']
  g = bsig(h, b)
  has0 = h.hasarr(ref(bfields(h, b)[1]))
  t, f = z3.BoolVal(True), z3.BoolVal(False)
  n = dkeys_cnt(oa_keys(g, has0, t, f, f, t))
  from contracts.config import NoSentinel
  k = z3.Const('pf_k', Val)
  A = ref(bfields(h, b)[1])
  return z3.And(BInv(h, b), ref(b) < h.alloc, is_VInt(c['i']), 0 <= ival(c['i']), ival(c['i']) < n,
                # no stored argument value is one of fiddle's private sentinels (users cannot
                # obtain the unset sentinel; NO_VALUE is never stored by the public API)
                NoSentinel(h, bfields(h, b)[1]),
                FA([k], z3.Implies(h.has(A, k), h.dget(A, k) != UNSET_SENTINEL), patterns=[h.has(A, k)]))


contract(
    'lemma.c08.path_follows_value', FL8, 'path_follows_value',
    requires=_pf_req,
    ensures=lambda c: c.res(0) == c.res(1),
    result=('tuple', 2),
    may_raise=(),
    writes=('name', 'index', 'fn_or_cls', 'argument_names', 'argument_tags', 'argument_history'),
    props=('C08',),
    note='LEMMA over contracts (client in /verif/lemmas): for every Buildable b and every position i, '
         'following the i-th path element of b.__path_elements__() from b yields exactly (is) the '
         'i-th value of b.__flatten__() — the (value, path) pairs a traversal reports for the '
         'children of a Buildable are sound; nothing that existed before is modified',
)


# --- casting.cast (C07): a flatten / unflatten copy with another Buildable class -------------------------
from pyvc import contract as _C2          # noqa: E402
from pyvc.state import OpaqueContainer     # noqa: E402
import contracts.selectors                 # noqa: E402,F401  (dynamic issubclass contract)

FCAST = 'fiddle/_src/casting.py'
_C2.MODULE_GLOBALS[FCAST] = {'_SUPPORTED_CASTS': OpaqueContainer('_SUPPORTED_CASTS')}


def _cast_req(c):
  h = c.old
  nt = c['new_type']
  bc = type(c)({'self': c['buildable']}, h, h)
  return z3.And(is_VRef(nt), is_type_obj(ref(nt)), cls_in(type_cid(nt), 'Buildable'),
                isref(h, c['buildable'], 'Buildable'), _cp_req(bc))


def _cast_post(c):
  """As copy.copy, except that the class of the result is new_type."""
  c2 = type(c)({'self': c['buildable']}, c.old, c.heap, result=c.result)
  return copy_post(c2, cls_of_result=type_cid(c['new_type']))


contract(
    'casting.cast', FCAST, 'cast',
    requires=_cast_req, ensures=_cast_post,
    may_raise=('ValueError', 'TypeError'),
    calls={'issubclass': 'builtin.issubclass_dyn'},
    writes=('__fn_or_cls__', '__arguments__', '__signature_info__', '__argument_tags__',
            '__argument_history__', 'signature', 'has_var_keyword', '_var_positional_start'),
    props=('C07',),
    note='fdl.cast(new_type, buildable), new_type a Buildable class (also the same class): a fresh '
         'instance of new_type with the callable, signature, argument store (fresh dict, shared '
         'values), tag sets and history lists (fresh objects, same members) of buildable; buildable '
         'and everything reachable from it is unchanged (frame); whether the pair of types is in the '
         'registry of supported casts only decides about a warning',
)


# --- pickle state: Buildable.__getstate__ / __setstate__ (C07) ------------------------------------------
_INTERNALS = ('__fn_or_cls__', '__arguments__', '__argument_history__', '__argument_tags__',
              '__signature_info__')


def _gs_post(c):
  h0, h = c.old, c.heap
  s = ref(c['self'])
  r = ref(c.result)
  k = z3.Const('gs_k', Val)
  names = [strlit(f) for f in _INTERNALS]
  return z3.And(
      is_VRef(c.result), r >= h0.alloc, cls_is(h.cls(r), 'dict'),
      FA([k], h.has(r, k) == z3.Or(*[k == n_ for n_ in names]), patterns=[h.has(r, k)]),
      *[h.dget(r, strlit(f)) == h0.fld(s, f) for f in _INTERNALS if f != '__signature_info__'],
      h.dget(r, strlit('__signature_info__')) == VNone)


contract(
    'config.Buildable.__getstate__', F, 'Buildable.__getstate__',
    requires=lambda c: z3.And(isref(c.old, c['self'], 'Buildable'), ref(c['self']) < c.old.alloc),
    ensures=_gs_post, props=('C07',),
    note='the pickled state is a fresh dict holding the callable, the argument dict, the history and '
         'the tag dict of the Buildable *as they are* (the very objects; pickle copies them) and None '
         'for the signature info; the Buildable itself is not modified (frame)',
)


def _ss_req(c):
  h = c.old
  st = c['state']
  k = z3.Const('ss_k', Val)
  names = [strlit(f) for f in _INTERNALS]
  return z3.And(isref(h, c['self'], 'Buildable'), ref(c['self']) < h.alloc,
                isref(h, st, 'dict'), z3.Not(cls_in(h.cls(ref(st)), 'defaultdict')),
                z3.Not(cls_in(h.cls(ref(st)), 'History')), ref(st) < h.alloc,
                FA([k], z3.Implies(h.has(ref(st), k), z3.Or(*[k == n_ for n_ in names])),
                   patterns=[h.has(ref(st), k)]),
                *[h.has(ref(st), n_) for n_ in names],
                # what __getstate__ produces: the signature info was replaced by None
                h.dget(ref(st), strlit('__signature_info__')) == VNone)


def _ss_post(c):
  h0, h = c.old, c.heap
  s = ref(c['self'])
  st = ref(c['state'])
  fn = h0.dget(st, strlit('__fn_or_cls__'))
  si = h.fld(s, '__signature_info__')
  return z3.And(
      *[h.fld(s, f) == h0.dget(st, strlit(f)) for f in _INTERNALS if f != '__signature_info__'],
      is_VRef(si), ref(si) >= h0.alloc, SigInfoInv(h, si), sig_of(h, ref(si)) == sig_of_fn(fn))


contract(
    'config.Buildable.__setstate__', F, 'Buildable.__setstate__',
    requires=_ss_req, ensures=_ss_post, may_raise=('ValueError', 'TypeError'),
    mod=lambda c: [ref(c['self'])],
    writes=('__fn_or_cls__', '__arguments__', '__signature_info__', '__argument_tags__',
            '__argument_history__', 'signature', 'has_var_keyword', '_var_positional_start'),
    result='none',
    props=('C07',),
    note='unpickling: the object gets exactly the callable, argument dict, history and tag dict of '
         'the state, and a fresh SignatureInfo re-derived from the callable (get_signature); nothing '
         'else changes',
)
