"""Sidecar contract for fiddle/_src/arg_factory.py: _InvokeArgFactoryWrapper.__call__ (DESIGN §5 C04:
the factories of ArgFactory arguments are invoked again on every call of the built partial)."""
import z3
from pyvc.sorts import *  # noqa
from pyvc.contract import contract, Loop
from pyvc import contract as _C
from pyvc.state import TypeObj
from pyvc.expr import dkeys_cnt, dkeys_seq, dkeys_pos
from contracts.common import *  # noqa

F = 'fiddle/_src/arg_factory.py'
defclass('arg_factory.ArgFactory', 'object')      # the plain wrapper class of this module
_C.MODULE_GLOBALS[F] = {'ArgFactory': TypeObj('arg_factory.ArgFactory')}

G_FN = 'g:factory_calls'          # ghost: number of factory invocations so far
GA_FOBJ = 'ga:factory_obj'        # ghost: the ArgFactory object whose factory the t-th invocation ran
GA_FRES = 'ga:factory_res'        # ghost: what it returned
G_WN = 'g:wrapped_calls'          # ghost: number of calls of the wrapped function
GA_WLAST = 'ga:wrapped_last'      # ghost: [0] function, [1] positional tuple, [2] keyword dict


def is_af(h, v):
  return isref(h, v, 'arg_factory.ArgFactory')


def log_kept(h0, h):
  """Earlier entries of the factory log are unchanged."""
  t = z3.Int('fl_t')
  return FA([t], z3.Implies(t < h0.get(G_FN), z3.And(h.get(GA_FOBJ)[t] == h0.get(GA_FOBJ)[t],
                                                     h.get(GA_FRES)[t] == h0.get(GA_FRES)[t])),
            patterns=[h.get(GA_FOBJ)[t], h.get(GA_FRES)[t]])


def private_kept(c):
  """The wrapper's own containers (the **kwargs dict of this call and the accumulators of the two
  comprehensions) cannot be reached by user code: they are unchanged by a factory call."""
  h0, h = c.old, c.heap
  out = []
  for name in ('kwargs', '_comp0', '_comp1'):
    v = (c.caller or {}).get(name)
    if v is not None and z3.is_expr(v):
      r = ref(v)
      out += [h.hasarr(r) == h0.hasarr(r), h.valarr(r) == h0.valarr(r), h.len(r) == h0.len(r),
              h.eltarr(r) == h0.eltarr(r)]
  return z3.And(out) if out else z3.BoolVal(True)


contract('arg_factory.factory_call', F, 'factory', abstract=True, params=['self'],
         requires=lambda c: is_af(c.old, c['self']),
         ensures=lambda c: z3.And(private_kept(c), c.heap.get(G_FN) == c.old.get(G_FN) + 1,
                                  c.heap.get(GA_FOBJ)[c.old.get(G_FN)] == c['self'],
                                  c.heap.get(GA_FRES)[c.old.get(G_FN)] == c.result,
                                  log_kept(c.old, c.heap)),
         may_raise=('BaseException',), havoc_all=True, ghost_writes=(G_FN, GA_FOBJ, GA_FRES),
         note='assumed: `value.factory()` runs an arbitrary user factory, which cannot reach the '
              'wrapper\'s private containers (the **kwargs dict of the call, the comprehension '
              'accumulators); the ghost log records which ArgFactory object was asked and what it '
              'returned, in invocation order')
contract('arg_factory.wrapped_func', F, 'func', abstract=True, params=['fn', 'args', 'kwargs'],
         ensures=lambda c: z3.And(c.heap.get(G_WN) == c.old.get(G_WN) + 1,
                                  c.heap.get(GA_WLAST)[0] == c['fn'], c.heap.get(GA_WLAST)[1] == c['args'],
                                  c.heap.get(GA_WLAST)[2] == c['kwargs']),
         may_raise=('BaseException',), havoc_all=True, ghost_writes=(G_WN, GA_WLAST),
         note='assumed: the wrapped function is arbitrary user code; the ghost log records the call')

contract('arg_factory.wrapped_func#checked', F, 'func', abstract=True, params=['fn', 'args', 'kwargs'],
         requires=lambda c: _called_with(c),
         ensures=lambda c: z3.And(c.heap.get(G_WN) == c.old.get(G_WN) + 1,
                                  c.heap.get(GA_WLAST)[0] == c['fn'], c.heap.get(GA_WLAST)[1] == c['args'],
                                  c.heap.get(GA_WLAST)[2] == c['kwargs']),
         may_raise=('BaseException',), havoc_all=True, ghost_writes=(G_WN, GA_WLAST),
         note='the wrapped function at its call site inside _InvokeArgFactoryWrapper.__call__: the '
              'precondition (an obligation there) states what it is called with')

contract('arg_factory._arg_factory_value', F, '_arg_factory_value', kind='inline',
         calls={'value.factory': 'arg_factory.factory_call'})

# number of ArgFactory values among the first i positional arguments / the first j keyword
# arguments (in the iteration order of the keyword dict)
af_cnt = z3.Function('af_cnt', ValArr, I, I)
af_cntk = z3.Function('af_cntk', HasArr, ValMap, I, I)


def _t(c):
  h0 = c.old
  A = h0.eltarr(ref(c['args']))
  n = h0.len(ref(c['args']))
  Kh, Kv = h0.hasarr(ref(c['kwargs'])), h0.valarr(ref(c['kwargs']))
  m = dkeys_cnt(Kh)
  seq = dkeys_seq(Kh)
  return h0, A, n, Kh, Kv, m, seq


def _recdefs(c):
  h0, A, n, Kh, Kv, m, seq = _t(c)
  one = lambda b: z3.If(b, z3.IntVal(1), z3.IntVal(0))
  return {
      'cnt': (af_cnt(A, z3.IntVal(0)) == 0,
              lambda i: af_cnt(A, i + 1) == af_cnt(A, i) + one(is_af(h0, A[i]))),
      'cntk': (af_cntk(Kh, Kv, z3.IntVal(0)) == 0,
               lambda j: af_cntk(Kh, Kv, j + 1) == af_cntk(Kh, Kv, j) + one(is_af(h0, Kv[seq[j]]))),
  }


def _lemmas(c):
  h0, A, n, Kh, Kv, m, seq = _t(c)
  return [('cnt_nonneg', lambda i: af_cnt(A, i) >= 0, 0, ['cnt']),
          ('cntk_nonneg', lambda j: af_cntk(Kh, Kv, j) >= 0, 0, ['cntk'])]


def _req(c):
  h = c.old
  return z3.And(isref(h, c['self'], '_InvokeArgFactoryWrapper'),
                isref(h, c['args'], 'tuple'), ref(c['args']) < h.alloc,
                isref(h, c['kwargs'], 'dict'), z3.Not(cls_in(h.cls(ref(c['kwargs'])), 'defaultdict')),
                z3.Not(cls_in(h.cls(ref(c['kwargs'])), 'History')), ref(c['kwargs']) < h.alloc,
                h.get(G_FN) >= 0)


def pos_done(c, acc, j):
  """acc holds the transformed first j positional arguments; the log grew by exactly the
  ArgFactory ones among them, in order."""
  h0, A, n, Kh, Kv, m, seq = _t(c)
  h = c.heap
  c0 = h0.get(G_FN)
  i = z3.Int('pd_i')
  return z3.And(
      FA([i], z3.Implies(z3.And(0 <= i, i < j), z3.And(
          h.elt(ref(acc), i) == z3.If(is_af(h0, A[i]), h.get(GA_FRES)[c0 + af_cnt(A, i)], A[i]),
          af_cnt(A, i) >= 0,
          z3.Implies(is_af(h0, A[i]), z3.And(h.get(GA_FOBJ)[c0 + af_cnt(A, i)] == A[i],
                                             af_cnt(A, i) < af_cnt(A, j))))),
         patterns=[h.elt(ref(acc), i)]))


def kw_done(c, accd, j):
  h0, A, n, Kh, Kv, m, seq = _t(c)
  h = c.heap
  c1 = h0.get(G_FN) + af_cnt(A, n)
  k = z3.Const('kd_k', Val)
  r = ref(accd)
  p = dkeys_pos(Kh, k)
  return z3.And(
      FA([k], h.has(r, k) == z3.And(Kh[k], p < j), patterns=[h.has(r, k)]),
      FA([k], z3.Implies(h.has(r, k), z3.And(
          h.dget(r, k) == z3.If(is_af(h0, Kv[k]), h.get(GA_FRES)[c1 + af_cntk(Kh, Kv, p)], Kv[k]),
          af_cntk(Kh, Kv, p) >= 0,
          z3.Implies(is_af(h0, Kv[k]), z3.And(h.get(GA_FOBJ)[c1 + af_cntk(Kh, Kv, p)] == Kv[k],
                                              af_cntk(Kh, Kv, p) < af_cntk(Kh, Kv, j))))),
         patterns=[h.dget(r, k)]))


def _same_locals(c):
  h0, A, n, Kh, Kv, m, seq = _t(c)
  kw = ref(c['kwargs'])
  # `self` is not rebound; the **kwargs dict of this call still has its entry contents
  return z3.And(c.v('self') == c['self'], c.heap.hasarr(kw) == Kh, c.heap.valarr(kw) == Kv)


def _inv0(c):
  """positional loop (desugared `tuple(_arg_factory_value(arg) for arg in args)`)."""
  h0, A, n, Kh, Kv, m, seq = _t(c)
  h = c.heap
  acc = c.v('_comp0')
  return z3.And(0 <= c.k, c.k <= n, _same_locals(c), c.v('kwargs') == c['kwargs'],
                is_VRef(acc), ref(acc) >= h0.alloc, cls_is(h.cls(ref(acc)), 'list'),
                h.len(ref(acc)) == c.k,
                h.get(G_FN) == h0.get(G_FN) + af_cnt(A, c.k), h.get(G_WN) == h0.get(G_WN),
                log_kept(h0, h), pos_done(c, acc, c.k))


def _inv1(c):
  """keyword loop (desugared `{key: _arg_factory_value(arg) for (key, arg) in kwargs.items()}`)."""
  h0, A, n, Kh, Kv, m, seq = _t(c)
  h = c.heap
  accd = c.v('_comp1')
  R = c.v('args')
  return z3.And(0 <= c.k, c.k <= m, _same_locals(c), c.v('kwargs') == c['kwargs'],
                is_VRef(R), ref(R) >= h0.alloc, cls_is(h.cls(ref(R)), 'tuple'), h.len(ref(R)) == n,
                pos_done(c, R, n),
                is_VRef(accd), ref(accd) >= h0.alloc, cls_is(h.cls(ref(accd)), 'dict'), ref(accd) != ref(R),
                h.get(G_FN) == h0.get(G_FN) + af_cnt(A, n) + af_cntk(Kh, Kv, c.k),
                h.get(G_WN) == h0.get(G_WN),
                log_kept(h0, h), kw_done(c, accd, c.k))


def _post(c):
  h0, A, n, Kh, Kv, m, seq = _t(c)
  h = c.heap
  R, D = h.get(GA_WLAST)[1], h.get(GA_WLAST)[2]
  return z3.And(
      # the wrapped function was called exactly once, with the transformed arguments
      h.get(G_WN) == h0.get(G_WN) + 1,
      h.get(GA_WLAST)[0] == h0.fld(ref(c['self']), 'func'),
      is_VRef(R), ref(R) >= h0.alloc, is_VRef(D), ref(D) >= h0.alloc)


def _called_with(c):
  """State right when the wrapped function is called (its precondition, checked at the call site):
  every positional / keyword argument that is an ArgFactory was replaced by the result of *its own*
  factory invocation made during this call, everything else is passed through, and the factories
  ran exactly once per ArgFactory argument."""
  cc2 = c.caller_entry           # Ctx(entry args of the caller, its entry heap, heap at the call)
  h0, A, n, Kh, Kv, m, seq = _t(cc2)
  h = c.old
  R, D = c['args'], c['kwargs']
  return z3.And(
      is_VRef(R), cls_is(h.cls(ref(R)), 'tuple'), h.len(ref(R)) == n, pos_done(cc2, R, n),
      is_VRef(D), kw_done(cc2, D, m),
      h.get(G_FN) == h0.get(G_FN) + af_cnt(A, n) + af_cntk(Kh, Kv, m))


contract(
    'arg_factory._InvokeArgFactoryWrapper.__call__', F, '_InvokeArgFactoryWrapper.__call__',
    requires=_req, ensures=_post, recdefs=_recdefs, lemmas=_lemmas,
    may_raise=('BaseException',), havoc_all=True,
    ghost_writes=(G_FN, GA_FOBJ, GA_FRES, G_WN, GA_WLAST),
    calls={'self.func': 'arg_factory.wrapped_func#checked'},
    desugar=True,
    loops={0: Loop(_inv0, facts=lambda c: [('unfold', 'cnt', c.k), ('lemma', 'cnt_nonneg', c.k)],
                   pivots=lambda c: [c.k]),
           1: Loop(_inv1, facts=lambda c: [('unfold', 'cntk', c.k), ('lemma', 'cntk_nonneg', c.k),
                                           ('dkeys', _t(c)[3], None)],
                   pivots=lambda c: [dkeys_seq(_t(c)[3])[c.k]])},
    props=('C04',),
    note='per call of a built partial: every ArgFactory argument (positional or keyword) is replaced '
         'by the value returned by an invocation of its own factory made during *this* call (t-th '
         'ArgFactory argument <-> t-th entry of the invocation log, so no result is reused for two '
         'arguments and nothing is cached across calls); other arguments are passed through; the '
         'wrapped function is called exactly once with them (the comprehensions are desugared '
         'mechanically into accumulator loops, see loader.desugar_comprehensions)',
)
