"""Sidecar contracts for fiddle/_src/config.py: the argument-store kernel (DESIGN.md App. D)."""
import z3
from pyvc.sorts import *  # noqa
from pyvc.contract import contract, Loop
from contracts.common import *  # noqa
from contracts import history as H
from contracts import signatures as S

F = 'fiddle/_src/config.py'
TRUEV = VBool(z3.BoolVal(True))


def bfields(h, bv):
  b = ref(bv)
  return (h.fld(b, '__signature_info__'), h.fld(b, '__arguments__'),
          h.fld(b, '__argument_history__'), h.fld(b, '__argument_tags__'))


def TagsObj(h, tv):
  """tv is the defaultdict(set) holding the tag sets."""
  k = z3.Const('to_k', Val)
  k2 = z3.Const('to_k2', Val)
  r = ref(tv)
  return z3.And(isref(h, tv, 'defaultdict'), z3.Not(cls_in(h.cls(r), 'History')),
                FA([k], z3.Implies(h.has(r, k), isref(h, h.dget(r, k), 'set')),
                   patterns=[h.has(r, k)]),
                # every argument owns its tag set: no two keys share a set object
                FA([k, k2], z3.Implies(z3.And(h.has(r, k), h.has(r, k2), k != k2),
                                       h.dget(r, k) != h.dget(r, k2)),
                   patterns=[z3.MultiPattern(h.dget(r, k), h.dget(r, k2))]))


def BFields(h, bv):
  """bv is a Buildable whose five internals have the right shapes (no Canon yet)."""
  si, A, Hh, Tg = bfields(h, bv)
  return z3.And(
      isref(h, bv, 'Buildable'),
      SigInfoInv(h, si), ref(si) < h.alloc,
      isref(h, A, 'dict'), z3.Not(cls_in(h.cls(ref(A)), 'defaultdict')),
      z3.Not(cls_in(h.cls(ref(A)), 'History')), ref(A) < h.alloc,
      H.HistoryObj(h, Hh), ref(Hh) < h.alloc,
      TagsObj(h, Tg), ref(Tg) < h.alloc,
      H.GlobalsInv(h))


def bsig(h, bv):
  return sig_of(h, ref(bfields(h, bv)[0]))


def BInv(h, bv):
  """Representation invariant of Buildable: typed internals + canonical argument store."""
  si, A, Hh, Tg = bfields(h, bv)
  return z3.And(BFields(h, bv), StoreInv(h, bsig(h, bv), A))


def store_eq(h, h0, bv, has_fn=None, val_fn=None):
  """The argument store of bv in h equals (has_fn(old has), val_fn(old val))."""
  A = ref(bfields(h0, bv)[1])
  has0, val0 = h0.hasarr(A), h0.valarr(A)
  return z3.And(h.hasarr(A) == (has_fn(has0) if has_fn else has0),
                h.valarr(A) == (val_fn(val0) if val_fn else val0))


def internals_same(h, h0, bv):
  b = ref(bv)
  return z3.And(*[h.fld(b, f) == h0.fld(b, f) for f in
                  ('__signature_info__', '__arguments__', '__argument_history__',
                   '__argument_tags__', '__fn_or_cls__')])


def tags_same(h, h0, bv):
  """No tag set of bv changed (tag maps compared modulo materialised empty sets)."""
  Tg = ref(bfields(h0, bv)[3])
  k = z3.Const('ts_k', Val)
  return z3.And(h.hasarr(Tg) == h0.hasarr(Tg), h.valarr(Tg) == h0.valarr(Tg),
                FA([k], z3.Implies(h0.has(Tg, k),
                                   h.hasarr(ref(h0.dget(Tg, k))) == h0.hasarr(ref(h0.dget(Tg, k)))),
                   patterns=[h0.has(Tg, k)]))


def hist_effect(c, bv, key, kind, value=None):
  """History of bv: exactly one entry for key if tracking is on, otherwise untouched."""
  h0, h = c.old, c.heap
  Hh = bfields(h0, bv)[2]
  Hr = ref(Hh)
  unchanged = z3.And(
      h.hasarr(Hr) == h0.hasarr(Hr), h.valarr(Hr) == h0.valarr(Hr),
      H.counter(h) == H.counter(h0),
      z3.Implies(h0.has(Hr, key),
                 z3.And(h.len(H.hist_list(h0, Hr, key)) == h0.len(H.hist_list(h0, Hr, key)),
                        h.eltarr(H.hist_list(h0, Hr, key)) == h0.eltarr(H.hist_list(h0, Hr, key)))))
  c2 = type(c)(c.args, h0, h, result=c.result, env=c.env)
  return z3.If(H.tracking_on(h0), H.HistAppended(c2, Hh, key, kind, value), unchanged)


def key_ok(k):
  return z3.Or(is_VInt(k), is_VStr(k))


def _b_mod(c, key=None, tags=False):
  """Objects a store edit of `self` may modify."""
  h0 = c.old
  si, A, Hh, Tg = bfields(h0, c['self'])
  out = [ref(A), ref(Hh), ref(SET_COUNTER)]
  if key is not None:
    out.append(z3.If(h0.has(ref(Hh), key), H.hist_list(h0, ref(Hh), key), ref(H.NOTHING)))
    if tags:
      out += [ref(Tg), z3.If(h0.has(ref(Tg), key), ref(h0.dget(ref(Tg), key)), ref(H.NOTHING))]
  return out


WRITES = ('count',) + H.ENTRY_FIELDS

# --- trivial accessors ------------------------------------------------------------------
contract('config.get_callable', F, 'get_callable', kind='inline')


# --- Buildable._arguments_set_value -------------------------------------------------------
def _asv_req(c):
  h = c.old
  v = c['value']
  tv = z3.And(isref(h, v, 'TaggedValueCls'))
  return z3.And(BFields(h, c['self']), key_ok(c['key']),
                z3.Implies(tv, z3.And(BFields(h, v), ref(v) != ref(c['self']))))


def _asv_post(c):
  h0, h = c.old, c.heap
  sv, key, v = c['self'], c['key'], c['value']
  si, A, Hh, Tg = bfields(h0, sv)
  is_tv = isref(h0, v, 'TaggedValueCls')
  plain = z3.And(
      store_eq(h, h0, sv, lambda has: z3.Store(has, key, True), lambda val: z3.Store(val, key, v)),
      tags_same(h, h0, sv),
      hist_effect(c, sv, key, CK_NEW_VALUE, v))
  # TaggedValue: tags merged into the argument's set, inner value stored iff present
  vsi, vA, vH, vT = bfields(h0, v)
  vkey = strlit('value')
  vtags_has = h0.has(ref(vT), vkey)
  vtags = ref(h0.dget(ref(vT), vkey))
  t = z3.Const('asv_t', Val)
  some_tag = z3.And(vtags_has, z3.Exists([t], h0.has(vtags, t)))
  tagset = ref(h.dget(ref(Tg), key))
  old_tagset_has = lambda x: z3.And(h0.has(ref(Tg), key), h0.has(ref(h0.dget(ref(Tg), key)), x))
  merged = z3.And(
      h.has(ref(Tg), key),
      FA([t], h.has(tagset, t) == z3.Or(old_tagset_has(t), h0.has(vtags, t)),
         patterns=[h.has(tagset, t)]))
  inner_present = h0.has(ref(vA), vkey)
  inner = h0.dget(ref(vA), vkey)
  # history in the TaggedValue case: first the merged tag set, then the inner value
  Hh_r = ref(Hh)
  def snapshot_is_merged(er):
    fs = ref(h.fld(er, 'new_value'))
    return FA([t], h.has(fs, t) == z3.Or(old_tagset_has(t), h0.has(vtags, t)),
              patterns=[h.has(fs, t)])
  c2 = type(c)(c.args, h0, h, result=c.result, env=c.env)
  def hist_is(specs):
    if not specs:
      return z3.And(h.hasarr(Hh_r) == h0.hasarr(Hh_r), h.valarr(Hh_r) == h0.valarr(Hh_r),
                    H.counter(h) == H.counter(h0))
    return H.HistAppendedN(c2, Hh, key, specs)
  ut = (CK_UPDATE_TAGS, None, snapshot_is_merged)
  nv = (CK_NEW_VALUE, inner, None)
  tagged_hist = z3.If(
      H.tracking_on(h0),
      z3.If(some_tag, z3.If(inner_present, hist_is([ut, nv]), hist_is([ut])),
            z3.If(inner_present, hist_is([nv]), hist_is([]))),
      hist_is([]))
  tagged = z3.And(
      z3.Implies(some_tag, merged),
      z3.Implies(z3.Not(some_tag), tags_same(h, h0, sv)),
      # the exact history of the TaggedValue path: an UPDATE_TAGS snapshot of the merged set (if
      # the TaggedValue carries a tag), then the inner value (if it has one)
      tagged_hist,
      z3.If(inner_present,
            store_eq(h, h0, sv, lambda has: z3.Store(has, key, True),
                     lambda val: z3.Store(val, key, inner)),
            store_eq(h, h0, sv)))
  return z3.And(BFields(h, sv), internals_same(h, h0, sv), z3.If(is_tv, tagged, plain))


def _asv_cases(c):
  h0 = c.old
  sv, key, v = c['self'], c['key'], c['value']
  si, A, Hh, Tg = bfields(h0, sv)
  vsi, vA, vH, vT = bfields(h0, v)
  vkey = strlit('value')
  t = z3.Const('asv_t', Val)
  vtags = ref(h0.dget(ref(vT), vkey))
  return [isref(h0, v, 'TaggedValueCls'), H.tracking_on(h0),
          z3.And(h0.has(ref(vT), vkey), z3.Exists([t], h0.has(vtags, t))),
          h0.has(ref(vA), vkey), h0.has(ref(Hh), key), h0.has(ref(Tg), key)]


contract(
    'config.Buildable._arguments_set_value', F, 'Buildable._arguments_set_value',
    requires=_asv_req, ensures=_asv_post, result='none',
    mod=lambda c: _b_mod(c, c['key'], tags=True), writes=WRITES,
    cases=_asv_cases,
    props=('C03', 'C14', 'C16'),
    note='plain value: A[key] := value and exactly one NEW_VALUE entry (if tracking); '
         'TaggedValue: its tags are merged into the argument tag set, inner value stored iff present',
)


# --- Buildable._arguments_del_value -------------------------------------------------------
def _adv_req(c):
  return z3.And(BFields(c.old, c['self']), key_ok(c['key']))


def _adv_missing(c):
  A = ref(bfields(c.old, c['self'])[1])
  return z3.Not(c.old.has(A, c['key']))


def _adv_post(c):
  h0, h = c.old, c.heap
  sv, key = c['self'], c['key']
  return z3.And(BFields(h, sv), internals_same(h, h0, sv),
                store_eq(h, h0, sv, lambda has: z3.Store(has, key, False)),
                tags_same(h, h0, sv),
                hist_effect(c, sv, key, CK_NEW_VALUE, DELETED))


def _unchanged(c):
  """Arguments, tags and history of self are what they were (used on exceptional exits)."""
  h0, h = c.old, c.heap
  sv = c['self']
  si, A, Hh, Tg = bfields(h0, sv)
  return z3.And(internals_same(h, h0, sv), store_eq(h, h0, sv), tags_same(h, h0, sv),
                h.hasarr(ref(Hh)) == h0.hasarr(ref(Hh)), h.valarr(ref(Hh)) == h0.valarr(ref(Hh)),
                H.counter(h) == H.counter(h0))


contract(
    'config.Buildable._arguments_del_value', F, 'Buildable._arguments_del_value',
    requires=_adv_req, ensures=_adv_post, raises={'KeyError': _adv_missing},
    raises_post={'KeyError': _unchanged}, result='none',
    mod=lambda c: _b_mod(c, c['key']), writes=WRITES,
    cases=lambda c: [H.tracking_on(c.old)],
    props=('C03', 'C16'),
    note='key set: removed + one DELETED entry (if tracking); otherwise KeyError, nothing changes',
)


# --- Buildable.__setattr__ / __delattr__ --------------------------------------------------
def _sa_req(c):
  h = c.old
  v = c['value']
  return z3.And(BInv(h, c['self']), is_VStr(c['name']),
                z3.Implies(isref(h, v, 'TaggedValueCls'),
                           z3.And(BFields(h, v), ref(v) != ref(c['self']))))


def _name_bad(c):
  h = c.old
  g = bsig(h, c['self'])
  i = sig_idx(g, sval(c['name']))
  k = sig_kind(g, i)
  ok = z3.Or(z3.And(i >= 0, z3.Or(k == PK, k == KO)),
             z3.And(sig_vk(g) >= 0, z3.Or(i < 0, k == VK)))
  return z3.Not(ok)


def _sa_post(c):
  h0, h = c.old, c.heap
  # same effect as _arguments_set_value(name, value), and the store stays canonical
  c2 = type(c)({'self': c['self'], 'key': c['name'], 'value': c['value']}, h0, h,
               result=c.result)
  return z3.And(_asv_post(c2), BInv(h, c['self']))


def _nvar_same(c):
  """Definite-description instance: a named key does not change the number of variadic values."""
  h0, h = c.old, c.heap
  g = bsig(h0, c['self'])
  A = ref(bfields(h0, c['self'])[1])
  return [('nvar', (g, h.hasarr(A)), store_nvar(g, h0.hasarr(A)))]


contract(
    'config.Buildable.__setattr__', F, 'Buildable.__setattr__',
    requires=_sa_req, ensures=_sa_post, raises={'AttributeError': _name_bad},
    raises_post={'AttributeError': _unchanged}, result='none',
    mod=lambda c: _b_mod(type(c)({'self': c['self'], 'key': c['name']}, c.old, c.old), c['name'],
                         tags=True),
    writes=WRITES, facts=_nvar_same,
    cases=lambda c: [isref(c.old, c['value'], 'TaggedValueCls'), H.tracking_on(c.old)],
    props=('C03', 'C16'),
    note='valid name: _arguments_set_value(name, value), Canon kept; otherwise AttributeError, '
         'nothing changes',
)


def _da_req(c):
  return z3.And(BInv(c.old, c['self']), is_VStr(c['name']))


def _da_missing(c):
  A = ref(bfields(c.old, c['self'])[1])
  return z3.Not(c.old.has(A, c['name']))


def _da_post(c):
  h0, h = c.old, c.heap
  c2 = type(c)({'self': c['self'], 'key': c['name']}, h0, h, result=c.result)
  return z3.And(_adv_post(c2), BInv(h, c['self']))


contract(
    'config.Buildable.__delattr__', F, 'Buildable.__delattr__',
    requires=_da_req, ensures=_da_post, raises={'AttributeError': _da_missing},
    raises_post={'AttributeError': _unchanged}, result='none',
    mod=lambda c: _b_mod(type(c)({'self': c['self'], 'key': c['name']}, c.old, c.old), c['name']),
    writes=WRITES, cases=lambda c: [H.tracking_on(c.old)], facts=_nvar_same,
    props=('C03', 'C16'),
    note='name set: removed (+ one DELETED entry), Canon kept; otherwise AttributeError, unchanged',
)


# --- Buildable.__getitem__ ----------------------------------------------------------------
def NoSentinel(h, Av):
  """No stored argument value is the NO_VALUE sentinel itself."""
  k = z3.Const('ns_k', Val)
  A = ref(Av)
  return FA([k], z3.Implies(h.has(A, k), h.dget(A, k) != NO_VALUE), patterns=[h.has(A, k)])


def key_shape(h, g, k):
  """int, VARARGS (only with *args), or a slice of such components."""
  comp_ok = lambda x: z3.Or(is_VNone(x), is_VInt(x), z3.And(x == VARARGS, sig_vps(g) >= 0))
  return z3.Or(is_VInt(k), z3.And(k == VARARGS, sig_vps(g) >= 0),
               z3.And(isref(h, k, 'slice'), comp_ok(h.fld(ref(k), 'start')),
                      comp_ok(h.fld(ref(k), 'stop')),
                      z3.Or(is_VNone(h.fld(ref(k), 'step')), is_VInt(h.fld(ref(k), 'step')))))


def _gi_terms(c):
  h = c.old
  sv = c['self']
  g = bsig(h, sv)
  A = ref(bfields(h, sv)[1])
  has0, val0 = h.hasarr(A), h.valarr(A)
  L = Lfull(g, has0)
  k = c['key']
  k1 = z3.If(k == VARARGS, vps_val(g), k)
  j = z3.If(ival(k1) < 0, ival(k1) + L, ival(k1))
  return h, g, A, has0, val0, L, k, j


def _gi_req(c):
  h, g, A, has0, val0, L, k, j = _gi_terms(c)
  return z3.And(BInv(h, c['self']), NoSentinel(h, bfields(h, c['self'])[1]), key_shape(h, g, k))


def _gi_post(c):
  h0, g, A, has0, val0, L, k, j = _gi_terms(c)
  h = c.heap
  rep = lambda x: z3.If(x == VARARGS, vps_val(g), x)
  from pyvc.calls import slice_indices, range_len
  lo, hi, st = rep(h0.fld(ref(k), 'start')), rep(h0.fld(ref(k), 'stop')), h0.fld(ref(k), 'step')
  a, b, cc = slice_indices(lo, hi, st, L)
  r = ref(c.result)
  t = z3.Int('gi_t')
  n = z3.If(cc == 1, z3.If(b > a, b - a, 0), range_len(a, b, cc))
  by_slice = z3.And(is_VRef(c.result), r >= h0.alloc, cls_is(h.cls(r), 'list'), h.len(r) == n,
                    FA([t], z3.Implies(z3.And(0 <= t, t < n),
                                       h.elt(r, t) == Lf(g, has0, val0, a + t * cc)),
                       patterns=[h.elt(r, t)]))
  return z3.If(isref(h0, k, 'slice'), by_slice, c.result == Lf(g, has0, val0, j))


def _gi_oob(c):
  h, g, A, has0, val0, L, k, j = _gi_terms(c)
  return z3.And(z3.Not(isref(h, k, 'slice')), z3.Not(z3.And(0 <= j, j < L)))


def _gi_slice0(c):
  h, g, A, has0, val0, L, k, j = _gi_terms(c)
  st = h.fld(ref(k), 'step')
  return z3.And(isref(h, k, 'slice'), is_VInt(st), ival(st) == 0)


def _gi_inv(c):
  h0, g, A, has0, val0, L, k, j = _gi_terms(c)
  h = c.heap
  l, pl = ref(c.v('all_positional_args')), ref(c.v('params'))
  i = z3.Int('gi_i')
  return z3.And(
      0 <= c.k, c.k <= L,
      is_VRef(c.v('all_positional_args')), l >= h0.alloc, l < h.alloc, cls_is(h.cls(l), 'list'),
      is_VRef(c.v('params')), pl >= h0.alloc, pl < h.alloc, pl != l, cls_is(h.cls(pl), 'list'),
      h.len(pl) == sig_n(g),
      FA([i], z3.Implies(z3.And(0 <= i, i < sig_n(g)), h.elt(pl, i) == VParam(g, i)),
         patterns=[h.elt(pl, i)]),
      h.len(l) == L,
      FA([i], z3.Implies(z3.And(0 <= i, i < L), h.elt(l, i) == Lf(g, has0, val0, i)),
         patterns=[h.elt(l, i)]),
      c.v('key') == z3.If(isref(h0, k, 'slice'), c.v('key'), z3.If(k == VARARGS, vps_val(g), k)),
      z3.Implies(isref(h0, k, 'slice'), z3.And(
          isref(h, c.v('key'), 'slice'),
          h.fld(ref(c.v('key')), 'start') == z3.If(h0.fld(ref(k), 'start') == VARARGS, vps_val(g),
                                                   h0.fld(ref(k), 'start')),
          h.fld(ref(c.v('key')), 'stop') == z3.If(h0.fld(ref(k), 'stop') == VARARGS, vps_val(g),
                                                  h0.fld(ref(k), 'stop')),
          h.fld(ref(c.v('key')), 'step') == h0.fld(ref(k), 'step'))))


contract(
    'config.Buildable.__getitem__', F, 'Buildable.__getitem__',
    requires=_gi_req, ensures=_gi_post,
    raises={'IndexError': _gi_oob, 'ValueError': _gi_slice0},
    loops={0: Loop(_gi_inv, mod=lambda c: [ref(c.v('all_positional_args'))], fields=[])},
    props=('C01', 'C03', 'C17'),
    note='cfg[key] is Lf[key] with python list semantics (IndexError included); self unchanged',
)


# --- Buildable._set_item_by_index -----------------------------------------------------------
def _sii_terms(c):
  h = c.old
  sv = c['self']
  g = bsig(h, sv)
  A = ref(bfields(h, sv)[1])
  has0 = h.hasarr(A)
  L = Lfull(g, has0)
  idx = ival(c['key'])
  j = z3.If(idx < 0, idx + L, idx)
  skey = z3.If(j < sig_npos(g), poskey(g, j), IK(j))
  return h, g, A, has0, L, j, skey


def _sii_req(c):
  h = c.old
  v = c['value']
  return z3.And(BInv(h, c['self']), is_VInt(c['key']),
                z3.Implies(isref(h, v, 'TaggedValueCls'),
                           z3.And(BFields(h, v), ref(v) != ref(c['self']))))


def _sii_oob(c):
  h, g, A, has0, L, j, skey = _sii_terms(c)
  return z3.Not(z3.And(0 <= j, j < L))


def _sii_post(c):
  h0, g, A, has0, L, j, skey = _sii_terms(c)
  c2 = type(c)({'self': c['self'], 'key': skey, 'value': c['value']}, h0, c.heap, result=c.result)
  return z3.And(_asv_post(c2), BInv(c.heap, c['self']))


def _sii_mod(c):
  h0, g, A, has0, L, j, skey = _sii_terms(c)
  return _b_mod(type(c)({'self': c['self']}, c.old, c.old), skey, tags=True)


contract(
    'config.Buildable._set_item_by_index', F, 'Buildable._set_item_by_index',
    requires=_sii_req, ensures=_sii_post, raises={'IndexError': _sii_oob},
    raises_post={'IndexError': _unchanged}, result='none', mod=_sii_mod, writes=WRITES,
    facts=_nvar_same,
    loops={0: Loop(lambda c: z3.And(
        0 <= c.k, c.k <= sig_n(bsig(c.old, c['self'])),
        c.v('positional_num') == VInt(z3.If(c.k < sig_npos(bsig(c.old, c['self'])), c.k,
                                            sig_npos(bsig(c.old, c['self'])))),
        c.v('key') == _sii_terms(c)[6], c.v('value') == c['value'], c.v('self') == c['self']),
                   mod=lambda c: [], fields=[])},
    cases=lambda c: [isref(c.old, c['value'], 'TaggedValueCls'), H.tracking_on(c.old)],
    props=('C03', 'C16'),
    note='list position j (negative indices normalised): A[key(j)] := value for 0 <= j < len, '
         'IndexError and nothing changes otherwise; Canon kept',
)



# --- BuildableTraverserMetadata.tags / .history (C07: fresh containers, equal contents) ------------
def MetaObj(h, mv):
  m = ref(mv)
  k = z3.Const('mo_k', Val)
  at, ah = h.fld(m, 'argument_tags'), h.fld(m, 'argument_history')
  return z3.And(
      isref(h, mv, 'BuildableTraverserMetadata'),
      isref(h, at, 'dict'), ref(at) < h.alloc, isref(h, ah, 'dict'), ref(ah) < h.alloc,
      FA([k], z3.Implies(h.has(ref(at), k), z3.And(isref(h, h.dget(ref(at), k), 'set'),
                                                   ref(h.dget(ref(at), k)) < h.alloc)),
         patterns=[h.has(ref(at), k)]),
      FA([k], z3.Implies(h.has(ref(ah), k),
                         z3.And(z3.Or(isref(h, h.dget(ref(ah), k), 'tuple'),
                                      isref(h, h.dget(ref(ah), k), 'list')),
                                ref(h.dget(ref(ah), k)) < h.alloc)),
         patterns=[h.has(ref(ah), k)]))


def fresh_copies(c, res, src, clsname, setlike):
  """res is a fresh dict-like with the keys of src; every value is a fresh, distinct container
  with the members of the corresponding source container."""
  h0, h = c.old, c.heap
  r, s = ref(res), ref(src)
  k = z3.Const('fc_k', Val)
  k2 = z3.Const('fc_k2', Val)
  v = lambda x: ref(h.dget(r, x))
  same = (lambda x: h.hasarr(v(x)) == h0.hasarr(ref(h0.dget(s, x)))) if setlike else \
      (lambda x: z3.And(h.len(v(x)) == h0.len(ref(h0.dget(s, x))),
                        h.eltarr(v(x)) == h0.eltarr(ref(h0.dget(s, x)))))
  return z3.And(
      is_VRef(res), r >= h0.alloc, r < h.alloc, cls_is(h.cls(r), clsname),
      FA([k], h.has(r, k) == h0.has(s, k), patterns=[h.has(r, k)]),
      FA([k], z3.Implies(h.has(r, k), z3.And(is_VRef(h.dget(r, k)), v(k) >= h0.alloc, v(k) < h.alloc,
                                             v(k) != r, cls_is(h.cls(v(k)), 'set' if setlike else 'list'),
                                             same(k))),
         patterns=[h.dget(r, k)]),
      FA([k, k2], z3.Implies(z3.And(h.has(r, k), h.has(r, k2), k != k2), v(k) != v(k2)),
         patterns=[z3.MultiPattern(h.dget(r, k), h.dget(r, k2))]))


contract(
    'config.BuildableTraverserMetadata.tags', F, 'BuildableTraverserMetadata.tags',
    requires=lambda c: MetaObj(c.old, c['self']),
    ensures=lambda c: fresh_copies(c, c.result, c.old.fld(ref(c['self']), 'argument_tags'),
                                   'defaultdict', True),
    props=('C07', 'C17'),
    note='a fresh defaultdict whose tag sets are fresh, pairwise distinct objects with the same '
         'members: nothing of the metadata is shared with the result',
)

contract(
    'config.BuildableTraverserMetadata.history', F, 'BuildableTraverserMetadata.history',
    requires=lambda c: MetaObj(c.old, c['self']),
    ensures=lambda c: fresh_copies(c, c.result, c.old.fld(ref(c['self']), 'argument_history'),
                                   'History', False),
    props=('C07', 'C17'),
    note='a fresh History whose entry lists are fresh, pairwise distinct lists with the same entries',
)


# --- Config.__build__ / tagged_value_fn (C01, C14) ---------------------------------------------------
G_UCALLS = 'g:user_calls'        # ghost: number of invocations of configured callables
G_ULAST = 'ga:user_last'         # ghost: [0] callable, [1] args list, [2] kwargs dict


def ucalls(h):
  return h.get(G_UCALLS)


def _user_call_post(c):
  h = c.heap
  return z3.And(ucalls(h) == ucalls(c.old) + 1, h.get(G_ULAST)[0] == c['fn'],
                h.get(G_ULAST)[1] == c['args'], h.get(G_ULAST)[2] == c['kwargs'])


contract('config.user_callable', F, 'user_callable', abstract=True, params=['fn', 'args', 'kwargs'],
         ensures=_user_call_post, may_raise=('BaseException',),
         raises_post={'BaseException': _user_call_post}, havoc_all=True,
         ghost_writes=(G_UCALLS, G_ULAST),
         note='assumed: the configured callable is arbitrary user code; the ghost log records it')


def _cfg_build_post(c):
  h = c.heap
  return z3.And(ucalls(h) == ucalls(c.old) + 1,
                h.get(G_ULAST)[0] == c.old.fld(ref(c['self']), '__fn_or_cls__'),
                h.get(G_ULAST)[1] == c['args'], h.get(G_ULAST)[2] == c['kwargs'])


contract(
    'config.Config.__build__', F, 'Config.__build__',
    requires=lambda c: z3.And(isref(c.old, c['self'], 'Config'), isref(c.old, c['args'], 'tuple'),
                              isref(c.old, c['kwargs'], 'dict')),
    ensures=_cfg_build_post, may_raise=('BaseException',), raises_post={'BaseException': _cfg_build_post},
    calls={'self.__fn_or_cls__': 'config.user_callable'}, havoc_all=True,
    ghost_writes=(G_UCALLS, G_ULAST), props=('C01',),
    note='the configured callable is invoked exactly once with exactly the given *args / **kwargs '
         'and its result or exception is passed on',
)


def _tvf_notset(c):
  return c['value'] == NO_VALUE


contract(
    'config.tagged_value_fn', F, 'tagged_value_fn',
    requires=lambda c: z3.Or(is_VNone(c['tags']), isref(c.old, c['tags'], 'set')),
    ensures=lambda c: c.result == c['value'],
    raises={'TaggedValueNotFilledError': _tvf_notset}, allocates=False, props=('C14',),
    note='returns the value, or raises TaggedValueNotFilledError iff it is NO_VALUE',
)


# --- Buildable.__setitem__ (index keys; slice keys are decided by the bounded layer) ---------------
def _si_key(c):
  h = c.old
  g = bsig(h, c['self'])
  return z3.If(c['key'] == VARARGS, vps_val(g), c['key'])


def _si_ctx(c, heap=None):
  return type(c)({'self': c['self'], 'key': _si_key(c), 'value': c['value']}, c.old,
                 heap if heap is not None else c.heap, result=c.result)


def _si_req(c):
  h = c.old
  g = bsig(h, c['self'])
  v = c['value']
  return z3.And(BInv(h, c['self']),
                z3.Or(is_VInt(c['key']), z3.And(c['key'] == VARARGS, sig_vps(g) >= 0)),
                z3.Implies(isref(h, v, 'TaggedValueCls'),
                           z3.And(BFields(h, v), ref(v) != ref(c['self']))))


contract(
    'config.Buildable.__setitem__', F, 'Buildable.__setitem__',
    requires=_si_req, ensures=lambda c: _sii_post(_si_ctx(c)),
    raises={'IndexError': lambda c: _sii_oob(_si_ctx(c, c.old))},
    raises_post={'IndexError': _unchanged}, result='none',
    mod=lambda c: _sii_mod(_si_ctx(c, c.old)), writes=WRITES + ('start', 'stop', 'step'),
    cases=lambda c: [isref(c.old, c['value'], 'TaggedValueCls'), H.tracking_on(c.old),
                     c['key'] == VARARGS],
    props=('C03', 'C16'),
    note='cfg[i] = v / cfg[fdl.VARARGS] = v: exactly _set_item_by_index on the resolved position '
         '(slice keys: bounded layer)',
)


# --- ordered_arguments (C01, C03, C07, C08: the argument view every traversal is built on) -----------
def _oa_flags(c):
  return [bval(c[n]) for n in ('include_var_keyword', 'include_defaults', 'include_unset',
                               'include_positional', 'include_equal_to_default')]


def _oa_terms(c):
  h0 = c.old
  b = c['buildable']
  g = bsig(h0, b)
  A = ref(bfields(h0, b)[1])
  return h0, g, A, h0.hasarr(A), h0.valarr(A)


def _oa_req(c):
  h = c.old
  return z3.And(BInv(h, c['buildable']),
                *[is_VBool(c[n]) for n in ('include_var_keyword', 'include_defaults', 'include_unset',
                                           'include_positional', 'include_equal_to_default')],
                # the `value != param.default` filter is user-defined equality: the contract covers
                # the default include_equal_to_default=True (the other value is bounded)
                bval(c['include_equal_to_default']))


def oa_incl(g, has0, i, inc_def, inc_unset):
  """Named/positional-only parameter i contributes an entry."""
  return z3.Or(isset(g, has0, i), z3.And(sig_hasdef(g, i), inc_def),
               z3.And(z3.Not(sig_hasdef(g, i)), inc_unset))


def oa_val(g, has0, val0, i):
  return z3.If(isset(g, has0, i), val0[poskey(g, i)],
               z3.If(sig_hasdef(g, i), sig_dflt(g, i), NO_VALUE))


def oa_has(g, has0, key, upto, vdone, kw_done_fn, flags):
  """Membership of `key` in the result after parameters [0, upto) were processed, `vdone`
  variadic values were copied, and the var-keyword pass covered keys satisfying kw_done_fn."""
  inc_vk, inc_def, inc_unset, inc_pos, inc_eq = flags
  i = ival(key)
  s = sval(key)
  si = sig_idx(g, s)
  vps = sig_vps(g)
  named = lambda ix: z3.And(0 <= ix, ix < upto, sig_kind(g, ix) != VP, sig_kind(g, ix) != VK,
                            oa_incl(g, has0, ix, inc_def, inc_unset))
  extra_name = z3.And(has0[key], z3.Or(z3.Not(is_VStr(key)), si < 0, sig_kind(g, si) == VK))
  return z3.Or(
      z3.And(is_VInt(key), named(i), sig_kind(g, i) == PO),
      z3.And(is_VInt(key), vps >= 0, vps <= i, i < vps + vdone),
      z3.And(is_VStr(key), si >= 0, named(si), sig_kind(g, si) != PO),
      z3.And(inc_vk, extra_name, kw_done_fn(key)))


def oa_value(g, has0, val0, key):
  i = ival(key)
  si = sig_idx(g, sval(key))
  return z3.If(z3.And(is_VInt(key), i < sig_n(g), sig_kind(g, i) == PO), oa_val(g, has0, val0, i),
               z3.If(z3.And(is_VStr(key), si >= 0, sig_kind(g, si) != VK, sig_kind(g, si) != PO,
                            sig_kind(g, si) != VP),
                     oa_val(g, has0, val0, si), val0[key]))


def _oa_res_inv(c, res, upto, vdone, kw_done_fn):
  h0, g, A, has0, val0 = _oa_terms(c)
  h = c.heap
  r = ref(res)
  k = z3.Const('oa_k', Val)
  flags = _oa_flags(c)
  return z3.And(
      is_VRef(res), r >= h0.alloc, r < h.alloc, cls_is(h.cls(r), 'dict'),
      FA([k], h.has(r, k) == oa_has(g, has0, k, upto, vdone, kw_done_fn, flags), patterns=[h.has(r, k)]),
      FA([k], z3.Implies(h.has(r, k), h.dget(r, k) == oa_value(g, has0, val0, k)),
         patterns=[h.dget(r, k)]))


def _oa_inv0(c):
  h0, g, A, has0, val0 = _oa_terms(c)
  kk = c.k
  vps = sig_vps(g)
  vdone = z3.If(z3.And(vps >= 0, vps < kk), store_nvar(g, has0), z3.IntVal(0))
  return z3.And(0 <= kk, kk <= sig_n(g), c.v('buildable') == c['buildable'],
                *[c.v(n) == c[n] for n in ('include_var_keyword', 'include_defaults', 'include_unset',
                                           'include_positional', 'include_equal_to_default')],
                _oa_res_inv(c, c.v('result'), kk, vdone, lambda key: z3.BoolVal(False)))


def _oa_inv1(c):
  """inner `while index in arguments` of the *args parameter."""
  h0, g, A, has0, val0 = _oa_terms(c)
  m = c.k
  vps = sig_vps(g)
  return z3.And(m >= 0, vps >= 0, m <= store_nvar(g, has0), c.v('index') == VInt(vps + m),
                c.v('buildable') == c['buildable'],
                *[c.v(n) == c[n] for n in ('include_var_keyword', 'include_defaults', 'include_unset',
                                           'include_positional', 'include_equal_to_default')],
                _oa_res_inv(c, c.v('result'), vps, m, lambda key: z3.BoolVal(False)))


def _oa_inv2(c):
  """var-keyword pass over buildable.__arguments__.items() (ghost key enumeration)."""
  from pyvc.expr import dkeys_pos
  h0, g, A, has0, val0 = _oa_terms(c)
  kk = c.k
  return z3.And(0 <= kk, c.v('buildable') == c['buildable'],
                *[c.v(n) == c[n] for n in ('include_var_keyword', 'include_defaults', 'include_unset',
                                           'include_positional', 'include_equal_to_default')],
                _oa_res_inv(c, c.v('result'), sig_n(g), store_nvar(g, has0),
                            lambda key: dkeys_pos(has0, key) < kk))


# the key set of ordered_arguments(...) as an array-valued spec function of (signature, store,
# flags): two calls on the same state yield the *same* key set, hence (dict iteration order being
# modelled as a function of the key set) the same key order
oa_keys = z3.Function('oa_keys', I, HasArr, B, B, B, B, HasArr)


def oa_keys_def(g, has0, inc_vk, inc_def, inc_unset, inc_pos):
  """Definitional axiom of oa_keys for one (signature, store, flags)."""
  k = z3.Const('oak_k', Val)
  flags = [inc_vk, inc_def, inc_unset, inc_pos, z3.BoolVal(True)]
  arr = oa_keys(g, has0, inc_vk, inc_def, inc_unset, inc_pos)
  full = oa_has(g, has0, k, sig_n(g), store_nvar(g, has0), lambda x: z3.BoolVal(True), flags)
  return FA([k], arr[k] == z3.And(full, z3.Or(inc_pos, is_VStr(k))), patterns=[arr[k]])


def _oa_post(c):
  h0, g, A, has0, val0 = _oa_terms(c)
  h = c.heap
  inc_vk, inc_def, inc_unset, inc_pos, inc_eq = _oa_flags(c)
  r = ref(c.result)
  k = z3.Const('oa_k', Val)
  full = lambda key: oa_has(g, has0, key, sig_n(g), store_nvar(g, has0), lambda x: z3.BoolVal(True),
                            _oa_flags(c))
  return z3.And(
      is_VRef(c.result), r >= h0.alloc, cls_is(h.cls(r), 'dict'),
      h.hasarr(r) == oa_keys(g, has0, inc_vk, inc_def, inc_unset, inc_pos),
      FA([k], h.has(r, k) == z3.And(full(k), z3.Or(inc_pos, is_VStr(k))),
         patterns=[h.has(r, k), has0[k]]),
      FA([k], z3.Implies(h.has(r, k), h.dget(r, k) == oa_value(g, has0, val0, k)),
         patterns=[h.dget(r, k)]),
      # default flags: exactly the argument store
      z3.Implies(z3.And(inc_vk, z3.Not(inc_def), z3.Not(inc_unset), inc_pos),
                 z3.And(FA([k], h.has(r, k) == has0[k], patterns=[h.has(r, k), has0[k]]),
                        FA([k], z3.Implies(has0[k], h.dget(r, k) == val0[k]), patterns=[h.dget(r, k)]))))


contract(
    'config.ordered_arguments', F, 'ordered_arguments',
    requires=_oa_req, ensures=_oa_post,
    raises={'ValueError': lambda c: z3.And(z3.Not(bval(c['include_equal_to_default'])),
                                           bval(c['include_defaults']))},
    defaults={'include_var_keyword': VBool(z3.BoolVal(True)), 'include_defaults': VBool(z3.BoolVal(False)),
              'include_unset': VBool(z3.BoolVal(False)), 'include_positional': VBool(z3.BoolVal(True)),
              'include_equal_to_default': VBool(z3.BoolVal(True))},
    facts=lambda c: [('axiom', 'oa_keys', oa_keys_def(bsig(c.old, c['buildable']),
                                                    c.old.hasarr(ref(bfields(c.old, c['buildable'])[1])),
                                                    *_oa_flags(c)[:4]))],
    loops={0: Loop(_oa_inv0, mod=lambda c: [ref(c.v('result'))], fields=[]),
           1: Loop(_oa_inv1, mod=lambda c: [ref(c.v('result'))], fields=[]),
           2: Loop(_oa_inv2, mod=lambda c: [ref(c.v('result'))], fields=[])},
    cases=lambda c: _oa_flags(c)[:4],
    props=('C01', 'C03', 'C07', 'C08', 'C17'),
    note='a fresh dict: every set parameter under its canonical key with its value (defaults / '
         'NO_VALUE as the flags say), the *args values, the extra **kwargs names; with the default '
         'flags exactly the argument store; the Buildable is not modified (frame)',
)


# --- Buildable.__delitem__ (index keys; slice keys are decided by the bounded layer) ----------------
def NoTaggedStored(h, Av):
  k = z3.Const('nt_k', Val)
  A = ref(Av)
  return FA([k], z3.Implies(h.has(A, k), z3.Not(isref(h, h.dget(A, k), 'TaggedValueCls'))),
            patterns=[h.dget(A, k)])


def _di_terms(c):
  h0 = c.old
  sv = c['self']
  g = bsig(h0, sv)
  A = ref(bfields(h0, sv)[1])
  has0, val0 = h0.hasarr(A), h0.valarr(A)
  L = Lfull(g, has0)
  k1 = z3.If(c['key'] == VARARGS, vps_val(g), c['key'])
  d = z3.If(ival(k1) < 0, ival(k1) + L, ival(k1))
  vpe = z3.If(sig_vps(g) >= 0, sig_vps(g), L)        # start of the variadic part (= L if none)
  return h0, sv, g, A, has0, val0, L, d, vpe


def _di_req(c):
  h0, sv, g, A, has0, val0, L, d, vpe = _di_terms(c)
  return z3.And(BInv(h0, sv), NoTaggedStored(h0, bfields(h0, sv)[1]),
                z3.Or(is_VInt(c['key']), z3.And(c['key'] == VARARGS, sig_vps(g) >= 0)))


def _di_oob(c):
  h0, sv, g, A, has0, val0, L, d, vpe = _di_terms(c)
  return z3.Not(z3.And(0 <= d, d < L))


def di_final_has(g, has0, L, d, vpe, key):
  """Membership after `del cfg[d]` (0 <= d < L)."""
  p = ival(key)
  var_case = d >= vpe
  return z3.If(var_case,
               z3.If(z3.And(is_VInt(key), p >= vpe), p < L - 1, has0[key]),
               z3.And(has0[key], key != poskey(g, d)))


def di_final_val(g, val0, d, vpe, key):
  p = ival(key)
  return z3.If(z3.And(d >= vpe, is_VInt(key), p >= d), val0[IK(p + 1)], val0[key])


def _di_store(c, h, done_upto):
  """Store of self in heap h: variadic positions below done_upto are final, the rest is as after
  the first loop (prefix deletion applied, variadic part still original)."""
  h0, sv, g, A, has0, val0, L, d, vpe = _di_terms(c)
  k = z3.Const('di_k', Val)
  p = ival(k)
  done = z3.And(is_VInt(k), p >= vpe, p < done_upto)
  mid_has = z3.If(d >= vpe, has0[k], z3.And(has0[k], k != poskey(g, d)))
  return z3.And(
      FA([k], h.has(A, k) == z3.If(done, di_final_has(g, has0, L, d, vpe, k), mid_has),
         patterns=[h.has(A, k)]),
      FA([k], z3.Implies(h.has(A, k),
                         h.dget(A, k) == z3.If(done, di_final_val(g, val0, d, vpe, k), val0[k])),
         patterns=[h.dget(A, k)]))


def _di_inv(c):
  h0, sv, g, A, has0, val0, L, d, vpe = _di_terms(c)
  h = c.heap
  kk = c.k
  op, np_ = c.v('old_placeholders'), c.v('new_placeholders')
  i = z3.Int('di_i')
  nlen = z3.If(d >= vpe, L - 1, L)
  ph = lambda lst, x: ref(h.elt(ref(lst), x))
  return z3.And(
      0 <= kk, vpe + kk <= L, 0 <= d, d < L,
      c.v('self') == sv, c.v('var_positional_start') == VInt(vpe),
      BFields(h, sv), internals_same(h, h0, sv), NoTaggedStored(h, bfields(h0, sv)[1]),
      tags_same(h, h0, sv),
      # the history lists are not the local placeholder lists (no aliasing through the havoc)
      FA([z3.Const('di_hk', Val)], z3.Implies(
          h.has(ref(bfields(h0, sv)[2]), z3.Const('di_hk', Val)),
          z3.And(ref(h.dget(ref(bfields(h0, sv)[2]), z3.Const('di_hk', Val))) != ref(op),
                 ref(h.dget(ref(bfields(h0, sv)[2]), z3.Const('di_hk', Val))) != ref(np_))),
         patterns=[h.dget(ref(bfields(h0, sv)[2]), z3.Const('di_hk', Val))]),
      # the two placeholder lists (not modified by the loop)
      isref(h, op, 'list'), isref(h, np_, 'list'), ref(op) != ref(np_),
      ref(op) >= h0.alloc, ref(np_) >= h0.alloc,
      h.len(ref(op)) == L, h.len(ref(np_)) == nlen,
      FA([i], z3.Implies(z3.And(0 <= i, i < L), z3.And(
          is_VRef(h.elt(ref(op), i)), cls_is(h.cls(ph(op, i)), '_Placeholder'),
          h.fld(ph(op, i), 'index') == VInt(i))), patterns=[h.elt(ref(op), i)]),
      FA([i], z3.Implies(z3.And(0 <= i, i < nlen), z3.And(
          is_VRef(h.elt(ref(np_), i)), cls_is(h.cls(ph(np_, i)), '_Placeholder'),
          h.fld(ph(np_, i), 'index') == VInt(z3.If(z3.And(d >= vpe, i >= d), i + 1, i)))),
         patterns=[h.elt(ref(np_), i)]),
      _di_store(c, h, vpe + kk))


def _di_post(c):
  h0, sv, g, A, has0, val0, L, d, vpe = _di_terms(c)
  h = c.heap
  k = z3.Const('di_k', Val)
  return z3.And(
      BInv(h, sv), internals_same(h, h0, sv), tags_same(h, h0, sv),
      FA([k], h.has(A, k) == di_final_has(g, has0, L, d, vpe, k), patterns=[h.has(A, k)]),
      FA([k], z3.Implies(h.has(A, k), h.dget(A, k) == di_final_val(g, val0, d, vpe, k)),
         patterns=[h.dget(A, k)]))


def _di_facts(c):
  h0, sv, g, A, has0, val0, L, d, vpe = _di_terms(c)
  nv = store_nvar(g, has0)
  return [('nvar', (g, c.heap.hasarr(A)), z3.If(d >= vpe, nv - 1, nv))]


contract(
    'config.Buildable.__delitem__', F, 'Buildable.__delitem__',
    requires=_di_req, ensures=_di_post, raises={'IndexError': _di_oob},
    raises_post={'IndexError': _unchanged}, result='none', havoc_all=True, facts=_di_facts,
    cases=lambda c: [_di_terms(c)[7] >= _di_terms(c)[8], H.tracking_on(c.old)],
    pivots=lambda c: [IK(_di_terms(c)[7]), poskey(_di_terms(c)[2], _di_terms(c)[7]),
                      IK(_di_terms(c)[6] - 1)],
    loops={1: Loop(_di_inv, pivots=lambda c: [
        IK(_di_terms(c)[8] + c.k), IK(_di_terms(c)[7]), poskey(_di_terms(c)[2], _di_terms(c)[7]),
        IK(_di_terms(c)[8] + c.k + 1), _di_terms(c)[7], _di_terms(c)[8] + c.k])},
    props=('C03', 'C16'),
    note='del cfg[i] / del cfg[fdl.VARARGS]: a prefix position is unset (the positional view keeps '
         'its length); a variadic position is removed and the later ones move down by one, each '
         'keeping its value (compaction reads every value before it is overwritten); out of range '
         '-> IndexError and nothing changes; the store stays canonical (slice keys: bounded layer)',
)


# --- Buildable.__getattr__ ---------------------------------------------------------------------------
uses_default_factory = z3.Function('uses_default_factory', Val, I, B)
has_attribute = z3.Function('has_attribute', Val, I, B)
from pyvc.calls import is_dataclass_val     # noqa: E402

contract('config._field_uses_default_factory#getattr', F, '_field_uses_default_factory', abstract=True,
         params=['dataclass_type', 'field_name'],
         ensures=lambda c: c.result == VBool(uses_default_factory(c['dataclass_type'], sval(c['field_name']))),
         allocates=False, note='assumed: pure predicate over dataclasses.fields()')
contract('builtin.hasattr', F, 'hasattr', abstract=True, params=['obj', 'name'],
         ensures=lambda c: c.result == VBool(has_attribute(c['obj'], sval(c['name']))), allocates=False,
         note='assumed: hasattr is a pure predicate (the callable\'s attributes have no side effects)')


def _ga_terms(c):
  h = c.old
  sv = c['self']
  g = bsig(h, sv)
  A = ref(bfields(h, sv)[1])
  i = sig_idx(g, sval(c['name']))
  return h, sv, g, A, i


def _ga_positional(c):
  h, sv, g, A, i = _ga_terms(c)
  return z3.And(i >= 0, z3.Or(sig_kind(g, i) == PO, sig_kind(g, i) == VP))


def _ga_factory(c):
  h, sv, g, A, i = _ga_terms(c)
  fn = h.fld(ref(sv), '__fn_or_cls__')
  return z3.And(z3.Not(_ga_positional(c)), z3.Not(h.has(A, c['name'])),
                is_dataclass_val(fn), uses_default_factory(fn, sval(c['name'])))


def _ga_noattr(c):
  h, sv, g, A, i = _ga_terms(c)
  return z3.Or(_ga_positional(c),
               z3.And(z3.Not(h.has(A, c['name'])), z3.Not(_ga_factory(c)),
                      z3.Not(z3.And(i >= 0, sig_hasdef(g, i)))))


def _ga_post(c):
  h, sv, g, A, i = _ga_terms(c)
  return c.result == z3.If(h.has(A, c['name']), h.dget(A, c['name']), sig_dflt(g, i))


contract(
    'config.Buildable.__getattr__', F, 'Buildable.__getattr__',
    requires=lambda c: z3.And(BInv(c.old, c['self']), is_VStr(c['name']),
                              # stored values are not the private unset sentinel
                              FA([z3.Const('ga_k', Val)], z3.Implies(
                                  c.old.has(ref(bfields(c.old, c['self'])[1]), z3.Const('ga_k', Val)),
                                  c.old.dget(ref(bfields(c.old, c['self'])[1]), z3.Const('ga_k', Val)) != UNSET_SENTINEL))),
    ensures=_ga_post,
    raises={'AttributeError': _ga_noattr, 'ValueError': _ga_factory},
    calls={'_field_uses_default_factory': 'config._field_uses_default_factory#getattr',
           'hasattr': 'builtin.hasattr'},
    allocates=False, props=('C03', 'C17'),
    note='positional-only / variadic name -> AttributeError; else the stored value; else ValueError for a '
         'dataclass default_factory field; else the default; else AttributeError; nothing is modified',
)


# --- _compare_buildable, value level (check_dag=False) (C06, C17) -----------------------------------
from pyvc.expr import user_eq, dkeys_pos   # noqa: E402

cmp_rec = z3.Function('cmp_rec', I, I, B)    # result of the recursive comparison of two Buildables

contract('config._compare_buildable#rec', F, '_compare_buildable', abstract=True,
         params=['x', 'y', 'check_dag'],
         requires=lambda c: z3.And(isref(c.old, c['x'], 'Buildable'), isref(c.old, c['y'], 'Buildable')),
         ensures=lambda c: c.result == VBool(cmp_rec(ref(c['x']), ref(c['y']))),
         allocates=True,
         note='assumed at the recursive call site: the comparison of two nested Buildables is a '
              'boolean function of the two objects (its own contract is this one, one level down)')


def eqv(h, a, b):
  """`a == b` as the engine evaluates it (see ExprMixin.py_eq): numbers by value, _Placeholder by
  index, other objects by identity or the (assumed pure) user-defined __eq__."""
  ra, rb = ref(a), ref(b)
  both_ph = z3.And(cls_is(h.cls(ra), '_Placeholder'), cls_is(h.cls(rb), '_Placeholder'))
  ref_eq = z3.If(both_ph, h.fld(ra, 'index') == h.fld(rb, 'index'), z3.Or(ra == rb, user_eq(ra, rb)))
  intlike = lambda v: z3.Or(is_VInt(v), is_VBool(v))
  int_of = lambda v: z3.If(is_VBool(v), z3.If(bval(v), z3.IntVal(1), z3.IntVal(0)), ival(v))
  return z3.If(z3.And(intlike(a), intlike(b)), int_of(a) == int_of(b),
               z3.If(z3.And(is_VRef(a), is_VRef(b)), ref_eq, a == b))


def dflt_present(g, k):
  si, i = sig_idx(g, sval(k)), ival(k)
  return z3.If(is_VStr(k), z3.And(si >= 0, sig_hasdef(g, si)), z3.And(i < sig_npos(g), sig_hasdef(g, i)))


def dflt_value(g, k):
  return z3.If(is_VStr(k), sig_dflt(g, sig_idx(g, sval(k))), sig_dflt(g, ival(k)))


def _cmp_terms(c):
  h0 = c.old
  x, y = c['x'], c['y']
  gx, gy = bsig(h0, x), bsig(h0, y)
  Ax, Ay = ref(bfields(h0, x)[1]), ref(bfields(h0, y)[1])
  return h0, x, y, gx, gy, h0.hasarr(Ax), h0.valarr(Ax), h0.hasarr(Ay), h0.valarr(Ay)


def cmp_key_ok(c, k):
  """Key k compares equal: both sides have a value or a default, and the two are equal."""
  h0, x, y, gx, gy, hx, vx, hy, vy = _cmp_terms(c)
  v1 = z3.If(hx[k], vx[k], dflt_value(gx, k))
  v2 = z3.If(hy[k], vy[k], dflt_value(gy, k))
  bothb = z3.And(isref(h0, v1, 'Buildable'), isref(h0, v2, 'Buildable'))
  return z3.And(z3.Or(hx[k], dflt_present(gx, k)), z3.Or(hy[k], dflt_present(gy, k)),
                z3.Implies(bothb, cmp_rec(ref(v1), ref(v2))),
                eqv(h0, v1, v2))


def _cmp_req(c):
  h = c.old
  return z3.And(BInv(h, c['x']), isref(h, c['y'], 'Buildable'), BInv(h, c['y']),
                c['check_dag'] == VBool(z3.BoolVal(False)))


def _cmp_head(c):
  h0, x, y, gx, gy, hx, vx, hy, vy = _cmp_terms(c)
  return z3.And(h0.cls(ref(x)) == h0.cls(ref(y)),
                eqv(h0, h0.fld(ref(x), '__fn_or_cls__'), h0.fld(ref(y), '__fn_or_cls__')))


def _cmp_hvk_differs(c):
  h0, x, y, gx, gy, hx, vx, hy, vy = _cmp_terms(c)
  return z3.And(_cmp_head(c), z3.Not(eqv(h0, hvk_val(gx), hvk_val(gy))))


def _cmp_post(c):
  h0, x, y, gx, gy, hx, vx, hy, vy = _cmp_terms(c)
  k = z3.Const('cmp_k', Val)
  spec = z3.And(_cmp_head(c),
                FA([k], z3.Implies(z3.Or(hx[k], hy[k]), cmp_key_ok(c, k)), patterns=[hx[k], hy[k]]))
  return c.result == VBool(spec)


def _cmp_inv(c):
  h0, x, y, gx, gy, hx, vx, hy, vy = _cmp_terms(c)
  k = z3.Const('cmp_k', Val)
  U = c.view.has        # members of set(x.__arguments__) | set(y.__arguments__)
  return z3.And(
      0 <= c.k, c.v('x') == x, c.v('y') == y, c.v('check_dag') == c['check_dag'],
      _cmp_head(c),
      is_VRef(c.v('missing')), ref(c.v('missing')) >= h0.alloc,
      FA([k], U[k] == z3.Or(hx[k], hy[k]), patterns=[U[k]]),
      FA([k], z3.Implies(z3.And(U[k], dkeys_pos(U, k) < c.k), cmp_key_ok(c, k)),
         patterns=[dkeys_pos(U, k)]))


contract(
    'config._compare_buildable', F, '_compare_buildable',
    requires=_cmp_req, ensures=_cmp_post,
    raises={'AssertionError': _cmp_hvk_differs},
    calls={'_compare_buildable': 'config._compare_buildable#rec'},
    loops={0: Loop(_cmp_inv, mod=lambda c: [], fields=[],
                   facts=lambda c: [('dkeys', c.view.has, None)])},
    props=('C06', 'C17'),
    note='value-level comparison (check_dag=False: the recursive use, and the first phase of ==): '
         'True iff same Buildable class, equal callables, and for every key set on either side both '
         'sides have a value or a signature default and the two are equal (nested Buildables: the '
         'recursive comparison and ==); never raises except the internal has_var_keyword assertion; '
         'modifies nothing (frame).  The DAG phase (check_dag=True) is decided by the bounded layer',
)
