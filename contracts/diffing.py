"""Sidecar contracts for fiddle/_src/diffing.py: diff operations (DESIGN §5 C10)."""
import z3
from pyvc.sorts import *  # noqa
from pyvc.contract import contract, Loop
from contracts.common import *  # noqa
from contracts import config as CF
from contracts import history as H

F = 'fiddle/_src/diffing.py'


def plain_dict(h, v):
  return z3.And(isref(h, v, 'dict'), z3.Not(cls_in(h.cls(ref(v)), 'defaultdict')),
                z3.Not(cls_in(h.cls(ref(v)), 'History')))


def PathEl(h, ch):
  return z3.And(isref(h, ch, 'PathElement'),
                z3.Implies(cls_in(h.cls(ref(ch)), 'Attr'), is_VStr(h.fld(ref(ch), 'name'))),
                z3.Implies(cls_in(h.cls(ref(ch)), 'Index'), is_VInt(h.fld(ref(ch), 'index'))))


# --- _path_element_is_compatible / _child_has_value ----------------------------------------------
def _compat_post(c):
  h = c.old
  ch, par = c['child'], c['parent']
  cc = h.cls(ref(ch))
  want = z3.Or(
      z3.And(cls_in(cc, 'Index'), is_VRef(par), z3.Or(cls_in(h.cls(ref(par)), 'list'),
                                                      cls_in(h.cls(ref(par)), 'tuple'))),
      z3.And(cls_in(cc, 'Key'), is_VRef(par), cls_in(h.cls(ref(par)), 'dict')),
      z3.And(z3.Or(cls_in(cc, 'Attr'), cls_in(cc, 'BuildableFnOrCls')), is_VRef(par),
             cls_in(h.cls(ref(par)), 'Buildable')))
  return bval(c.result) == want


contract('diffing._path_element_is_compatible', F, '_path_element_is_compatible',
         requires=lambda c: PathEl(c.old, c['child']),
         ensures=lambda c: z3.And(is_VBool(c.result), _compat_post(c)), allocates=False,
         props=('C10',),
         note='Index<->sequence, Key<->dict, Attr/BuildableFnOrCls<->Buildable; pure')


def _chv_req(c):
  h = c.old
  ch, par = c['child'], c['parent']
  cc = h.cls(ref(ch))
  return z3.And(
      PathEl(h, ch), is_VRef(par),
      z3.Implies(cls_in(cc, 'Index'), z3.Or(cls_in(h.cls(ref(par)), 'list'), cls_in(h.cls(ref(par)), 'tuple'))),
      z3.Implies(cls_in(cc, 'Key'), plain_dict(h, par)),
      z3.Implies(z3.And(cls_in(cc, 'Attr'), z3.Not(cls_in(cc, 'BuildableFnOrCls'))),
                 CF.BFields(h, par)))


def _chv_post(c):
  h = c.old
  ch, par = c['child'], c['parent']
  cc = h.cls(ref(ch))
  A = ref(CF.bfields(h, par)[1])
  want = z3.If(cls_in(cc, 'Index'), ival(h.fld(ref(ch), 'index')) < h.len(ref(par)),
               z3.If(cls_in(cc, 'Key'), h.has(ref(par), h.fld(ref(ch), 'key')),
                     z3.If(cls_in(cc, 'BuildableFnOrCls'), z3.BoolVal(True),
                           h.has(A, h.fld(ref(ch), 'name')))))
  return z3.And(is_VBool(c.result), bval(c.result) == want)


contract('diffing._child_has_value', F, '_child_has_value', requires=_chv_req, ensures=_chv_post,
         raises={'ValueError': lambda c: z3.Not(z3.Or(*[cls_in(c.old.cls(ref(c['child'])), n)
                                                       for n in ('Index', 'Key', 'Attr')]))},
         allocates=False, props=('C10',),
         note='whether parent[child] currently has a value; pure')


# --- SetValue.apply / DeleteValue.apply ---------------------------------------------------------------
def _op_req(c, with_value=True):
  h = c.old
  ch, par = c['child'], c['parent']
  cc = h.cls(ref(ch))
  is_attr = cls_in(cc, 'Attr')
  req = [is_VRef(c['self']), z3.Not(cls_in(h.cls(ref(c['self'])), 'Buildable')), PathEl(h, ch),
         z3.Implies(is_attr, CF.BInv(h, par)),
         z3.Implies(cls_in(cc, 'Key'), plain_dict(h, par))]
  if with_value:
    v = h.fld(ref(c['self']), 'new_value')
    req.append(z3.Implies(isref(h, v, 'TaggedValueCls'),
                          z3.And(CF.BFields(h, v), ref(v) != ref(par))))
  return z3.And(req)


def _sv_post(c):
  h0, h = c.old, c.heap
  ch, par = c['child'], c['parent']
  cc = h0.cls(ref(ch))
  v = h0.fld(ref(c['self']), 'new_value')
  c2 = type(c)({'self': par, 'name': h0.fld(ref(ch), 'name'), 'value': v}, h0, h, result=c.result)
  key = h0.fld(ref(ch), 'key')
  dict_set = z3.And(h.hasarr(ref(par)) == z3.Store(h0.hasarr(ref(par)), key, True),
                    h.valarr(ref(par)) == z3.Store(h0.valarr(ref(par)), key, v))
  return z3.If(cls_in(cc, 'Attr'), CF._sa_post(c2), dict_set)


def _sv_mod(c):
  h = c.old
  ch, par = c['child'], c['parent']
  c2 = type(c)({'self': par, 'key': h.fld(ref(ch), 'name')}, h, h)
  return [ref(par)] + CF._b_mod(c2, h.fld(ref(ch), 'name'), tags=True)


def _attr_bad(c):
  h = c.old
  ch, par = c['child'], c['parent']
  c2 = type(c)({'self': par, 'name': h.fld(ref(ch), 'name')}, h, h)
  return z3.And(cls_in(h.cls(ref(ch)), 'Attr'), CF._name_bad(c2))


def _not_attr_or_key(c):
  cc = c.old.cls(ref(c['child']))
  return z3.Not(z3.Or(cls_in(cc, 'Attr'), cls_in(cc, 'Key')))


contract(
    'diffing.SetValue.apply', F, 'SetValue.apply', requires=_op_req, ensures=_sv_post,
    raises={'AttributeError': _attr_bad, 'ValueError': _not_attr_or_key},
    mod=_sv_mod, writes=CF.WRITES, result='none',
    cases=lambda c: [cls_in(c.old.cls(ref(c['child'])), 'Attr'), H.tracking_on(c.old),
                     isref(c.old, c.old.fld(ref(c['self']), 'new_value'), 'TaggedValueCls')],
    props=('C10',),
    note='Attr: exactly setattr(parent, name, new_value) (contract of Buildable.__setattr__); Key: '
         'parent[key] = new_value on a dict; anything else ValueError; nothing else changes',
)


def _dv_post(c):
  h0, h = c.old, c.heap
  ch, par = c['child'], c['parent']
  cc = h0.cls(ref(ch))
  c2 = type(c)({'self': par, 'name': h0.fld(ref(ch), 'name')}, h0, h, result=c.result)
  key = h0.fld(ref(ch), 'key')
  dict_del = z3.And(h.hasarr(ref(par)) == z3.Store(h0.hasarr(ref(par)), key, False))
  return z3.If(cls_in(cc, 'Attr'), CF._da_post(c2), dict_del)


def _dv_missing(c):
  h = c.old
  ch, par = c['child'], c['parent']
  A = ref(CF.bfields(h, par)[1])
  return z3.And(cls_in(h.cls(ref(ch)), 'Attr'), z3.Not(h.has(A, h.fld(ref(ch), 'name'))))


def _dv_keymissing(c):
  h = c.old
  ch, par = c['child'], c['parent']
  return z3.And(cls_in(h.cls(ref(ch)), 'Key'), z3.Not(cls_in(h.cls(ref(ch)), 'Attr')),
                z3.Not(h.has(ref(par), h.fld(ref(ch), 'key'))))


contract(
    'diffing.DeleteValue.apply', F, 'DeleteValue.apply',
    requires=lambda c: _op_req(c, with_value=False), ensures=_dv_post,
    raises={'AttributeError': _dv_missing, 'KeyError': _dv_keymissing, 'ValueError': _not_attr_or_key},
    mod=_sv_mod, writes=CF.WRITES, result='none',
    cases=lambda c: [cls_in(c.old.cls(ref(c['child'])), 'Attr'), H.tracking_on(c.old)],
    props=('C10',),
    note='Attr: exactly delattr(parent, name); Key: del parent[key]; anything else ValueError',
)


# --- AddTag.apply / RemoveTag.apply (C10, C14) --------------------------------------------------------
from contracts import tagging as TG   # noqa: E402


def _tagop_ctx(c, heap=None):
  h0 = c.old
  return type(c)({'buildable': c['parent'], 'argument': h0.fld(ref(c['child']), 'name'),
                  'tag': h0.fld(ref(c['self']), 'tag')}, h0, heap if heap is not None else c.heap,
                 result=c.result)


def _tagop_req(c):
  h = c.old
  ch, par = c['child'], c['parent']
  cc = h.cls(ref(ch))
  tag = h.fld(ref(c['self']), 'tag')
  return z3.And(is_VRef(c['self']), z3.Not(cls_in(h.cls(ref(c['self'])), 'Buildable')), PathEl(h, ch),
                z3.Implies(cls_in(cc, 'Attr'),
                           z3.And(CF.BInv(h, par), is_VStr(h.fld(ref(ch), 'name')),
                                  is_VRef(tag), ref(tag) < h.alloc)))


def _not_attr(c):
  return z3.Not(cls_in(c.old.cls(ref(c['child'])), 'Attr'))


contract(
    'diffing.AddTag.apply', F, 'AddTag.apply', requires=_tagop_req,
    ensures=lambda c: TG._tag_common_post(_tagop_ctx(c), lambda t, old: z3.Or(
        t == c.old.fld(ref(c['self']), 'tag'), old)),
    raises={'ValueError': _not_attr,
            'AttributeError': lambda c: z3.And(z3.Not(_not_attr(c)), TG._van_attr(_tagop_ctx(c, c.old)))},
    raises_post={'AttributeError': lambda c: TG._tag_unchanged(_tagop_ctx(c))},
    mod=lambda c: TG._tag_mod(_tagop_ctx(c, c.old)), writes=CF.WRITES, result='none',
    cases=lambda c: [cls_in(c.old.cls(ref(c['child'])), 'Attr')] + TG._tag_cases(_tagop_ctx(c, c.old))[1:],
    props=('C10', 'C14'),
    note='Attr child: exactly tagging.add_tag(parent, name, tag) (its contract); any other child: '
         'ValueError; nothing else changes',
)

contract(
    'diffing.RemoveTag.apply', F, 'RemoveTag.apply', requires=_tagop_req,
    ensures=lambda c: TG._tag_common_post(_tagop_ctx(c), lambda t, old: z3.And(
        old, t != c.old.fld(ref(c['self']), 'tag'))),
    raises={'ValueError': lambda c: z3.Or(_not_attr(c), TG._rt_notset(_tagop_ctx(c, c.old))),
            'AttributeError': lambda c: z3.And(z3.Not(_not_attr(c)), TG._van_attr(_tagop_ctx(c, c.old)))},
    raises_post={'AttributeError': lambda c: TG._tag_unchanged(_tagop_ctx(c))},
    mod=lambda c: TG._tag_mod(_tagop_ctx(c, c.old)), writes=CF.WRITES, result='none',
    cases=lambda c: [cls_in(c.old.cls(ref(c['child'])), 'Attr')] + TG._tag_cases(_tagop_ctx(c, c.old))[1:],
    props=('C10', 'C14'),
    note='Attr child: exactly tagging.remove_tag(parent, name, tag) (ValueError if the tag is not '
         'set); any other child: ValueError; nothing else changes',
)


# --- ModifyValue.apply (C10): Attr / Index / Key children (BuildableFnOrCls: bounded layer) -----------
def _mv_terms(c):
  h0 = c.old
  ch, par = c['child'], c['parent']
  cc = h0.cls(ref(ch))
  v = h0.fld(ref(c['self']), 'new_value')
  is_attr, is_idx, is_key = cls_in(cc, 'Attr'), cls_in(cc, 'Index'), cls_in(cc, 'Key')
  par_list = cls_in(h0.cls(ref(par)), 'list')
  par_b = cls_in(h0.cls(ref(par)), 'Buildable')
  idx = h0.fld(ref(ch), 'index')
  return h0, ch, par, v, is_attr, is_idx, is_key, par_list, par_b, idx


def _mv_req(c):
  h0, ch, par, v, is_attr, is_idx, is_key, par_list, par_b, idx = _mv_terms(c)
  return z3.And(
      is_VRef(c['self']), z3.Not(cls_in(h0.cls(ref(c['self'])), 'Buildable')), PathEl(h0, ch),
      z3.Not(cls_in(h0.cls(ref(ch)), 'BuildableFnOrCls')), is_VRef(par),
      z3.Implies(is_attr, CF.BInv(h0, par)),
      z3.Implies(is_key, plain_dict(h0, par)),
      z3.Implies(is_idx, z3.Or(z3.And(par_list, z3.Not(par_b)), z3.And(par_b, CF.BInv(h0, par)))),
      z3.Implies(isref(h0, v, 'TaggedValueCls'), z3.And(CF.BFields(h0, v), ref(v) != ref(par))))


def _mv_si(c, heap=None):
  """Context of the Buildable.__setitem__(parent, index, new_value) call."""
  h0, ch, par, v, is_attr, is_idx, is_key, par_list, par_b, idx = _mv_terms(c)
  return type(c)({'self': par, 'key': idx, 'value': v}, h0, heap if heap is not None else c.heap,
                 result=c.result)


def _mv_list_j(c):
  h0, ch, par, v, is_attr, is_idx, is_key, par_list, par_b, idx = _mv_terms(c)
  n = h0.len(ref(par))
  i = ival(idx)
  return z3.If(i < 0, i + n, i), n


def _mv_post(c):
  h0, ch, par, v, is_attr, is_idx, is_key, par_list, par_b, idx = _mv_terms(c)
  h = c.heap
  c_attr = type(c)({'self': par, 'name': h0.fld(ref(ch), 'name'), 'value': v}, h0, h, result=c.result)
  key = h0.fld(ref(ch), 'key')
  dict_set = z3.And(h.hasarr(ref(par)) == z3.Store(h0.hasarr(ref(par)), key, True),
                    h.valarr(ref(par)) == z3.Store(h0.valarr(ref(par)), key, v))
  j, n = _mv_list_j(c)
  list_set = z3.And(h.len(ref(par)) == n, h.eltarr(ref(par)) == z3.Store(h0.eltarr(ref(par)), j, v))
  return z3.If(is_attr, CF._sa_post(c_attr),
               z3.If(is_idx, z3.If(par_b, CF._sii_post(CF._si_ctx(_mv_si(c))), list_set), dict_set))


def _mv_index_error(c):
  h0, ch, par, v, is_attr, is_idx, is_key, par_list, par_b, idx = _mv_terms(c)
  j, n = _mv_list_j(c)
  return z3.And(z3.Not(is_attr), is_idx,
                z3.If(par_b, CF._sii_oob(CF._si_ctx(_mv_si(c, c.old), c.old)), z3.Not(z3.And(0 <= j, j < n))))


def _mv_mod(c):
  h0, ch, par, v, is_attr, is_idx, is_key, par_list, par_b, idx = _mv_terms(c)
  c_attr = type(c)({'self': par, 'key': h0.fld(ref(ch), 'name')}, h0, h0)
  from contracts.history import NOTHING
  pick = lambda cond, xs: [z3.If(cond, x, ref(NOTHING)) for x in xs]
  return ([ref(par)]
          + pick(is_attr, CF._b_mod(c_attr, h0.fld(ref(ch), 'name'), tags=True))
          + pick(z3.And(z3.Not(is_attr), is_idx, par_b), CF._sii_mod(CF._si_ctx(_mv_si(c, c.old), c.old))))


contract(
    'diffing.ModifyValue.apply', F, 'ModifyValue.apply', requires=_mv_req, ensures=_mv_post,
    raises={'AttributeError': _attr_bad, 'IndexError': _mv_index_error,
            'ValueError': lambda c: z3.Not(z3.Or(*[cls_in(c.old.cls(ref(c['child'])), n_)
                                                   for n_ in ('Attr', 'Index', 'Key')]))},
    mod=_mv_mod, writes=CF.WRITES + ('start', 'stop', 'step'), result='none',
    cases=lambda c: [cls_in(c.old.cls(ref(c['child'])), 'Attr'), cls_in(c.old.cls(ref(c['child'])), 'Index'),
                     cls_in(c.old.cls(ref(c['parent'])), 'Buildable'), H.tracking_on(c.old),
                     isref(c.old, c.old.fld(ref(c['self']), 'new_value'), 'TaggedValueCls')],
    props=('C10',),
    note='Attr: exactly setattr(parent, name, new_value); Index: parent[index] = new_value on a list '
         '(python semantics, IndexError out of range) or on a Buildable (contract of __setitem__); '
         'Key: parent[key] = new_value on a dict; any other child ValueError; nothing else changes '
         '(the BuildableFnOrCls child, update_callable, is left to the bounded layer)',
)
