"""Sidecar contracts for fiddle/_src/diffing.py: diff operations (DESIGN §5 C10)."""
import z3
from pyvc.sorts import *  # noqa
from pyvc.contract import contract, Loop
from contracts.common import *  # noqa
from contracts import config as CF
from contracts import history as H

F = 'fiddle/_src/diffing.py'


def plain_dict(h, v):
  return z3.And(isref(h, v, 'dict'), z3.Not(cls_in(h.cls(ref(v)), 'defaultdict')),
                z3.Not(cls_in(h.cls(ref(v)), 'History')))


def PathEl(h, ch):
  return z3.And(isref(h, ch, 'PathElement'),
                z3.Implies(cls_in(h.cls(ref(ch)), 'Attr'), is_VStr(h.fld(ref(ch), 'name'))),
                z3.Implies(cls_in(h.cls(ref(ch)), 'Index'), is_VInt(h.fld(ref(ch), 'index'))))


# --- _path_element_is_compatible / _child_has_value ----------------------------------------------
def _compat_post(c):
  h = c.old
  ch, par = c['child'], c['parent']
  cc = h.cls(ref(ch))
  want = z3.Or(
      z3.And(cls_in(cc, 'Index'), is_VRef(par), z3.Or(cls_in(h.cls(ref(par)), 'list'),
                                                      cls_in(h.cls(ref(par)), 'tuple'))),
      z3.And(cls_in(cc, 'Key'), is_VRef(par), cls_in(h.cls(ref(par)), 'dict')),
      z3.And(z3.Or(cls_in(cc, 'Attr'), cls_in(cc, 'BuildableFnOrCls')), is_VRef(par),
             cls_in(h.cls(ref(par)), 'Buildable')))
  return bval(c.result) == want


contract('diffing._path_element_is_compatible', F, '_path_element_is_compatible',
         requires=lambda c: PathEl(c.old, c['child']),
         ensures=lambda c: z3.And(is_VBool(c.result), _compat_post(c)), allocates=False,
         props=('C10',),
         note='Index<->sequence, Key<->dict, Attr/BuildableFnOrCls<->Buildable; pure')


def _chv_req(c):
  h = c.old
  ch, par = c['child'], c['parent']
  cc = h.cls(ref(ch))
  return z3.And(
      PathEl(h, ch), is_VRef(par),
      z3.Implies(cls_in(cc, 'Index'), z3.Or(cls_in(h.cls(ref(par)), 'list'), cls_in(h.cls(ref(par)), 'tuple'))),
      z3.Implies(cls_in(cc, 'Key'), plain_dict(h, par)),
      z3.Implies(z3.And(cls_in(cc, 'Attr'), z3.Not(cls_in(cc, 'BuildableFnOrCls'))),
                 CF.BFields(h, par)))


def _chv_post(c):
  h = c.old
  ch, par = c['child'], c['parent']
  cc = h.cls(ref(ch))
  A = ref(CF.bfields(h, par)[1])
  want = z3.If(cls_in(cc, 'Index'), ival(h.fld(ref(ch), 'index')) < h.len(ref(par)),
               z3.If(cls_in(cc, 'Key'), h.has(ref(par), h.fld(ref(ch), 'key')),
                     z3.If(cls_in(cc, 'BuildableFnOrCls'), z3.BoolVal(True),
                           h.has(A, h.fld(ref(ch), 'name')))))
  return z3.And(is_VBool(c.result), bval(c.result) == want)


contract('diffing._child_has_value', F, '_child_has_value', requires=_chv_req, ensures=_chv_post,
         raises={'ValueError': lambda c: z3.Not(z3.Or(*[cls_in(c.old.cls(ref(c['child'])), n)
                                                       for n in ('Index', 'Key', 'Attr')]))},
         allocates=False, props=('C10',),
         note='whether parent[child] currently has a value; pure')


# --- SetValue.apply / DeleteValue.apply ---------------------------------------------------------------
def _op_req(c, with_value=True):
  h = c.old
  ch, par = c['child'], c['parent']
  cc = h.cls(ref(ch))
  is_attr = cls_in(cc, 'Attr')
  req = [is_VRef(c['self']), z3.Not(cls_in(h.cls(ref(c['self'])), 'Buildable')), PathEl(h, ch),
         z3.Implies(is_attr, CF.BInv(h, par)),
         z3.Implies(cls_in(cc, 'Key'), plain_dict(h, par))]
  if with_value:
    v = h.fld(ref(c['self']), 'new_value')
    req.append(z3.Implies(isref(h, v, 'TaggedValueCls'),
                          z3.And(CF.BFields(h, v), ref(v) != ref(par))))
  return z3.And(req)


def _sv_post(c):
  h0, h = c.old, c.heap
  ch, par = c['child'], c['parent']
  cc = h0.cls(ref(ch))
  v = h0.fld(ref(c['self']), 'new_value')
  c2 = type(c)({'self': par, 'name': h0.fld(ref(ch), 'name'), 'value': v}, h0, h, result=c.result)
  key = h0.fld(ref(ch), 'key')
  dict_set = z3.And(h.hasarr(ref(par)) == z3.Store(h0.hasarr(ref(par)), key, True),
                    h.valarr(ref(par)) == z3.Store(h0.valarr(ref(par)), key, v))
  return z3.If(cls_in(cc, 'Attr'), CF._sa_post(c2), dict_set)


def _sv_mod(c):
  h = c.old
  ch, par = c['child'], c['parent']
  c2 = type(c)({'self': par, 'key': h.fld(ref(ch), 'name')}, h, h)
  return [ref(par)] + CF._b_mod(c2, h.fld(ref(ch), 'name'), tags=True)


def _attr_bad(c):
  h = c.old
  ch, par = c['child'], c['parent']
  c2 = type(c)({'self': par, 'name': h.fld(ref(ch), 'name')}, h, h)
  return z3.And(cls_in(h.cls(ref(ch)), 'Attr'), CF._name_bad(c2))


def _not_attr_or_key(c):
  cc = c.old.cls(ref(c['child']))
  return z3.Not(z3.Or(cls_in(cc, 'Attr'), cls_in(cc, 'Key')))


contract(
    'diffing.SetValue.apply', F, 'SetValue.apply', requires=_op_req, ensures=_sv_post,
    raises={'AttributeError': _attr_bad, 'ValueError': _not_attr_or_key},
    mod=_sv_mod, writes=CF.WRITES, result='none',
    cases=lambda c: [cls_in(c.old.cls(ref(c['child'])), 'Attr'), H.tracking_on(c.old),
                     isref(c.old, c.old.fld(ref(c['self']), 'new_value'), 'TaggedValueCls')],
    props=('C10',),
    note='Attr: exactly setattr(parent, name, new_value) (contract of Buildable.__setattr__); Key: '
         'parent[key] = new_value on a dict; anything else ValueError; nothing else changes',
)


def _dv_post(c):
  h0, h = c.old, c.heap
  ch, par = c['child'], c['parent']
  cc = h0.cls(ref(ch))
  c2 = type(c)({'self': par, 'name': h0.fld(ref(ch), 'name')}, h0, h, result=c.result)
  key = h0.fld(ref(ch), 'key')
  dict_del = z3.And(h.hasarr(ref(par)) == z3.Store(h0.hasarr(ref(par)), key, False))
  return z3.If(cls_in(cc, 'Attr'), CF._da_post(c2), dict_del)


def _dv_missing(c):
  h = c.old
  ch, par = c['child'], c['parent']
  A = ref(CF.bfields(h, par)[1])
  return z3.And(cls_in(h.cls(ref(ch)), 'Attr'), z3.Not(h.has(A, h.fld(ref(ch), 'name'))))


def _dv_keymissing(c):
  h = c.old
  ch, par = c['child'], c['parent']
  return z3.And(cls_in(h.cls(ref(ch)), 'Key'), z3.Not(cls_in(h.cls(ref(ch)), 'Attr')),
                z3.Not(h.has(ref(par), h.fld(ref(ch), 'key'))))


contract(
    'diffing.DeleteValue.apply', F, 'DeleteValue.apply',
    requires=lambda c: _op_req(c, with_value=False), ensures=_dv_post,
    raises={'AttributeError': _dv_missing, 'KeyError': _dv_keymissing, 'ValueError': _not_attr_or_key},
    mod=_sv_mod, writes=CF.WRITES, result='none',
    cases=lambda c: [cls_in(c.old.cls(ref(c['child'])), 'Attr'), H.tracking_on(c.old)],
    props=('C10',),
    note='Attr: exactly delattr(parent, name); Key: del parent[key]; anything else ValueError',
)
