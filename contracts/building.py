"""Sidecar contracts for fiddle/_src/building.py and reraised_exception.py (DESIGN §5 C05)."""
import z3
from pyvc.sorts import *  # noqa
from pyvc.contract import contract, Loop
from pyvc.state import SpecFn
from pyvc import contract as _C
from contracts.common import *  # noqa

FB = 'fiddle/_src/building.py'
FR = 'fiddle/_src/reraised_exception.py'
FALSEV = VBool(z3.BoolVal(False))
TRUEV = VBool(z3.BoolVal(True))

proxy_of = z3.Function('proxy_of', I, I, B)    # proxy_of(p, e): p is the ExceptionProxy of e


def in_build(h):
  return h.fld(ref(BUILD_STATE), 'in_build')


def flag_truthy(h):
  v = in_build(h)
  return z3.And(is_VBool(v), bval(v))


def same_exc(c, E, F):
  return z3.And(F.val == E.val, F.cls_term == E.cls_term)


# --- building._in_build ----------------------------------------------------------------------
contract(
    'building._in_build', FB, '_in_build', cm=True,
    requires=lambda c: is_VBool(in_build(c.old)),
    raises={'ValueError': lambda c: flag_truthy(c.old)},
    raises_post={'ValueError': lambda c: in_build(c.heap) == in_build(c.old)},
    enter_ensures=lambda c: in_build(c.heap) == TRUEV,
    exit_post=lambda c: in_build(c.heap) == FALSEV,
    exc_rel=same_exc,
    mod=lambda c: [ref(BUILD_STATE)], writes=('in_build',), allocates=True,
    props=('C05',),
    note='nested use -> ValueError and the flag is untouched; otherwise the flag is true during the '
         'body and false at every exit (normal or exceptional); the body\'s exception propagates '
         'unchanged and is never swallowed',
)

# --- reraised_exception ------------------------------------------------------------------------
G_LAZY_FAIL = 'g:lazy_failures'       # ghost: failures of the message thunk
G_LAZY_LAST = 'ga:lazy_last'          # ghost: [0] = what the message thunk returned last


def lazy_fail(h):
  return h.get(G_LAZY_FAIL)


def lazy_last(h):
  return h.get(G_LAZY_LAST)[0]


contract('reraised.lazy_message', FR, 'lazy_message', abstract=True, params=['fn'],
         ensures=lambda c: z3.And(lazy_fail(c.heap) == lazy_fail(c.old), lazy_last(c.heap) == c.result),
         may_raise=('BaseException',),
         raises_post={'BaseException': lambda c: lazy_fail(c.heap) == lazy_fail(c.old) + 1},
         allocates=True, ghost_writes=(G_LAZY_FAIL, G_LAZY_LAST),
         note='assumed: the message thunk returns a str or raises anything; modifies nothing; the '
              'ghost state records its last result and counts its failures')

G_DEC_FAIL = 'g:decorate_failures'     # ghost: failures while constructing an exception proxy


def dec_fail(h):
  return h.get(G_DEC_FAIL)


def _dec_failed(c):
  return dec_fail(c.heap) == dec_fail(c.old) + 1


def _dec_quiet(c):
  return dec_fail(c.heap) == dec_fail(c.old)


def _same_exc_kind(h, p, e):
  """The proxy class subclasses the class of the exception: same side of every `except` clause."""
  return z3.And(*[cls_in(h.cls(ref(p)), n) == cls_in(h.cls(ref(e)), n)
                  for n in ('BaseException', 'Exception')])


contract('reraised.make_exception_class', FR, 'make_exception_class', abstract=True,
         params=['exception_type'], ensures=_dec_quiet,
         may_raise=('Exception',), raises_post={'Exception': _dec_failed},
         allocates=True, ghost_writes=(G_DEC_FAIL,),
         note='assumed: creates (or fetches from its cache) the proxy subclass; class creation is '
              'outside the subset; a failure is recorded in ghost state')
contract('reraised.ExceptionProxy', FR, 'ExceptionProxy', abstract=True,
         params=['cls', 'proxy_base_exception', 'proxy_message'],
         ensures=lambda c: z3.And(is_VRef(c.result), ref(c.result) >= c.old.alloc,
                                  ref(c.result) < c.heap.alloc,
                                  is_VRef(c['proxy_base_exception']),
                                  proxy_of(ref(c.result), ref(c['proxy_base_exception'])),
                                  c.heap.fld(ref(c.result), 'proxy_message') == c['proxy_message'],
                                  c.heap.fld(ref(c.result), 'proxy_base_exception') == c['proxy_base_exception'],
                                  _same_exc_kind(c.heap, c.result, c['proxy_base_exception']),
                                  _dec_quiet(c)),
         may_raise=('Exception',), raises_post={'Exception': _dec_failed},
         allocates=True, ghost_writes=(G_DEC_FAIL,),
         note='assumed: ExceptionProxy.__init__ stores its two arguments (4 lines, outside the subset '
              'because the class is created dynamically)')
def _decorate_post(c):
  h, h0 = c.heap, c.old
  r = c.result
  return z3.Or(
      # the proxy could not be made: the exception itself, and a failure was recorded
      z3.And(r == c['exception'], dec_fail(h) > dec_fail(h0)),
      # otherwise a fresh proxy of the exception that carries exactly the given message
      z3.And(is_VRef(r), ref(r) >= h0.alloc, proxy_of(ref(r), ref(c['exception'])),
             h.fld(ref(r), 'proxy_message') == c['message'],
             h.fld(ref(r), 'proxy_base_exception') == c['exception'],
             _same_exc_kind(h, r, c['exception'])))


contract('reraised_exception.decorate_exception', FR, 'decorate_exception',
         requires=lambda c: z3.And(is_VRef(c['exception']), ref(c['exception']) < c.old.alloc,
                                   cls_in(c.old.cls(ref(c['exception'])), 'BaseException')),
         ensures=_decorate_post,
         calls={'proxy_cls': 'reraised.ExceptionProxy'},
         allocates=True, ghost_writes=(G_DEC_FAIL,),
         props=('C05',),
         note='returns a fresh ExceptionProxy of the exception carrying exactly the given message; '
              'the exception itself only when constructing the proxy failed; never raises')


def _twlm_exc_rel(c, E, F):
  is_exception = cls_in(E.cls_term, 'Exception')
  return z3.If(is_exception,
               z3.Or(F.val == E.val,
                     z3.And(is_VRef(F.val), proxy_of(ref(F.val), ref(E.val)))),
               z3.And(F.val == E.val, F.cls_term == E.cls_term))


def _is_exception(h, v):
  return z3.And(is_VRef(v), cls_in(h.cls(ref(v)), 'Exception'))


def _exit_req(c):
  h = c.old
  e = c['exc']
  return z3.And(is_VRef(c['self']), ref(c['self']) < h.alloc,
                z3.Or(e == VNone, z3.And(is_VRef(e), ref(e) < h.alloc,
                                         cls_in(h.cls(ref(e)), 'BaseException'))))


def _exit_post(c):
  """Returns normally only with False (the body's exception, if any, goes on unchanged), and for
  an Exception only when formatting the message failed."""
  h, h0 = c.heap, c.old
  return z3.And(c.result == VBool(z3.BoolVal(False)),
                z3.Implies(_is_exception(h0, c['exc']), lazy_fail(h) > lazy_fail(h0)))


def _exit_raises_post(c):
  """What __exit__ raises: the exception itself when no proxy could be made, else a fresh proxy
  of it whose message is exactly what the message thunk returned."""
  h, h0 = c.heap, c.old
  F = c.exc
  e = c['exc']
  return z3.And(
      _is_exception(h0, e),
      z3.Or(z3.And(F.val == e, dec_fail(h) > dec_fail(h0)),
            z3.And(is_VRef(F.val), ref(F.val) >= h0.alloc, proxy_of(ref(F.val), ref(e)),
                   h.fld(ref(F.val), 'proxy_message') == lazy_last(h),
                   h.fld(ref(F.val), 'proxy_base_exception') == e)))


contract(
    'reraised_exception.try_with_lazy_message.__exit__', FR, 'try_with_lazy_message.__exit__',
    requires=_exit_req, ensures=_exit_post,
    may_raise=('Exception',), raises_post={'Exception': _exit_raises_post},
    calls={'self._lazy_message': 'reraised.lazy_message'},
    allocates=True, ghost_writes=(G_LAZY_FAIL, G_LAZY_LAST, G_DEC_FAIL),
    props=('C05',),
    note='never swallows (returns False or raises); for a body exception e that is an Exception: '
         'raises the proxy of e carrying exactly the lazily computed message (or e itself when the '
         'proxy class cannot be made); returns False, so that e goes on unchanged, only when e is '
         'not an Exception or when formatting the message failed',
)

FL5 = '@verif/lemmas/c05_with.py'


def _wb_req(c):
  h = c.old
  e = c['body_exception']
  return z3.And(is_VRef(c['cm']), ref(c['cm']) < h.alloc,
                is_VRef(e), ref(e) < h.alloc, cls_in(h.cls(ref(e)), 'BaseException'))


def _wb_raises_post(c):
  """exc_rel of the context-manager contract, now derived: E the body's exception, F what escapes."""
  h, h0 = c.heap, c.old
  F = c.exc
  e = c['body_exception']
  return z3.If(_is_exception(h0, e),
               z3.Or(F.val == e,
                     z3.And(is_VRef(F.val), proxy_of(ref(F.val), ref(e)),
                            h.fld(ref(F.val), 'proxy_message') == lazy_last(h))),
               F.val == e)


contract(
    'lemma.c05.with_block_raising', FL5, 'with_block_raising',
    requires=_wb_req,
    ensures=lambda c: z3.BoolVal(False),        # never returns: nothing is swallowed
    may_raise=('BaseException',), raises_post={'BaseException': _wb_raises_post},
    calls={'cm.__exit__': 'reraised_exception.try_with_lazy_message.__exit__'},
    allocates=True, ghost_writes=(G_LAZY_FAIL, G_LAZY_LAST, G_DEC_FAIL),
    props=('C05',),
    note='lemma: a with-block over try_with_lazy_message whose body raises e never completes '
         'normally; what escapes is e itself or (only for an Exception) its proxy carrying the lazily '
         'computed message',
)
contract(
    'lemma.c05.with_block_returning', FL5, 'with_block_returning',
    requires=lambda c: z3.And(is_VRef(c['cm']), ref(c['cm']) < c.old.alloc),
    ensures=lambda c: c.result == VNone,
    calls={'cm.__exit__': 'reraised_exception.try_with_lazy_message.__exit__'},
    allocates=True, ghost_writes=(G_LAZY_FAIL, G_LAZY_LAST, G_DEC_FAIL),
    props=('C05',),
    note='lemma: a with-block over try_with_lazy_message whose body completes raises nothing',
)

contract(
    'reraised_exception.try_with_lazy_message', FR, 'try_with_lazy_message', cm=True, abstract=True,
    params=['lazy_message'],
    exc_rel=_twlm_exc_rel,
    props=('C05',),
    note='the with-statement protocol applied to the proved contract of __exit__ (lemma '
         'lemmas/c05_with.py: `with cm: body` re-raises the body\'s exception when __exit__ returns a '
         'false value and lets an exception raised by __exit__ replace it): body returns -> nothing; '
         'body raises an Exception e -> e itself or its decorated proxy escapes; any other '
         'BaseException propagates unchanged; nothing is swallowed',
)


# --- building.call_buildable ------------------------------------------------------------------
from contracts import config as CF          # noqa: E402
from contracts import signatures as S       # noqa: E402

G_CALLS = 'g:build_calls'          # ghost: number of __build__ invocations so far
G_LAST_SELF = 'ga:build_last'      # ghost: [0] receiver, [1] args list, [2] kwargs dict of the last one


def ghost_calls(h):
  return h.get(G_CALLS)


def ghost_last(h, i):
  return h.get(G_LAST_SELF)[i]


# buildable.__build__(*args, **kwargs): arbitrary user code (the configured callable)
def _build_call_pre(c):
  """At the invocation, (args, kwargs) is exactly transform_to_args_kwargs(arguments) in build
  mode: slot i is parameter i (value, else default), then *args; kwargs = everything else."""
  h = c.old
  b = c.caller['buildable']
  store = c.caller['arguments']
  g = CF.bsig(h, b)
  a0 = ref(store)
  F_ = z3.BoolVal(False)
  c2 = type(c)(c.args, h, h)
  # TakPost speaks about freshness relative to c.old.alloc: use the caller's entry allocation
  c2.old = _EntryAlloc(h, c.caller_entry_alloc) if hasattr(c, 'caller_entry_alloc') else h
  return z3.And(c['self'] == b,
                S.TakPost(c2, g, h.hasarr(a0), h.valarr(a0), F_, F_, c['args'], c['kwargs']))


class _EntryAlloc:
  """Heap view whose alloc is the caller's entry allocation counter (for freshness clauses)."""

  def __init__(self, h, alloc):
    self._h, self._alloc = h, alloc

  def __getattr__(self, name):
    if name == 'alloc':
      return self._alloc
    return getattr(self._h, name)


contract('building.__build__', FB, '__build__', abstract=True, params=['self', 'args', 'kwargs'],
         requires=_build_call_pre,
         ensures=lambda c: z3.And(ghost_calls(c.heap) == ghost_calls(c.old) + 1,
                                  ghost_last(c.heap, 0) == c['self'],
                                  ghost_last(c.heap, 1) == c['args'],
                                  ghost_last(c.heap, 2) == c['kwargs']),
         may_raise=('BaseException',),
         raises_post={'BaseException': lambda c: z3.And(
             ghost_calls(c.heap) == ghost_calls(c.old) + 1, ghost_last(c.heap, 0) == c['self'],
             ghost_last(c.heap, 1) == c['args'], ghost_last(c.heap, 2) == c['kwargs'])},
         havoc_all=True, ghost_writes=(G_CALLS, G_LAST_SELF),
         note='assumed: the configured callable is arbitrary user code; the ghost log records the '
              'invocation (receiver, positional list, keyword dict)')


def _cb_req(c):
  h = c.old
  b = c['buildable']
  si = CF.bfields(h, b)[0]
  g = CF.bsig(h, b)
  return z3.And(isref(h, b, 'Buildable'), SigInfoInv(h, si), ref(si) < h.alloc,
                StoreInv(h, g, c['arguments']), ref(c['arguments']) < h.alloc)


def _cb_terms(c):
  h0 = c.old
  b = c['buildable']
  g = CF.bsig(h0, b)
  a0 = ref(c['arguments'])
  return g, h0.hasarr(a0), h0.valarr(a0)


class _BodyHeapCtx:
  """Ctx-like view used to state TakPost on the heap in which __build__ was invoked."""


def _cb_invoked(c, heap_at_call=None):
  """Exactly one invocation, of this buildable, with (L, K) = transform(arguments)."""
  g, has0, val0 = _cb_terms(c)
  h = c.heap
  F_, T_ = z3.BoolVal(False), z3.BoolVal(True)
  return z3.And(ghost_calls(h) == ghost_calls(c.old) + 1,
                ghost_last(h, 0) == c['buildable'])


def _cb_missing(c):
  g, has0, val0 = _cb_terms(c)
  return S.tak_missing(g, has0, z3.BoolVal(False), z3.BoolVal(False))


contract(
    'building.call_buildable', FB, 'call_buildable',
    requires=_cb_req, ensures=_cb_invoked,
    raises={'TypeError': _cb_missing}, may_raise=('BaseException',),
    raises_post={'TypeError': lambda c: z3.Or(ghost_calls(c.heap) == ghost_calls(c.old),
                                              ghost_calls(c.heap) == ghost_calls(c.old) + 1)},
    calls={'buildable.__build__': 'building.__build__'},
    havoc_all=True, ghost_writes=(G_CALLS, G_LAST_SELF),
    props=('C01', 'C05'),
    note='the callable of this Buildable is invoked exactly once (never when a needed positional '
         'slot has neither value nor default: TypeError before any invocation); its exception '
         'escapes through try_with_lazy_message (original or decorated proxy)',
)


# --- build.<locals>._build (C01, C02): a Buildable node is built by exactly one call_buildable ------------
from contracts import copying as CP      # noqa: E402
from pyvc.sorts import zip_last          # noqa: E402
from pyvc.expr import zip_axioms         # noqa: E402

FD_ = 'fiddle/_src/daglish.py'
defclass('SubTraversalResult', 'object')


def _fmc_post(c):
  """Assumed contract of state.flattened_map_children(value) for a Buildable value: the metadata is
  the one `value.__flatten__()` yields (callable, names that enumerate the argument store, frozen
  tags, history), `values` holds one mapped result per name; mapping the children (which builds
  them) does not touch the internals of `value` itself."""
  h0, h = c.old, c.heap
  v = c['value']
  res = c.result
  r = ref(res)
  meta, vals = h.fld(r, 'metadata'), h.fld(r, 'values')
  m = ref(meta)
  names = h.fld(m, 'argument_names')
  g = CF.bsig(h0, v)
  A0 = ref(CF.bfields(h0, v)[1])
  has0 = h0.hasarr(A0)
  N = h.eltarr(ref(names))
  n = h.len(ref(names))
  i = z3.Int('fm_i')
  k = z3.Const('fm_k', Val)
  return z3.And(
      is_VRef(res), r >= h0.alloc, cls_is(h.cls(r), 'SubTraversalResult'),
      CF.MetaObj(h, meta), m < h.alloc,
      h.fld(m, 'fn_or_cls') == h0.fld(ref(v), '__fn_or_cls__'),
      CP.SeqObj(h, names), CP.SeqObj(h, vals), h.len(ref(vals)) == n,
      # names enumerate the argument store the Buildable had when it was flattened
      FA([i], z3.Implies(z3.And(0 <= i, i < n), has0[N[i]]), patterns=[N[i]]),
      FA([k], z3.Implies(has0[k], zip_last(N, n, k) >= 0), patterns=[zip_last(N, n, k)]),
      zip_axioms(N, n),
      # the Buildable itself is as it was
      CF.internals_same(h, h0, v), CF.store_eq(h, h0, v), CF.BInv(h, v),
      h.fld(ref(CF.bfields(h0, v)[0]), 'signature') == h0.fld(ref(CF.bfields(h0, v)[0]), 'signature'))


contract('daglish.State.flattened_map_children', FD_, 'State.flattened_map_children', abstract=True,
         params=['self', 'value'],
         requires=lambda c: CF.BInv(c.old, c['value']),
         ensures=_fmc_post, may_raise=('BaseException',), havoc_all=True,
         ghost_writes=(G_CALLS, G_LAST_SELF, CF.G_UCALLS, CF.G_ULAST),
         note='assumed (see the docstring of _fmc_post); the children are built recursively through the '
              'traversal, i.e. arbitrary user code runs')
contract('daglish.State.map_children', FD_, 'State.map_children', abstract=True, params=['self', 'value'],
         may_raise=('BaseException',), havoc_all=True,
         ghost_writes=(G_CALLS, G_LAST_SELF, CF.G_UCALLS, CF.G_ULAST),
         note='assumed: rebuilds a container from its recursively built children (arbitrary user code)')
contract('daglish.State.current_path', FD_, 'State.current_path', abstract=True, params=['self'],
         allocates=False, note='assumed: pure accessor')


def _bb_req(c):
  h = c.old
  v = c['value']
  return z3.And(is_VRef(c['state']), z3.Not(cls_in(h.cls(ref(c['state'])), 'Buildable')),
                z3.Implies(isref(h, v, 'Buildable'), CF.BInv(h, v)))


contract(
    'building.build._build', FB, 'build.<locals>._build',
    requires=_bb_req,
    # (what the node is built with is the precondition of call_buildable / __build__, checked at
    # the call sites; here: a Buildable node costs exactly one call_buildable, after its children)
    ensures=lambda c: z3.BoolVal(True),
    may_raise=('BaseException',), havoc_all=True,
    ghost_writes=(G_CALLS, G_LAST_SELF, CF.G_UCALLS, CF.G_ULAST),
    calls={'state.flattened_map_children': 'daglish.State.flattened_map_children',
           'state.map_children': 'daglish.State.map_children'},
    props=('C01', 'C02'),
    note='a Buildable node: children first (flattened_map_children), then arguments = '
         'metadata.arguments(mapped values) — a canonical store for the node\'s signature, which is the '
         'precondition of call_buildable, an obligation here — then exactly one call_buildable(node, '
         'arguments); any other value: state.map_children(value)',
)
