"""Sidecar contracts for fiddle/_src/building.py and reraised_exception.py (DESIGN §5 C05)."""
import z3
from pyvc.sorts import *  # noqa
from pyvc.contract import contract, Loop
from pyvc.state import SpecFn
from pyvc import contract as _C
from contracts.common import *  # noqa

FB = 'fiddle/_src/building.py'
FR = 'fiddle/_src/reraised_exception.py'
FALSEV = VBool(z3.BoolVal(False))
TRUEV = VBool(z3.BoolVal(True))

proxy_of = z3.Function('proxy_of', I, I, B)    # proxy_of(p, e): p is the ExceptionProxy of e


def in_build(h):
  return h.fld(ref(BUILD_STATE), 'in_build')


def flag_truthy(h):
  v = in_build(h)
  return z3.And(is_VBool(v), bval(v))


def same_exc(c, E, F):
  return z3.And(F.val == E.val, F.cls_term == E.cls_term)


# --- building._in_build ----------------------------------------------------------------------
contract(
    'building._in_build', FB, '_in_build', cm=True,
    requires=lambda c: is_VBool(in_build(c.old)),
    raises={'ValueError': lambda c: flag_truthy(c.old)},
    raises_post={'ValueError': lambda c: in_build(c.heap) == in_build(c.old)},
    enter_ensures=lambda c: in_build(c.heap) == TRUEV,
    exit_post=lambda c: in_build(c.heap) == FALSEV,
    exc_rel=same_exc,
    mod=lambda c: [ref(BUILD_STATE)], writes=('in_build',), allocates=True,
    props=('C05',),
    note='nested use -> ValueError and the flag is untouched; otherwise the flag is true during the '
         'body and false at every exit (normal or exceptional); the body\'s exception propagates '
         'unchanged and is never swallowed',
)

# --- reraised_exception ------------------------------------------------------------------------
contract('reraised.lazy_message', FR, 'lazy_message', abstract=True, params=['fn'],
         may_raise=('BaseException',), allocates=True,
         note='assumed: the message thunk returns a str or raises anything; modifies nothing')

contract('reraised_exception.decorate_exception', FR, 'decorate_exception', abstract=True,
         params=['exception', 'message'],
         ensures=lambda c: z3.Or(c.result == c['exception'],
                                 z3.And(is_VRef(c.result), ref(c.result) >= c.old.alloc,
                                        proxy_of(ref(c.result), ref(c['exception'])))),
         allocates=True,
         note='assumed (class creation is outside the subset; structural + bounded checks cover it): '
              'returns the exception itself or a fresh ExceptionProxy of it; never raises')


def _twlm_exc_rel(c, E, F):
  is_exception = cls_in(E.cls_term, 'Exception')
  return z3.If(is_exception,
               z3.Or(F.val == E.val,
                     z3.And(is_VRef(F.val), proxy_of(ref(F.val), ref(E.val)))),
               z3.And(F.val == E.val, F.cls_term == E.cls_term))


contract(
    'reraised_exception.try_with_lazy_message', FR, 'try_with_lazy_message', cm=True,
    exc_rel=_twlm_exc_rel,
    calls={'lazy_message': 'reraised.lazy_message'},
    props=('C05',),
    note='body returns -> nothing; body raises an Exception e -> e itself (if formatting the message '
         'fails) or its decorated proxy escapes; any other BaseException propagates unchanged; '
         'nothing is swallowed',
)
