"""Sidecar contract for fiddle/_src/absl_flags/flags.py: directive processing (DESIGN §5 C18)."""
import z3
from pyvc.sorts import *  # noqa
from pyvc.contract import contract, Loop
from pyvc import contract as _C
from pyvc.expr import ExprMixin
from contracts.common import *  # noqa

F = 'fiddle/_src/absl_flags/flags.py'
COMMAND_RE = singleton('flags._COMMAND_RE')
_C.MODULE_GLOBALS[F] = {'_COMMAND_RE': COMMAND_RE}

dir_ok = z3.Function('dir_ok', I, B)         # the directive string matches _COMMAND_RE
dir_cmd = z3.Function('dir_cmd', I, I)       # its command (string id)
dir_expr = z3.Function('dir_expr', I, I)     # its expression (string id)
match_item = z3.Function('match_item', I, I)  # the string a match object was produced from

G_N = 'g:applied'                 # ghost: number of directives applied so far
G_CMD = 'ga:applied_cmd'          # ghost: command of the t-th applied directive
G_EXPR = 'ga:applied_expr'        # ghost: expression of the t-th applied directive

contract('re.fullmatch', F, 'fullmatch', abstract=True, params=['self', 'item'],
         requires=lambda c: is_VStr(c['item']),
         ensures=lambda c: z3.If(dir_ok(sval(c['item'])),
                                 z3.And(is_VRef(c.result), ref(c.result) >= c.old.alloc,
                                        z3.Not(cls_in(c.heap.cls(ref(c.result)), 'Buildable')),
                                        match_item(ref(c.result)) == sval(c['item'])),
                                 c.result == VNone),
         allocates=True, note='assumed: regular expression matching is a pure function of the string')
contract('re.groups', F, 'groups', abstract=True, params=['self'], result=('tuple', 2),
         ensures=lambda c: z3.And(c.res(0) == VStr(dir_cmd(match_item(ref(c['self'])))),
                                  c.res(1) == VStr(dir_expr(match_item(ref(c['self']))))),
         allocates=False, note='assumed: (command, expression) of the matched directive')


def flag_fields_same(h0, h, sv):
  s = ref(sv)
  rem = ref(h0.fld(s, '_remaining_directives'))
  return z3.And(h.fld(s, '_remaining_directives') == h0.fld(s, '_remaining_directives'),
                h.fld(s, 'first_command') == h0.fld(s, 'first_command'),
                h.len(rem) == h0.len(rem), h.eltarr(rem) == h0.eltarr(rem))


def applied_one(h0, h, cmd, expr):
  n0 = h0.get(G_N)
  t = z3.Int('ap_t')
  return z3.And(h.get(G_N) == n0 + 1, h.get(G_CMD)[n0] == cmd, h.get(G_EXPR)[n0] == expr,
                FA([t], z3.Implies(t < n0, z3.And(h.get(G_CMD)[t] == h0.get(G_CMD)[t],
                                                  h.get(G_EXPR)[t] == h0.get(G_EXPR)[t])),
                   patterns=[h.get(G_CMD)[t]]))


def _handler(cid, qual, params, cmd_of, expr_of):
  contract(cid, F, qual, abstract=True, params=params,
           ensures=lambda c: z3.And(flag_fields_same(c.old, c.heap, c.caller['self']),
                                    applied_one(c.old, c.heap, cmd_of(c), expr_of(c))),
           may_raise=('BaseException',), havoc_all=True, ghost_writes=(G_N, G_CMD, G_EXPR),
           note='assumed: applying one directive is arbitrary code (config factories, user fiddlers, '
                'the override parser) that does not touch the flag\'s own queue; the ghost log '
                'records (command, expression) in application order')


_handler('flags.FiddleFlag._parse_config', 'FiddleFlag._parse_config', ['self', 'command', 'expression'],
         lambda c: c['command'], lambda c: c['expression'])
_handler('flags.set_value', 'set_value', ['cfg', 'assignment'],
         lambda c: strlit('set'), lambda c: c['assignment'])
_handler('flags.FiddleFlag._apply_fiddler', 'FiddleFlag._apply_fiddler', ['self', 'cfg', 'expression'],
         lambda c: strlit('fiddler'), lambda c: c['expression'])


def _fv_terms(c):
  h0 = c.old
  s = ref(c['self'])
  rem = ref(h0.fld(s, '_remaining_directives'))
  return h0, s, rem, h0.len(rem), h0.eltarr(rem)


def _fv_req(c):
  h0, s, rem, n0, e0 = _fv_terms(c)
  i = z3.Int('fv_i')
  return z3.And(isref(h0, c['self'], 'FiddleFlag'),
                isref(h0, h0.fld(s, '_remaining_directives'), 'list'), rem < h0.alloc, n0 >= 0,
                FA([i], z3.Implies(z3.And(0 <= i, i < n0), is_VStr(e0[i])), patterns=[e0[i]]),
                z3.Or(is_VNone(h0.fld(s, 'first_command')), is_VStr(h0.fld(s, 'first_command'))),
                h0.get(G_N) >= 0)


def consumed(c, h, kk):
  """The first kk directives of the queue were applied, in order, exactly once each."""
  h0, s, rem, n0, e0 = _fv_terms(c)
  t = z3.Int('fv_t')
  a0 = h0.get(G_N)
  return z3.And(
      h.get(G_N) == a0 + kk,
      FA([t], z3.Implies(z3.And(0 <= t, t < kk), z3.And(
          dir_ok(sval(e0[t])),
          h.get(G_CMD)[a0 + t] == VStr(dir_cmd(sval(e0[t]))),
          h.get(G_EXPR)[a0 + t] == VStr(dir_expr(sval(e0[t]))))),
         patterns=[e0[t]]),
      FA([t], z3.Implies(t < a0, z3.And(h.get(G_CMD)[t] == h0.get(G_CMD)[t],
                                        h.get(G_EXPR)[t] == h0.get(G_EXPR)[t])),
         patterns=[h.get(G_CMD)[t]]))


def _fv_inv(c):
  h0, s, rem, n0, e0 = _fv_terms(c)
  h = c.heap
  kk = c.k
  i = z3.Int('fv_i')
  return z3.And(
      0 <= kk, kk <= n0, c.v('self') == c['self'],
      h.fld(s, '_remaining_directives') == h0.fld(s, '_remaining_directives'),
      cls_is(h.cls(rem), 'list'),
      h.len(rem) == n0 - kk,
      FA([i], z3.Implies(z3.And(0 <= i, i < n0 - kk), h.elt(rem, i) == e0[i + kk]),
         patterns=[h.elt(rem, i)]),
      z3.Or(is_VNone(h.fld(s, 'first_command')), is_VStr(h.fld(s, 'first_command'))),
      consumed(c, h, kk))


def _fv_post(c):
  h0, s, rem, n0, e0 = _fv_terms(c)
  h = c.heap
  return z3.And(consumed(c, h, n0), h.len(rem) == 0,
                c.result == h.fld(s, '_value'))


contract(
    'flags.FiddleFlag.value', F, 'FiddleFlag.value',
    requires=_fv_req, ensures=_fv_post,
    may_raise=('ValueError', 'AssertionError', 'BaseException'),
    calls={'_COMMAND_RE.fullmatch': 're.fullmatch', 'match.groups': 're.groups',
           'self._parse_config': 'flags.FiddleFlag._parse_config',
           'utils.set_value': 'flags.set_value',
           'self._apply_fiddler': 'flags.FiddleFlag._apply_fiddler'},
    havoc_all=True, ghost_writes=(G_N, G_CMD, G_EXPR),
    loops={0: Loop(_fv_inv, pivots=lambda c: [c.k])},
    props=('C18',),
    note='every queued directive is applied exactly once, strictly in queue (command-line) order, '
         'with its own command and expression; the queue is empty afterwards; the result is the '
         'value left by the last directive (malformed directives / wrong first directive raise)',
)
# reading `self.value` inside the class is a (re-entrant) call of this property
ExprMixin.PROPERTIES['value'] = ('FiddleFlag', 'flags.FiddleFlag.value')
