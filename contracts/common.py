"""Shared predicates of the sidecar contracts (DESIGN.md §4)."""
import z3
from pyvc.sorts import *  # noqa
from pyvc.contract import contract, Loop, Ctx
from pyvc.expr import ExprMixin

TRUE = z3.BoolVal(True)


def isref(h, v, clsname):
  return z3.And(is_VRef(v), cls_in(h.cls(ref(v)), clsname))


def isbool(v):
  return is_VBool(v)


def sig_of(h, s):
  """Signature id (reference of the inspect.Signature) of SignatureInfo reference s."""
  return ref(h.fld(s, 'signature'))


def hvk_val(g):
  """has_var_keyword as left by SignatureInfo(signature=...).__post_init__."""
  return z3.If(sig_vk(g) >= 0, VBool(z3.BoolVal(True)), VNone)


def _defaults_exist(h, g):
  i = z3.Int('de_i')
  return FA([i], z3.Implies(is_VRef(sig_dflt(g, i)), ref(sig_dflt(g, i)) < h.alloc),
            patterns=[sig_dflt(g, i)])


def SigInfoInv(h, sv):
  """`sv` is a SignatureInfo whose derived fields agree with its (well-formed) signature."""
  s = ref(sv)
  g = sig_of(h, s)
  return z3.And(
      isref(h, sv, 'SignatureInfo'),
      isref(h, h.fld(s, 'signature'), 'Signature'),
      WF(g),
      h.fld(s, '_var_positional_start') == vps_val(g),
      h.fld(s, 'has_var_keyword') == hvk_val(g),
      # default values are existing objects (closed heap)
      _defaults_exist(h, g))


def StoreInv(h, g, dv):
  """`dv` is a dict in canonical storage format for signature g (finite: nvar exists)."""
  d = ref(dv)
  return z3.And(isref(h, dv, 'dict'), z3.Not(cls_in(h.cls(d), 'defaultdict')),
                z3.Not(cls_in(h.cls(d), 'History')),
                Canon(g, h.hasarr(d)), NvarDef(g, h.hasarr(d)))


def induction(P, lo=0, pats=None):
  """Natural-number induction schema: returns (statement, [base, step]) for ∀i≥lo. P(i)."""
  i = z3.Int('ind_i')
  stmt = FA([i], z3.Implies(i >= lo, P(i)), patterns=pats(i) if pats else None)
  base = P(z3.IntVal(lo))
  step = z3.ForAll([i], z3.Implies(z3.And(i >= lo, P(i)), P(i + 1)))
  return stmt, [base, step]


# positional view ---------------------------------------------------------------

def isset(g, has, i):
  return has[poskey(g, i)]


def Lfull(g, has):
  return sig_npos(g) + store_nvar(g, has)


def Lf(g, has, val, i):
  """Element i of the full positional view (with defaults / NO_VALUE filled in)."""
  return z3.If(i < sig_npos(g),
               z3.If(isset(g, has, i), val[poskey(g, i)], default_or(g, i, NO_VALUE)),
               val[IK(i)])


def FA(vs, body, patterns=None):
  """ForAll with an explicit trigger when z3 accepts it, inferred triggers otherwise."""
  if patterns:
    try:
      return z3.ForAll(vs, body, patterns=patterns)
    except z3.Z3Exception:
      pass
  return z3.ForAll(vs, body)
