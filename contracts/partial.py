"""Sidecar contracts for fiddle/_src/partial.py: Partial.__build__ / ArgFactory.__build__ (C02, C04)."""
import z3
from pyvc.sorts import *  # noqa
from pyvc.contract import contract
from pyvc import calls as _calls
from contracts.common import *  # noqa

F = 'fiddle/_src/partial.py'
_calls.DATACLASSES.setdefault('_BuiltArgFactory', ['factory'])

G_BP = 'g:build_partial_calls'        # ghost: number of _build_partial calls
GA_BP = 'ga:build_partial_last'       # ghost: [0] fn, [1] args, [2] kwargs, [3] result of the last one

contract('partial._build_partial', F, '_build_partial', abstract=True, params=['fn', 'args', 'kwargs'],
         ensures=lambda c: z3.And(
             is_VRef(c.result), ref(c.result) >= c.old.alloc, cls_is(c.heap.cls(ref(c.result)), 'functools.partial'),
             c.heap.get(G_BP) == c.old.get(G_BP) + 1,
             c.heap.get(GA_BP)[0] == c['fn'], c.heap.get(GA_BP)[1] == c['args'],
             c.heap.get(GA_BP)[2] == c['kwargs'], c.heap.get(GA_BP)[3] == c.result),
         may_raise=('BaseException',), havoc_all=True, ghost_writes=(G_BP, GA_BP),
         note='assumed: returns a fresh functools.partial (functools.partial / arg_factory.partial '
              'wrappers around fn); the ghost log records the call')


def _via_build_partial(c, res):
  h0, h = c.old, c.heap
  return z3.And(h.get(G_BP) == h0.get(G_BP) + 1,
                h.get(GA_BP)[0] == h0.fld(ref(c['self']), '__fn_or_cls__'),
                h.get(GA_BP)[1] == c['args'], h.get(GA_BP)[2] == c['kwargs'], h.get(GA_BP)[3] == res)


def _pb_req(c, clsname):
  h = c.old
  return z3.And(isref(h, c['self'], clsname), isref(h, c['args'], 'tuple'), h.len(ref(c['args'])) >= 0,
                isref(h, c['kwargs'], 'dict'))


contract(
    'partial.Partial.__build__', F, 'Partial.__build__',
    requires=lambda c: _pb_req(c, 'Partial'),
    ensures=lambda c: z3.And(_via_build_partial(c, c.result), is_VRef(c.result), ref(c.result) >= c.old.alloc,
                             cls_is(c.heap.cls(ref(c.result)), 'functools.partial')),
    may_raise=('BaseException',), havoc_all=True, ghost_writes=(G_BP, GA_BP),
    props=('C02', 'C04'),
    note='always (with or without bound arguments) the fresh functools.partial that '
         '_build_partial(self.__fn_or_cls__, args, kwargs) returns: never the configured callable itself, '
         'never an object shared with another node or another build',
)


def _af_post(c):
  h0, h = c.old, c.heap
  r = ref(c.result)
  has_args = z3.Or(h0.len(ref(c['args'])) > 0,
                   z3.Exists([z3.Const('af_k', Val)], h0.has(ref(c['kwargs']), z3.Const('af_k', Val))))
  fac = h.fld(r, 'factory')
  return z3.And(
      is_VRef(c.result), r >= h0.alloc, cls_is(h.cls(r), '_BuiltArgFactory'),
      z3.If(has_args, _via_build_partial(c, fac),
            z3.And(fac == h0.fld(ref(c['self']), '__fn_or_cls__'), h.get(G_BP) == h0.get(G_BP))))


contract(
    'partial.ArgFactory.__build__', F, 'ArgFactory.__build__',
    requires=lambda c: _pb_req(c, 'ArgFactory'),
    ensures=_af_post, may_raise=('BaseException',), havoc_all=True, ghost_writes=(G_BP, GA_BP),
    props=('C04',),
    note='a fresh _BuiltArgFactory whose factory is the callable itself when nothing is bound, and '
         'otherwise exactly _build_partial(callable, args, kwargs) — i.e. nested ArgFactories in the '
         'arguments (also inside containers) are always handled by _build_partial, never passed through',
)


# --- _promote_arg_factory (C04) -----------------------------------------------------------------------
contains_af = z3.Function('contains_arg_factory', Val, B)     # _contains_arg_factory(value)

contract('partial._contains_arg_factory', F, '_contains_arg_factory', abstract=True, params=['value'],
         ensures=lambda c: c.result == VBool(contains_af(c['value'])), allocates=True,
         note='assumed: a pure predicate of the (nested) value — whether a _BuiltArgFactory is reachable in it')


def _paf_post(c):
  h0, h = c.old, c.heap
  a = c['arg']
  r = ref(c.result)
  keep = z3.Or(isref(h0, a, '_BuiltArgFactory'), z3.Not(contains_af(a)))
  return z3.If(keep, c.result == a,
               z3.And(is_VRef(c.result), r >= h0.alloc, cls_is(h.cls(r), '_BuiltArgFactory'),
                      is_VRef(h.fld(r, 'factory')), ref(h.fld(r, 'factory')) >= h0.alloc,
                      cls_is(h.cls(ref(h.fld(r, 'factory'))), 'functools.partial')))


contract(
    'partial._promote_arg_factory', F, '_promote_arg_factory',
    requires=lambda c: z3.BoolVal(True), ensures=_paf_post,
    writes=('factory',), props=('C04',),
    note='an argument that is a built ArgFactory, or holds none, is passed on as it is (the same '
         'object: containers without ArgFactory are never copied); otherwise it becomes a fresh '
         '_BuiltArgFactory around a fresh functools.partial (of _invoke_arg_factories and the argument); '
         'nothing that existed is modified (frame)',
)
