"""Sidecar contracts for fiddle/_src/daglish.py (DESIGN §5 C02, C08)."""
import z3
from pyvc.sorts import *  # noqa
from pyvc.contract import contract, Loop
from pyvc.calls import id_of_val
from contracts.common import *  # noqa

F = 'fiddle/_src/daglish.py'
internable = z3.Function('internable', Val, B)    # daglish.is_internable, as a pure predicate


def idv(v):
  """id(v) as computed by the engine."""
  return VInt(z3.If(is_VRef(v), ref(v), id_of_val(v)))


def tfields(h, tv):
  t = ref(tv)
  return (h.fld(t, 'memo'), h.fld(t, '_cycle_start'), h.fld(t, 'memoize_internables'),
          h.fld(t, 'traversal_fn'))


def MemoInv(h, tv):
  memo, cyc, mi, fn = tfields(h, tv)
  k = z3.Const('mi_k', Val)
  e = lambda x: h.dget(ref(memo), x)
  plain = lambda d: z3.And(isref(h, d, 'dict'), z3.Not(cls_in(h.cls(ref(d)), 'defaultdict')),
                           z3.Not(cls_in(h.cls(ref(d)), 'History')), ref(d) < h.alloc)
  return z3.And(
      isref(h, tv, 'MemoizedTraversal'), plain(memo), plain(cyc), ref(memo) != ref(cyc),
      is_VBool(mi),
      # every memo entry is a pair (value, result) whose first component is the very object
      # whose id is the key: the entry pins its key (ids cannot be recycled during the traversal)
      FA([k], z3.Implies(h.has(ref(memo), k),
                         z3.And(isref(h, e(k), 'tuple'), ref(e(k)) < h.alloc,
                                h.len(ref(e(k))) == 2,
                                idv(h.elt(ref(e(k)), 0)) == k)),
         patterns=[h.has(ref(memo), k)]))


def memo_grows(h0, h, tv, cyc_same=True):
  """Existing memo entries are untouched, the traversal object's fields are the same."""
  memo0, cyc0, mi0, fn0 = tfields(h0, tv)
  memo, cyc, mi, fn = tfields(h, tv)
  k = z3.Const('mg_k', Val)
  e0 = lambda x: h0.dget(ref(memo0), x)
  conj = [memo == memo0, cyc == cyc0, mi == mi0, fn == fn0,
          FA([k], z3.Implies(h0.has(ref(memo0), k),
                             z3.And(h.has(ref(memo0), k), h.dget(ref(memo0), k) == e0(k),
                                    h.len(ref(e0(k))) == h0.len(ref(e0(k))),
                                    h.eltarr(ref(e0(k))) == h0.eltarr(ref(e0(k))))),
             patterns=[h0.has(ref(memo0), k)])]
  if cyc_same:
    conj.append(h.hasarr(ref(cyc0)) == h0.hasarr(ref(cyc0)))
  else:
    conj.append(FA([k], z3.Implies(h0.has(ref(cyc0), k), h.has(ref(cyc0), k)),
                   patterns=[h0.has(ref(cyc0), k)]))
  return z3.And(conj)


def memoizing(h, tv, value):
  return z3.Or(bval(tfields(h, tv)[2]), z3.Not(internable(value)))


# is_internable is abstracted to a pure predicate (it only inspects immutable values)
contract('daglish.is_internable', F, 'is_internable', abstract=True, params=['value'],
         ensures=lambda c: c.result == VBool(internable(c['value'])), allocates=False,
         note='assumed: pure predicate of the value (tuples of constants, constants)')


# the traversal function is arbitrary user code that may re-enter apply()
def _tf_req(c):
  tv = c.caller['self']
  h = c.old
  memo = tfields(h, tv)[0]
  # never invoked twice for a memoized value: at the call its id is not in the memo
  return z3.And(MemoInv(h, tv),
                z3.Implies(memoizing(h, tv, c['value']), z3.Not(h.has(ref(memo), idv(c['value'])))))


contract('daglish.traversal_fn', F, 'traversal_fn', abstract=True, params=['fn', 'value', 'state'],
         requires=_tf_req,
         ensures=lambda c: z3.And(MemoInv(c.heap, c.caller['self']),
                                  memo_grows(c.old, c.heap, c.caller['self'], cyc_same=True)),
         may_raise=('BaseException',),
         raises_post={'BaseException': lambda c: z3.And(
             MemoInv(c.heap, c.caller['self']),
             memo_grows(c.old, c.heap, c.caller['self'], cyc_same=False))},
         havoc_all=True,
         note='assumed (induction hypothesis for re-entrant apply + arbitrary user code): keeps MemoInv, '
              'memo only grows, existing entries untouched, _cycle_start restored on normal return')


def _ap_req(c):
  return MemoInv(c.old, c['self'])


def _ap_cycle(c):
  h = c.old
  memo, cyc, mi, fn = tfields(h, c['self'])
  i = idv(c['value'])
  return z3.And(memoizing(h, c['self'], c['value']), z3.Not(h.has(ref(memo), i)), h.has(ref(cyc), i))


def _ap_post(c):
  h0, h = c.old, c.heap
  tv, value = c['self'], c['value']
  memo0 = tfields(h0, tv)[0]
  i = idv(value)
  hit = z3.And(memoizing(h0, tv, value), h0.has(ref(memo0), i))
  entry = h.dget(ref(memo0), i)
  return z3.And(
      MemoInv(h, tv), memo_grows(h0, h, tv, cyc_same=True),
      # memo hit: the stored result, no invocation (nothing at all changes)
      z3.Implies(hit, c.result == h0.elt(ref(h0.dget(ref(memo0), i)), 1)),
      # miss on a memoized value: afterwards the memo holds (value, result), pinned by identity
      z3.Implies(z3.And(memoizing(h0, tv, value), z3.Not(hit)),
                 z3.And(h.has(ref(memo0), i), h.elt(ref(entry), 0) == value,
                        h.elt(ref(entry), 1) == c.result)))


def _ap_hit_frame(c):
  """On a memo hit nothing is invoked: the whole heap is unchanged."""
  h0 = c.old
  tv, value = c['self'], c['value']
  memo0 = tfields(h0, tv)[0]
  return z3.And(memoizing(h0, tv, value), h0.has(ref(memo0), idv(value)))


contract(
    'daglish.MemoizedTraversal.apply', F, 'MemoizedTraversal.apply',
    requires=_ap_req, ensures=_ap_post,
    raises={'ValueError': _ap_cycle}, may_raise=('BaseException',),
    raises_post={'BaseException': lambda c: z3.And(MemoInv(c.heap, c['self']),
                                                   memo_grows(c.old, c.heap, c['self'], cyc_same=False))},
    calls={'self.traversal_fn': 'daglish.traversal_fn'},
    havoc_all=True,
    cases=lambda c: [bval(tfields(c.old, c['self'])[2]), internable(c['value']),
                     c.old.has(ref(tfields(c.old, c['self'])[0]), idv(c['value']))],
    props=('C02', 'C08', 'C05'),
    note='memo hit -> stored result; cycle -> ValueError; otherwise exactly one invocation, whose '
         'precondition is that the id is not yet in the memo; afterwards memo[id] = (value, result) '
         'with the first component identical to the value (pinning); memo only grows; an exception '
         'of the traversal function propagates and leaves no memo entry for the unfinished node',
)
