"""Sidecar contracts for fiddle/_src/experimental/serialization.py (DESIGN §5 C09)."""
import z3
from pyvc.sorts import *  # noqa
from pyvc.contract import contract, Loop
from contracts.common import *  # noqa

F = 'fiddle/_src/experimental/serialization.py'
approved = z3.Function('approved', Val, Val, B)    # policy approved (import and value) this value


def plain_dict(h, v):
  return z3.And(isref(h, v, 'dict'), z3.Not(cls_in(h.cls(ref(v)), 'defaultdict')),
                z3.Not(cls_in(h.cls(ref(v)), 'History')), ref(v) < h.alloc)


# import_symbol is the policy gate (its own body uses importlib / getattr chains, which are
# outside the subset: assumed contract; the policy clauses on whole documents are bounded)
contract('serialization.import_symbol', F, 'import_symbol', abstract=True,
         params=['policy', 'module', 'symbol'],
         ensures=lambda c: approved(c['policy'], c.result),
         may_raise=('Exception',), allocates=True,
         note='assumed: returns a value only after policy.allows_import(module, symbol) and '
              'policy.allows_value(value) returned true; otherwise raises')


def DeserInv(h, sv):
  s = ref(sv)
  return z3.And(is_VRef(sv), z3.Not(cls_in(h.cls(s), 'Buildable')),
                plain_dict(h, h.fld(s, '_deserialized_objects')),
                plain_dict(h, h.fld(s, '_serialized_objects')),
                ref(h.fld(s, '_deserialized_objects')) != ref(h.fld(s, '_serialized_objects')))


def objs_grow(h0, h, sv):
  """The memo of deserialized objects only grows; existing entries are untouched."""
  s = ref(sv)
  D = ref(h0.fld(s, '_deserialized_objects'))
  k = z3.Const('og_k', Val)
  return z3.And(h.fld(s, '_deserialized_objects') == h0.fld(s, '_deserialized_objects'),
                h.fld(s, '_serialized_objects') == h0.fld(s, '_serialized_objects'),
                h.fld(s, '_pyref_policy') == h0.fld(s, '_pyref_policy'),
                FA([k], z3.Implies(h0.has(D, k), z3.And(h.has(D, k), h.dget(D, k) == h0.dget(D, k))),
                   patterns=[h0.has(D, k)]))


# the recursive worker: assumed (induction hypothesis + traverser code)
contract('serialization.Deserialization._deserialize', F, 'Deserialization._deserialize',
         abstract=True, params=['self', 'serialized_object'],
         requires=lambda c: DeserInv(c.old, c['self']),
         ensures=lambda c: z3.And(DeserInv(c.heap, c['self']), objs_grow(c.old, c.heap, c['self'])),
         may_raise=('Exception',),
         raises_post={'Exception': lambda c: z3.And(DeserInv(c.heap, c['self']),
                                                    objs_grow(c.old, c.heap, c['self']))},
         havoc_all=True,
         note='assumed (recursion + traverser.unflatten): keeps the invariant, memo only grows')


def _dr_req(c):
  h = c.old
  r = c['ref']
  return z3.And(DeserInv(h, c['self']), plain_dict(h, r),
                h.has(ref(r), strlit('type')), h.has(ref(r), strlit('key')))


def _dr_post(c):
  h0, h = c.old, c.heap
  s = ref(c['self'])
  D = ref(h0.fld(s, '_deserialized_objects'))
  key = h0.dget(ref(c['ref']), strlit('key'))
  hit = h0.has(D, key)
  return z3.And(
      DeserInv(h, c['self']), objs_grow(h0, h, c['self']),
      # same key -> same object, now and on every later call (sharing is preserved)
      h.has(D, key), h.dget(D, key) == c.result,
      z3.Implies(hit, c.result == h0.dget(D, key)))


contract(
    'serialization.Deserialization._deserialize_ref', F, 'Deserialization._deserialize_ref',
    requires=_dr_req, ensures=_dr_post,
    raises={'AssertionError': lambda c: c.old.dget(ref(c['ref']), strlit('type')) != strlit('ref')},
    may_raise=('Exception', 'KeyError'),
    havoc_all=True,
    props=('C09',),
    note='a reference that was already deserialized returns the memoized object (whatever its '
         'truthiness); otherwise the object is deserialized once and memoized under its key',
)


def _dp_req(c):
  h = c.old
  p = c['pyref']
  return z3.And(is_VRef(c['self']), z3.Not(cls_in(h.cls(ref(c['self'])), 'Buildable')),
                plain_dict(h, p), h.has(ref(p), strlit('type')),
                h.has(ref(p), strlit('module')), h.has(ref(p), strlit('name')))


contract(
    'serialization.Deserialization._deserialize_pyref', F, 'Deserialization._deserialize_pyref',
    requires=_dp_req,
    ensures=lambda c: approved(c.old.fld(ref(c['self']), '_pyref_policy'), c.result),
    raises={'AssertionError': lambda c: c.old.dget(ref(c['pyref']), strlit('type')) != strlit('pyref')},
    may_raise=('Exception',), havoc_all=True,
    props=('C09',),
    note='every Python symbol resolved by deserialization comes out of import_symbol called with '
         'this Deserialization\'s own policy (no other resolver, no cache in front of it)',
)
