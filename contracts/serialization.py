"""Sidecar contracts for fiddle/_src/experimental/serialization.py (DESIGN §5 C09)."""
import z3
from pyvc.sorts import *  # noqa
from pyvc.contract import contract, Loop
from contracts.common import *  # noqa

F = 'fiddle/_src/experimental/serialization.py'


def plain_dict(h, v):
  return z3.And(isref(h, v, 'dict'), z3.Not(cls_in(h.cls(ref(v)), 'defaultdict')),
                z3.Not(cls_in(h.cls(ref(v)), 'History')), ref(v) < h.alloc)


# --- import_symbol: the policy gate ---------------------------------------------------------------------
# The decisions of a PyrefPolicy are modelled as (pure) predicates of the policy object and its
# arguments; the methods themselves, importlib and attribute lookup are arbitrary code.
import_ok = z3.Function('import_ok', Val, Val, Val, B)    # policy.allows_import(module, symbol)
value_ok = z3.Function('value_ok', Val, Val, B)           # policy.allows_value(value)
G_ALLOWED = 'g:import_allowed'     # ghost: 1 iff the last allows_import(...) call returned True
G_IMPORTS = 'g:imports'            # ghost: number of importlib.import_module calls


def approved(policy, value):
  return value_ok(policy, value)


contract('serialization.policy.allows_import', F, 'allows_import', abstract=True,
         params=['self', 'module', 'symbol'],
         ensures=lambda c: z3.And(c.result == VBool(import_ok(c['self'], c['module'], c['symbol'])),
                                  c.heap.get(G_ALLOWED) == z3.If(import_ok(c['self'], c['module'], c['symbol']),
                                                                 z3.IntVal(1), z3.IntVal(0))),
         may_raise=('BaseException',), havoc_all=True, ghost_writes=(G_ALLOWED,),
         note='assumed: a policy decision is a boolean function of the policy object and its arguments '
              '(the method body is arbitrary user code)')
contract('serialization.policy.allows_value', F, 'allows_value', abstract=True, params=['self', 'value'],
         ensures=lambda c: c.result == VBool(value_ok(c['self'], c['value'])),
         may_raise=('BaseException',), havoc_all=True,
         note='assumed: as allows_import')
contract('serialization.module_override', F, 'maybe_get_module_override_for_migrated_serialization_symbol',
         abstract=True, params=['module', 'symbol'], ensures=lambda c: is_VStr(c.result), allocates=False,
         note='assumed: pure string -> string table lookup')
contract('importlib.import_module', F, 'import_module', abstract=True, params=['module'],
         # the import itself is only ever reached after the policy allowed it
         requires=lambda c: c.old.get(G_ALLOWED) == 1,
         ensures=lambda c: c.heap.get(G_IMPORTS) == c.old.get(G_IMPORTS) + 1,
         may_raise=('BaseException',), havoc_all=True, ghost_writes=(G_IMPORTS,),
         raises_post={'BaseException': lambda c: c.heap.get(G_IMPORTS) == c.old.get(G_IMPORTS) + 1},
         note='assumed: importing a module runs arbitrary code; the ghost counter records the call')
contract('builtin.getattr_dyn', F, 'getattr', abstract=True, params=['obj', 'name'],
         may_raise=('BaseException',), havoc_all=True,
         note='assumed: attribute lookup with a computed name on an arbitrary object may run '
              'arbitrary code (descriptors, __getattr__)')
contract('serialization._fiddle_pyref_context', F, '_fiddle_pyref_context', abstract=True,
         params=['module', 'symbol'], allocates=False, note='message formatting only')


def _is_inv(c):
  h0 = c.old
  return z3.And(c.v('policy') == c['policy'], c.v('symbol') == c['symbol'],
                c.heap.get(G_ALLOWED) == 1,
                c.heap.get(G_IMPORTS) == h0.get(G_IMPORTS) + 1,
                import_ok(c['policy'], c['module'], c['symbol']))


contract(
    'serialization.import_symbol', F, 'import_symbol',
    requires=lambda c: z3.And(is_VRef(c['policy']), is_VStr(c['module']), is_VStr(c['symbol'])),
    ensures=lambda c: z3.And(import_ok(c['policy'], c['module'], c['symbol']),
                             value_ok(c['policy'], c.result),
                             # exactly one import happened on the way to a returned value
                             c.heap.get(G_IMPORTS) == c.old.get(G_IMPORTS) + 1),
    may_raise=('BaseException',),
    # a refusal by the policy never imports anything
    # on every exceptional exit (whoever raised): nothing was imported unless the policy allowed
    # the import, and never more than one module
    raises_post={'BaseException': lambda c: z3.And(
        z3.Or(c.heap.get(G_IMPORTS) == c.old.get(G_IMPORTS),
              c.heap.get(G_IMPORTS) == c.old.get(G_IMPORTS) + 1),
        z3.Implies(c.heap.get(G_IMPORTS) != c.old.get(G_IMPORTS),
                   import_ok(c['policy'], c['module'], c['symbol'])))},
    calls={'policy.allows_import': 'serialization.policy.allows_import',
           'policy.allows_value': 'serialization.policy.allows_value',
           'special_overrides.maybe_get_module_override_for_migrated_serialization_symbol':
               'serialization.module_override',
           'importlib.import_module': 'importlib.import_module',
           'getattr': 'builtin.getattr_dyn'},
    loops={0: Loop(_is_inv)},
    havoc_all=True, ghost_writes=(G_ALLOWED, G_IMPORTS),
    props=('C09',),
    note='a value is returned only if policy.allows_import(module, symbol) and '
         'policy.allows_value(value) both returned True for exactly these arguments; '
         'importlib.import_module is reached only after allows_import returned True (precondition '
         'of the abstract import at its call site) and at most once; on every exit, exceptional ones '
         'included, a module was imported only if the policy allowed it',
)


def DeserInv(h, sv):
  s = ref(sv)
  return z3.And(is_VRef(sv), z3.Not(cls_in(h.cls(s), 'Buildable')),
                plain_dict(h, h.fld(s, '_deserialized_objects')),
                plain_dict(h, h.fld(s, '_serialized_objects')),
                ref(h.fld(s, '_deserialized_objects')) != ref(h.fld(s, '_serialized_objects')))


def objs_grow(h0, h, sv):
  """The memo of deserialized objects only grows; existing entries are untouched."""
  s = ref(sv)
  D = ref(h0.fld(s, '_deserialized_objects'))
  k = z3.Const('og_k', Val)
  return z3.And(h.fld(s, '_deserialized_objects') == h0.fld(s, '_deserialized_objects'),
                h.fld(s, '_serialized_objects') == h0.fld(s, '_serialized_objects'),
                h.fld(s, '_pyref_policy') == h0.fld(s, '_pyref_policy'),
                FA([k], z3.Implies(h0.has(D, k), z3.And(h.has(D, k), h.dget(D, k) == h0.dget(D, k))),
                   patterns=[h0.has(D, k)]))


# the recursive worker: assumed (induction hypothesis + traverser code)
contract('serialization.Deserialization._deserialize', F, 'Deserialization._deserialize',
         abstract=True, params=['self', 'serialized_object'],
         requires=lambda c: DeserInv(c.old, c['self']),
         ensures=lambda c: z3.And(DeserInv(c.heap, c['self']), objs_grow(c.old, c.heap, c['self'])),
         may_raise=('Exception',),
         raises_post={'Exception': lambda c: z3.And(DeserInv(c.heap, c['self']),
                                                    objs_grow(c.old, c.heap, c['self']))},
         havoc_all=True,
         note='assumed (recursion + traverser.unflatten): keeps the invariant, memo only grows')


def _dr_req(c):
  h = c.old
  r = c['ref']
  return z3.And(DeserInv(h, c['self']), plain_dict(h, r),
                h.has(ref(r), strlit('type')), h.has(ref(r), strlit('key')))


def _dr_post(c):
  h0, h = c.old, c.heap
  s = ref(c['self'])
  D = ref(h0.fld(s, '_deserialized_objects'))
  key = h0.dget(ref(c['ref']), strlit('key'))
  hit = h0.has(D, key)
  return z3.And(
      DeserInv(h, c['self']), objs_grow(h0, h, c['self']),
      # same key -> same object, now and on every later call (sharing is preserved)
      h.has(D, key), h.dget(D, key) == c.result,
      z3.Implies(hit, c.result == h0.dget(D, key)))


contract(
    'serialization.Deserialization._deserialize_ref', F, 'Deserialization._deserialize_ref',
    requires=_dr_req, ensures=_dr_post,
    raises={'AssertionError': lambda c: c.old.dget(ref(c['ref']), strlit('type')) != strlit('ref')},
    may_raise=('Exception', 'KeyError'),
    havoc_all=True,
    props=('C09',),
    note='a reference that was already deserialized returns the memoized object (whatever its '
         'truthiness); otherwise the object is deserialized once and memoized under its key',
)


def _dp_req(c):
  h = c.old
  p = c['pyref']
  return z3.And(is_VRef(c['self']), z3.Not(cls_in(h.cls(ref(c['self'])), 'Buildable')),
                plain_dict(h, p), h.has(ref(p), strlit('type')),
                h.has(ref(p), strlit('module')), h.has(ref(p), strlit('name')),
                is_VStr(h.dget(ref(p), strlit('module'))), is_VStr(h.dget(ref(p), strlit('name'))),
                is_VRef(h.fld(ref(c['self']), '_pyref_policy')))


contract(
    'serialization.Deserialization._deserialize_pyref', F, 'Deserialization._deserialize_pyref',
    requires=_dp_req,
    ensures=lambda c: z3.And(
        value_ok(c.old.fld(ref(c['self']), '_pyref_policy'), c.result),
        import_ok(c.old.fld(ref(c['self']), '_pyref_policy'),
                  c.old.dget(ref(c['pyref']), strlit('module')), c.old.dget(ref(c['pyref']), strlit('name')))),
    raises={'AssertionError': lambda c: c.old.dget(ref(c['pyref']), strlit('type')) != strlit('pyref')},
    may_raise=('BaseException',), havoc_all=True, ghost_writes=(G_ALLOWED, G_IMPORTS),
    props=('C09',),
    note='every Python symbol resolved by deserialization comes out of import_symbol called with '
         'this Deserialization\'s own policy (no other resolver, no cache in front of it)',
)
