"""Sidecar contracts for fiddle/_src/signatures.py (DESIGN.md Appendix D)."""
import z3
from pyvc.sorts import *  # noqa
from pyvc.contract import contract, Loop
from pyvc.expr import ExprMixin
from contracts.common import *  # noqa
from contracts.common import _defaults_exist

F = 'fiddle/_src/signatures.py'

# --- trivial accessors: inlined (their real body is executed at each use) -------------
contract('signatures.SignatureInfo.parameters', F, 'SignatureInfo.parameters', kind='inline')
contract('signatures.SignatureInfo.var_positional_start', F,
         'SignatureInfo.var_positional_start', kind='inline')
ExprMixin.PROPERTIES['parameters'] = ('SignatureInfo', 'signatures.SignatureInfo.parameters')
ExprMixin.PROPERTIES['var_positional_start'] = (
    'SignatureInfo', 'signatures.SignatureInfo.var_positional_start')


# --- SignatureInfo.__post_init__ --------------------------------------------------------
def _pi_req(c):
  h, s = c.old, ref(c['self'])
  return z3.And(isref(h, c['self'], 'SignatureInfo'),
                isref(h, h.fld(s, 'signature'), 'Signature'),
                WF(sig_of(h, s)), _defaults_exist(h, sig_of(h, s)),
                h.fld(s, 'has_var_keyword') == VNone)


def _pi_inv(c):
  h, s = c.heap, ref(c['self'])
  g = sig_of(c.old, s)
  k = c.k
  j = z3.Int('pi_j')
  vps, vk = sig_vps(g), sig_vk(g)
  return z3.And(
      0 <= k, k <= sig_n(g),
      h.fld(s, 'signature') == c.old.fld(s, 'signature'),
      h.fld(s, '_var_positional_start') == z3.If(z3.And(vps >= 0, vps < k), VInt(vps), VNone),
      h.fld(s, 'has_var_keyword') == z3.If(z3.And(vk >= 0, vk < k), VBool(z3.BoolVal(True)), VNone))


contract(
    'signatures.SignatureInfo.__post_init__', F, 'SignatureInfo.__post_init__',
    requires=_pi_req,
    ensures=lambda c: z3.And(SigInfoInv(c.heap, c['self']),
                             c.heap.fld(ref(c['self']), 'signature')
                             == c.old.fld(ref(c['self']), 'signature')),
    writes=('_var_positional_start', 'has_var_keyword'), mod=lambda c: [ref(c['self'])],
    result='none', allocates=False,
    loops={0: Loop(_pi_inv, mod=lambda c: [ref(c['self'])],
                   fields=['_var_positional_start', 'has_var_keyword'])},
    props=('C01', 'C03'),
)


# --- SignatureInfo.get_default ----------------------------------------------------------
def _gd_req(c):
  a = c['argument']
  return z3.And(SigInfoInv(c.old, c['self']),
                z3.Or(is_VStr(a), z3.And(is_VInt(a), ival(a) >= 0)))


def _gd_post(c):
  g = sig_of(c.old, ref(c['self']))
  a, missing = c['argument'], c['missing']
  si = sig_idx(g, sval(a))
  by_name = z3.If(z3.And(si >= 0, sig_hasdef(g, si)), sig_dflt(g, si), missing)
  i = ival(a)
  by_pos = z3.If(z3.And(i < sig_npos(g), sig_hasdef(g, i)), sig_dflt(g, i), missing)
  return c.result == z3.If(is_VStr(a), by_name, by_pos)


contract(
    'signatures.SignatureInfo.get_default', F, 'SignatureInfo.get_default',
    requires=_gd_req, ensures=_gd_post, allocates=False,
    props=('C01', 'C06', 'C20'),
    note='default of the parameter named / positioned by the argument; never raises',
)


# --- SignatureInfo.validate_param_name --------------------------------------------------
def _vpn_req(c):
  return z3.And(SigInfoInv(c.old, c['self']), is_VStr(c['name']))


def _vpn_bad(c):
  g = sig_of(c.old, ref(c['self']))
  i = sig_idx(g, sval(c['name']))
  k = sig_kind(g, i)
  ok = z3.Or(z3.And(i >= 0, z3.Or(k == PK, k == KO)),
             z3.And(sig_vk(g) >= 0, z3.Or(i < 0, k == VK)))
  return z3.Not(ok)


contract(
    'signatures.SignatureInfo.validate_param_name', F, 'SignatureInfo.validate_param_name',
    requires=_vpn_req, raises={'AttributeError': _vpn_bad}, result='none', allocates=False,
    props=('C03',),
    note='returns iff the name is a PK/KO parameter, or **kwargs exists and the name is free',
)


# --- SignatureInfo.replace_varargs_handle -----------------------------------------------
def _rvh_req(c):
  h = c.old
  k = c['key']
  g = sig_of(h, ref(c['self']))
  is_slice = isref(h, k, 'slice')
  comp_ok = lambda x: z3.Or(is_VNone(x), is_VInt(x), z3.And(x == VARARGS, sig_vps(g) >= 0))
  return z3.And(
      SigInfoInv(h, c['self']),
      z3.Or(is_VInt(k), z3.And(k == VARARGS, sig_vps(g) >= 0),
            z3.And(is_slice, comp_ok(h.fld(ref(k), 'start')), comp_ok(h.fld(ref(k), 'stop')))))


def _rvh_post(c):
  h0, h = c.old, c.heap
  k, r = c['key'], c.result
  g = sig_of(h0, ref(c['self']))
  rep = lambda x: z3.If(x == VARARGS, vps_val(g), x)
  return z3.If(
      isref(h0, k, 'slice'),
      z3.And(isref(h, r, 'slice'),
             h.fld(ref(r), 'start') == rep(h0.fld(ref(k), 'start')),
             h.fld(ref(r), 'stop') == rep(h0.fld(ref(k), 'stop')),
             h.fld(ref(r), 'step') == h0.fld(ref(k), 'step')),
      r == rep(k))


contract(
    'signatures.SignatureInfo.replace_varargs_handle', F, 'SignatureInfo.replace_varargs_handle',
    requires=_rvh_req, ensures=_rvh_post, writes=('start', 'stop', 'step'), props=('C03',),
    note='VARARGS -> var_positional_start, other components untouched; no AssertionError',
)


# --- SignatureInfo._append_defaults -----------------------------------------------------
def _ad_req(c):
  h = c.old
  up, pv = c['unset_params'], c['positional_values']
  i = z3.Int('ad_i')
  return z3.And(isref(h, up, 'list'), isref(h, pv, 'list'), ref(up) != ref(pv),
                h.len(ref(up)) >= 0, h.len(ref(pv)) >= 0,
                FA([i], z3.Implies(
                    z3.And(0 <= i, i < h.len(ref(up))),
                    z3.And(is_VParam(h.elt(ref(up), i)),
                           # a default is never the `empty` sentinel (inspect.Parameter)
                           z3.Implies(sig_hasdef(psig(h.elt(ref(up), i)), pidx(h.elt(ref(up), i))),
                                      sig_dflt(psig(h.elt(ref(up), i)), pidx(h.elt(ref(up), i))) != EMPTY))),
                   patterns=[h.elt(ref(up), i)]))


def _ad_missing(c):
  """Some skipped parameter has no default."""
  h = c.old
  up = ref(c['unset_params'])
  i = z3.Int('ad_j')
  p = h.elt(up, i)
  return z3.Exists([i], z3.And(0 <= i, i < h.len(up), z3.Not(sig_hasdef(psig(p), pidx(p)))))


def _ad_post(c):
  h0, h = c.old, c.heap
  up, pv = ref(c['unset_params']), ref(c['positional_values'])
  i = z3.Int('ad_i')
  p = lambda x: h0.elt(up, x)
  n0 = h0.len(pv)
  return z3.And(
      h.len(up) == 0,
      h.len(pv) == n0 + h0.len(up),
      FA([i], z3.Implies(z3.And(0 <= i, i < n0), h.elt(pv, i) == h0.elt(pv, i)),
         patterns=[h.elt(pv, i)]),
      FA([i], z3.Implies(z3.And(n0 <= i, i < n0 + h0.len(up)),
                         h.elt(pv, i) == sig_dflt(psig(p(i - n0)), pidx(p(i - n0)))),
         patterns=[h.elt(pv, i)]))


def _ad_inv(c):
  h0, h = c.old, c.heap
  up, pv = ref(c['unset_params']), ref(c['positional_values'])
  i = z3.Int('ad_i')
  k = c.k
  p = lambda x: h0.elt(up, x)
  n0 = h0.len(pv)
  return z3.And(
      0 <= k, k <= h0.len(up),
      h.len(up) == h0.len(up), h.eltarr(up) == h0.eltarr(up),
      h.len(pv) == n0 + k,
      FA([i], z3.Implies(z3.And(0 <= i, i < n0), h.elt(pv, i) == h0.elt(pv, i)),
         patterns=[h.elt(pv, i)]),
      FA([i], z3.Implies(z3.And(0 <= i, i < k), sig_hasdef(psig(p(i)), pidx(p(i)))),
         patterns=[h0.elt(up, i)]),
      FA([i], z3.Implies(z3.And(n0 <= i, i < n0 + k),
                         h.elt(pv, i) == sig_dflt(psig(p(i - n0)), pidx(p(i - n0)))),
         patterns=[h.elt(pv, i)]))


contract(
    'signatures.SignatureInfo._append_defaults', F, 'SignatureInfo._append_defaults',
    requires=_ad_req, ensures=_ad_post, raises={'TypeError': _ad_missing},
    mod=lambda c: [ref(c['unset_params']), ref(c['positional_values'])],
    result='none', allocates=False,
    loops={0: Loop(_ad_inv, mod=lambda c: [ref(c['positional_values'])], fields=[])},
    props=('C01',),
    note='appends the defaults of the skipped parameters in order and clears the list; '
         'TypeError iff one of them has no default',
)


# --- SignatureInfo.transform_to_args_kwargs ---------------------------------------------
# ls(k): one past the last *set* positional slot among the first k parameters
tak_ls = z3.Function('tak_ls', I, HasArr, I, I, I)


def _tak_terms(c):
  h0 = c.old
  g = sig_of(h0, ref(c['self']))
  a0 = ref(c['arguments'])
  has0, val0 = h0.hasarr(a0), h0.valarr(a0)
  P = bval(c['include_pos_or_kw_in_args'])
  Nv = bval(c['include_no_value'])
  return g, has0, val0, P, Nv


def tak_vpset(g, has0):
  return z3.And(sig_vps(g) >= 0, has0[IK(sig_vps(g))])


def tak_pos_end(g, has0, P):
  """Positional slots are the parameters [0, pos_end): all PO, and the PK ones if asked for
  or if *args are present."""
  return z3.If(z3.Or(P, tak_vpset(g, has0)), sig_npos(g), sig_npo(g))


def tak_ls_unfold(g, has0, P, i):
  pe = tak_pos_end(g, has0, P)
  ls = lambda x: tak_ls(g, has0, pe, x)
  return ls(i + 1) == z3.If(z3.And(i < pe, isset(g, has0, i)), i + 1, ls(i))


def tak_need_end(g, has0, P, Nv):
  pe = tak_pos_end(g, has0, P)
  return z3.If(Nv, pe, z3.If(tak_vpset(g, has0), sig_npos(g), tak_ls(g, has0, pe, sig_n(g))))


def tak_consumed(g, has0, P, key, k):
  pe = tak_pos_end(g, has0, P)
  i = ival(key)
  si = sig_idx(g, sval(key))
  return z3.Or(
      z3.And(is_VInt(key), 0 <= i, i < k, i < sig_npo(g)),
      z3.And(is_VStr(key), 0 <= si, si < k, sig_npo(g) <= si, si < pe))


def tak_valof(g, has0, val0, Nv, i):
  return z3.If(isset(g, has0, i), val0[poskey(g, i)],
               z3.If(Nv, default_or(g, i, NO_VALUE), sig_dflt(g, i)))


def tak_missing(g, has0, P, Nv):
  """Build mode: a slot that must be passed by position has neither value nor default."""
  i = z3.Int('tm_i')
  return z3.And(z3.Not(Nv), z3.Exists([i], z3.And(
      0 <= i, i < tak_need_end(g, has0, P, Nv), z3.Not(isset(g, has0, i)),
      z3.Not(sig_hasdef(g, i)))))


def _tak_req(c):
  h = c.old
  g = sig_of(h, ref(c['self']))
  return z3.And(SigInfoInv(h, c['self']), StoreInv(h, g, c['arguments']),
                is_VBool(c['include_pos_or_kw_in_args']), is_VBool(c['include_no_value']))


def _tak_recdefs(c):
  g, has0, val0, P, Nv = _tak_terms(c)
  pe = tak_pos_end(g, has0, P)
  return {'ls': (tak_ls(g, has0, pe, z3.IntVal(0)) == 0, lambda i: tak_ls_unfold(g, has0, P, i))}


def _tak_lemmas(c):
  g, has0, val0, P, Nv = _tak_terms(c)
  pe = tak_pos_end(g, has0, P)
  ls = lambda x: tak_ls(g, has0, pe, x)
  j = z3.Int('tl_j')
  mn = lambda x: z3.If(x < pe, x, pe)
  # 0 <= ls(k) <= min(k, pos_end); everything in [ls(k), min(k, pos_end)) is unset;
  # ls(k) = 0 or slot ls(k)-1 is set
  bounds = lambda k: z3.And(
      0 <= ls(k), ls(k) <= mn(k),
      z3.Or(ls(k) == 0, isset(g, has0, ls(k) - 1)),
      FA([j], z3.Implies(z3.And(ls(k) <= j, j < mn(k)), z3.Not(isset(g, has0, j)))))
  # beyond pos_end nothing changes
  tail = lambda k: z3.Implies(k >= pe, ls(k) == ls(pe))
  return [('ls_bounds', bounds, 0, ['ls']), ('ls_tail', tail, 0, ['ls'])]


def _tak_loop0_facts(c):
  k = c.k
  return [('unfold', 'ls', k), ('lemma', 'ls_bounds', k), ('lemma', 'ls_bounds', k + 1)]


def _tak_exit_facts(c):
  g = sig_of(c.old, ref(c['self']))
  n = sig_n(g)
  return [('lemma', 'ls_bounds', n), ('lemma', 'ls_tail', n)]


def _tak_common_inv(c, a, pv, pl=None, up=None):
  h = c.heap
  refs = [x for x in (a, pv, pl, up) if x is not None]
  conj = []
  for x in refs:
    conj += [x >= c.old.alloc, x < h.alloc]
  for i1 in range(len(refs)):
    for i2 in range(i1 + 1, len(refs)):
      conj.append(refs[i1] != refs[i2])
  return conj


def _tak_inv1(c):
  g, has0, val0, P, Nv = _tak_terms(c)
  h = c.heap
  k = c.k
  a, pv, pl, up = (ref(c.v('arguments')), ref(c.v('positional_values')), ref(c.v('parameters')),
                   ref(c.v('unset_params')))
  key = z3.Const('ti_key', Val)
  i = z3.Int('ti_i')
  pe = tak_pos_end(g, has0, P)
  ls = tak_ls(g, has0, pe, k)
  ke = z3.If(k < pe, k, pe)
  filled = z3.If(Nv, ke, ls)        # slots already in positional_values
  return z3.And(
      0 <= k, k <= sig_n(g),
      is_VRef(c.v('arguments')), is_VRef(c.v('positional_values')), is_VRef(c.v('parameters')),
      is_VRef(c.v('unset_params')),
      *_tak_common_inv(c, a, pv, pl, up),
      cls_is(h.cls(a), 'dict'), cls_is(h.cls(pv), 'list'), cls_is(h.cls(pl), 'list'),
      cls_is(h.cls(up), 'list'),
      h.len(pl) == sig_n(g),
      FA([i], z3.Implies(z3.And(0 <= i, i < sig_n(g)), h.elt(pl, i) == VParam(g, i)),
         patterns=[h.elt(pl, i)]),
      FA([key], h.has(a, key) == z3.And(has0[key], z3.Not(tak_consumed(g, has0, P, key, k))),
         patterns=[h.has(a, key)]),
      h.valarr(a) == val0,
      h.len(pv) == filled,
      FA([i], z3.Implies(z3.And(0 <= i, i < filled),
                         z3.And(h.elt(pv, i) == tak_valof(g, has0, val0, Nv, i),
                                z3.Or(Nv, isset(g, has0, i), sig_hasdef(g, i)))),
         patterns=[h.elt(pv, i), sig_hasdef(g, i)]),
      # the skipped (unset) slots, in order
      h.len(up) == z3.If(Nv, 0, ke - ls),
      FA([i], z3.Implies(z3.And(0 <= i, i < h.len(up)), h.elt(up, i) == VParam(g, ls + i)),
         patterns=[h.elt(up, i)]))


def _tak_inv2(c):
  g, has0, val0, P, Nv = _tak_terms(c)
  h = c.heap
  m = c.k
  a, pv = ref(c.v('arguments')), ref(c.v('positional_values'))
  key = z3.Const('ti_key', Val)
  i, j = z3.Ints('ti_i ti_j')
  n = sig_n(g)
  vps = sig_vps(g)
  ne = tak_need_end(g, has0, P, Nv)
  return z3.And(
      m >= 0, vps >= 0, c.v('index') == VInt(vps + m), m <= store_nvar(g, has0),
      z3.Or(m == 0, tak_vpset(g, has0)),
      is_VRef(c.v('arguments')), is_VRef(c.v('positional_values')),
      *_tak_common_inv(c, a, pv),
      cls_is(h.cls(a), 'dict'), cls_is(h.cls(pv), 'list'),
      FA([key], h.has(a, key) == z3.And(
          has0[key], z3.Not(tak_consumed(g, has0, P, key, n)),
          z3.Not(z3.And(is_VInt(key), vps <= ival(key), ival(key) < vps + m))),
         patterns=[h.has(a, key)]),
      h.valarr(a) == val0,
      h.len(pv) == ne + m,
      FA([i], z3.Implies(z3.And(0 <= i, i < ne),
                         z3.And(h.elt(pv, i) == tak_valof(g, has0, val0, Nv, i),
                                z3.Or(Nv, isset(g, has0, i), sig_hasdef(g, i)))),
         patterns=[h.elt(pv, i), sig_hasdef(g, i)]),
      FA([j], z3.Implies(z3.And(vps <= j, j < vps + m), has0[IK(j)]), patterns=[has0[IK(j)]]),
      FA([j], z3.Implies(z3.And(ne <= j, j < ne + m), h.elt(pv, j) == val0[IK(j - ne + vps)]),
         patterns=[h.elt(pv, j)]))


def TakPost(c, g, has0, val0, P, Nv, L, K):
  """result = (L, K): fresh list / dict with the contents Appendix D prescribes."""
  h = c.heap
  l, kd = ref(L), ref(K)
  key = z3.Const('tp_key', Val)
  i, j = z3.Ints('tp_i tp_j')
  n = sig_n(g)
  npos = sig_npos(g)
  nvar = store_nvar(g, has0)
  vps = sig_vps(g)
  ne = tak_need_end(g, has0, P, Nv)
  return z3.And(
      is_VRef(L), is_VRef(K), l >= c.old.alloc, kd >= c.old.alloc, l != kd,
      cls_is(h.cls(l), 'list'), cls_is(h.cls(kd), 'dict'),
      0 <= ne, ne <= npos,
      h.len(l) == ne + nvar,
      # slot i is bound by position i: its stored value, else its default
      FA([i], z3.Implies(z3.And(0 <= i, i < ne), h.elt(l, i) == tak_valof(g, has0, val0, Nv, i)),
         patterns=[h.elt(l, i)]),
      FA([j], z3.Implies(z3.And(ne <= j, j < ne + nvar), h.elt(l, j) == val0[IK(j - ne + vps)]),
         patterns=[h.elt(l, j)]),
      # no positional slot at or beyond need_end carries a value (nothing is dropped)
      FA([i], z3.Implies(z3.And(ne <= i, i < tak_pos_end(g, has0, P)), z3.Not(isset(g, has0, i)))),
      z3.Implies(nvar > 0, ne == npos),
      FA([key], h.has(kd, key) == z3.And(
          has0[key], z3.Not(tak_consumed(g, has0, P, key, n)),
          z3.Not(z3.And(is_VInt(key), vps >= 0, vps <= ival(key)))),
         patterns=[h.has(kd, key)]),
      h.valarr(kd) == val0,
      # corollary used by every indexing method: with both flags the list is the full view
      z3.Implies(z3.And(P, Nv), z3.And(
          h.len(l) == npos + nvar,
          FA([i], z3.Implies(z3.And(0 <= i, i < npos + nvar),
                             h.elt(l, i) == Lf(g, has0, val0, i)),
             patterns=[h.elt(l, i)]))))


def _tak_post(c):
  g, has0, val0, P, Nv = _tak_terms(c)
  return TakPost(c, g, has0, val0, P, Nv, c.res(0), c.res(1))


def _tak_raises(c):
  g, has0, val0, P, Nv = _tak_terms(c)
  return tak_missing(g, has0, P, Nv)


contract(
    'signatures.SignatureInfo.transform_to_args_kwargs', F,
    'SignatureInfo.transform_to_args_kwargs',
    requires=_tak_req, ensures=_tak_post, result=('tuple', 2),
    raises={'TypeError': _tak_raises},
    lemmas=_tak_lemmas, recdefs=_tak_recdefs, facts=_tak_exit_facts,
    cases=lambda c: [bval(c['include_no_value']), bval(c['include_pos_or_kw_in_args']),
                     tak_vpset(sig_of(c.old, ref(c['self'])), c.old.hasarr(ref(c['arguments'])))],
    loops={0: Loop(_tak_inv1, mod=lambda c: [ref(c.v('arguments')), ref(c.v('positional_values')),
                                             ref(c.v('unset_params'))], fields=[],
                   facts=_tak_loop0_facts,
                   pivots=lambda c: [tak_ls(_tak_terms(c)[0], _tak_terms(c)[1],
                                            tak_pos_end(*[_tak_terms(c)[i] for i in (0, 1, 3)]), c.k),
                                     c.k]),
           1: Loop(_tak_inv2, mod=lambda c: [ref(c.v('arguments')), ref(c.v('positional_values'))],
                   fields=[], facts=_tak_exit_facts)},
    props=('C01', 'C03', 'C04', 'C17'),
    note='arguments unchanged (frame); (L, K) fresh; slot i of L is parameter i (value, else default); '
         'TypeError iff a slot that must be passed by position has neither value nor default',
)


# --- SignatureInfo.index_to_key ---------------------------------------------------------
def _itk_terms(c):
  h = c.old
  g = sig_of(h, ref(c['self']))
  a = ref(c['arguments'])
  L = Lfull(g, h.hasarr(a))
  idx = ival(c['index'])
  j = z3.If(idx < 0, idx + L, idx)
  return h, g, a, L, idx, j


def _itk_req(c):
  h, g, a, L, idx, j = _itk_terms(c)
  return z3.And(SigInfoInv(h, c['self']), StoreInv(h, g, c['arguments']), is_VInt(c['index']))


def _itk_post(c):
  h, g, a, L, idx, j = _itk_terms(c)
  return c.result == z3.If(z3.And(j < sig_n(g), sig_kind(g, j) == PK), VStr(sig_name(g, j)), VInt(j))


contract(
    'signatures.SignatureInfo.index_to_key', F, 'SignatureInfo.index_to_key',
    requires=_itk_req, ensures=_itk_post, props=('C03',),
    # the temporaries it allocates are unreachable garbage: callers see no allocation
    allocates=False,
    raises={'IndexError': lambda c: _itk_terms(c)[5] < 0},
    note='key of list position index (negative indices normalised by the full view length); '
         'IndexError iff the normalised index is still negative',
)
