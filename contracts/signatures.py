"""Sidecar contracts for fiddle/_src/signatures.py (DESIGN.md Appendix D)."""
import z3
from pyvc.sorts import *  # noqa
from pyvc.contract import contract, Loop
from pyvc.expr import ExprMixin
from contracts.common import *  # noqa

F = 'fiddle/_src/signatures.py'

# --- trivial accessors: inlined (their real body is executed at each use) -------------
contract('signatures.SignatureInfo.parameters', F, 'SignatureInfo.parameters', kind='inline')
contract('signatures.SignatureInfo.var_positional_start', F,
         'SignatureInfo.var_positional_start', kind='inline')
ExprMixin.PROPERTIES['parameters'] = ('SignatureInfo', 'signatures.SignatureInfo.parameters')
ExprMixin.PROPERTIES['var_positional_start'] = (
    'SignatureInfo', 'signatures.SignatureInfo.var_positional_start')


# --- SignatureInfo.__post_init__ --------------------------------------------------------
def _pi_req(c):
  h, s = c.old, ref(c['self'])
  return z3.And(isref(h, c['self'], 'SignatureInfo'),
                isref(h, h.fld(s, 'signature'), 'Signature'),
                WF(sig_of(h, s)),
                h.fld(s, 'has_var_keyword') == VNone)


def _pi_inv(c):
  h, s = c.heap, ref(c['self'])
  g = sig_of(c.old, s)
  k = c.k
  j = z3.Int('pi_j')
  vps, vk = sig_vps(g), sig_vk(g)
  return z3.And(
      0 <= k, k <= sig_n(g),
      h.fld(s, 'signature') == c.old.fld(s, 'signature'),
      h.fld(s, '_var_positional_start') == z3.If(z3.And(vps >= 0, vps < k), VInt(vps), VNone),
      h.fld(s, 'has_var_keyword') == z3.If(z3.And(vk >= 0, vk < k), VBool(z3.BoolVal(True)), VNone))


contract(
    'signatures.SignatureInfo.__post_init__', F, 'SignatureInfo.__post_init__',
    requires=_pi_req,
    ensures=lambda c: z3.And(SigInfoInv(c.heap, c['self']),
                             c.heap.fld(ref(c['self']), 'signature')
                             == c.old.fld(ref(c['self']), 'signature')),
    writes=('_var_positional_start', 'has_var_keyword'),
    result='none', allocates=False,
    loops={0: Loop(_pi_inv, mod=lambda c: [], fields=['_var_positional_start', 'has_var_keyword'])},
    props=('C01', 'C03'),
)


# --- SignatureInfo.get_default ----------------------------------------------------------
def _gd_req(c):
  a = c['argument']
  return z3.And(SigInfoInv(c.old, c['self']),
                z3.Or(is_VStr(a), z3.And(is_VInt(a), ival(a) >= 0)))


def _gd_post(c):
  g = sig_of(c.old, ref(c['self']))
  a, missing = c['argument'], c['missing']
  si = sig_idx(g, sval(a))
  by_name = z3.If(z3.And(si >= 0, sig_hasdef(g, si)), sig_dflt(g, si), missing)
  i = ival(a)
  by_pos = z3.If(z3.And(i < sig_npos(g), sig_hasdef(g, i)), sig_dflt(g, i), missing)
  return c.result == z3.If(is_VStr(a), by_name, by_pos)


contract(
    'signatures.SignatureInfo.get_default', F, 'SignatureInfo.get_default',
    requires=_gd_req, ensures=_gd_post, allocates=True,
    props=('C01', 'C06', 'C20'),
    note='default of the parameter named / positioned by the argument; never raises',
)


# --- SignatureInfo.validate_param_name --------------------------------------------------
def _vpn_req(c):
  return z3.And(SigInfoInv(c.old, c['self']), is_VStr(c['name']))


def _vpn_bad(c):
  g = sig_of(c.old, ref(c['self']))
  i = sig_idx(g, sval(c['name']))
  k = sig_kind(g, i)
  ok = z3.Or(z3.And(i >= 0, z3.Or(k == PK, k == KO)),
             z3.And(sig_vk(g) >= 0, z3.Or(i < 0, k == VK)))
  return z3.Not(ok)


contract(
    'signatures.SignatureInfo.validate_param_name', F, 'SignatureInfo.validate_param_name',
    requires=_vpn_req, raises={'AttributeError': _vpn_bad}, result='none', allocates=False,
    props=('C03',),
    note='returns iff the name is a PK/KO parameter, or **kwargs exists and the name is free',
)


# --- SignatureInfo.replace_varargs_handle -----------------------------------------------
def _rvh_req(c):
  h = c.old
  k = c['key']
  g = sig_of(h, ref(c['self']))
  is_slice = isref(h, k, 'slice')
  comp_ok = lambda x: z3.Or(is_VNone(x), is_VInt(x), z3.And(x == VARARGS, sig_vps(g) >= 0))
  return z3.And(
      SigInfoInv(h, c['self']),
      z3.Or(is_VInt(k), z3.And(k == VARARGS, sig_vps(g) >= 0),
            z3.And(is_slice, comp_ok(h.fld(ref(k), 'start')), comp_ok(h.fld(ref(k), 'stop')))))


def _rvh_post(c):
  h0, h = c.old, c.heap
  k, r = c['key'], c.result
  g = sig_of(h0, ref(c['self']))
  rep = lambda x: z3.If(x == VARARGS, vps_val(g), x)
  return z3.If(
      isref(h0, k, 'slice'),
      z3.And(isref(h, r, 'slice'),
             h.fld(ref(r), 'start') == rep(h0.fld(ref(k), 'start')),
             h.fld(ref(r), 'stop') == rep(h0.fld(ref(k), 'stop')),
             h.fld(ref(r), 'step') == h0.fld(ref(k), 'step')),
      r == rep(k))


contract(
    'signatures.SignatureInfo.replace_varargs_handle', F, 'SignatureInfo.replace_varargs_handle',
    requires=_rvh_req, ensures=_rvh_post, writes=('start', 'stop', 'step'), props=('C03',),
    note='VARARGS -> var_positional_start, other components untouched; no AssertionError',
)


# --- SignatureInfo.transform_to_args_kwargs ---------------------------------------------
tak_cnt = z3.Function('tak_cnt', I, HasArr, B, B, I, I)


def _tak_terms(c):
  h0 = c.old
  g = sig_of(h0, ref(c['self']))
  a0 = ref(c['arguments'])
  has0, val0 = h0.hasarr(a0), h0.valarr(a0)
  P = bval(c['include_pos_or_kw_in_args'])
  Nv = bval(c['include_no_value'])
  return g, has0, val0, P, Nv


def tak_inc(g, has0, P, Nv, i):
  vpset = z3.And(sig_vps(g) >= 0, has0[IK(sig_vps(g))])
  k = sig_kind(g, i)
  return z3.And(0 <= i, i < sig_n(g),
                z3.Or(k == PO, z3.And(k == PK, z3.Or(P, vpset))),
                z3.Or(isset(g, has0, i), Nv))


def tak_consumed(g, has0, P, key, k):
  vpset = z3.And(sig_vps(g) >= 0, has0[IK(sig_vps(g))])
  i = ival(key)
  si = sig_idx(g, sval(key))
  return z3.Or(
      z3.And(is_VInt(key), 0 <= i, i < k, sig_kind(g, i) == PO),
      z3.And(is_VStr(key), 0 <= si, si < k, sig_kind(g, si) == PK, z3.Or(P, vpset)))


def tak_valof(g, has0, val0, i):
  return z3.If(isset(g, has0, i), val0[poskey(g, i)], default_or(g, i, NO_VALUE))


def tak_cnt_def(g, has0, P, Nv):
  i = z3.Int('tc_i')
  cnt = lambda x: tak_cnt(g, has0, P, Nv, x)
  return z3.And(
      cnt(z3.IntVal(0)) == 0,
      FA([i], z3.Implies(i >= 0, cnt(i + 1) == cnt(i) + z3.If(tak_inc(g, has0, P, Nv, i), 1, 0)),
                patterns=[cnt(i + 1)]))


def _tak_req(c):
  h = c.old
  g = sig_of(h, ref(c['self']))
  return z3.And(SigInfoInv(h, c['self']), StoreInv(h, g, c['arguments']),
                is_VBool(c['include_pos_or_kw_in_args']), is_VBool(c['include_no_value']))


def _tak_defs(c):
  g, has0, val0, P, Nv = _tak_terms(c)
  return tak_cnt_def(g, has0, P, Nv)


def _tak_lemmas(c):
  g, has0, val0, P, Nv = _tak_terms(c)
  cnt = lambda x: tak_cnt(g, has0, P, Nv, x)
  j = z3.Int('tl_j')
  # cnt is monotone and bounded by the index
  mono, mono_steps = induction(lambda i: z3.And(cnt(i) >= 0, cnt(i) <= i, cnt(i) <= cnt(i + 1)))
  ii = z3.Int('tl_ii')
  mono2, mono2_steps = induction(
      lambda jx: FA([ii], z3.Implies(z3.And(0 <= ii, ii <= jx), cnt(ii) <= cnt(jx)),
                    patterns=[z3.MultiPattern(cnt(ii), cnt(jx))]))
  # all parameters beyond npos contribute nothing
  tail, tail_steps = induction(lambda i: z3.Implies(i >= sig_npos(g), cnt(i) == cnt(sig_npos(g))))
  # with both flags on every positional slot is included: cnt(i) = i up to npos
  ident, ident_steps = induction(
      lambda i: z3.Implies(z3.And(P, Nv, i <= sig_npos(g)), cnt(i) == i),
      pats=lambda i: [cnt(i), sig_kind(g, i)])
  return [('cnt_mono', mono, mono_steps), ('cnt_mono2', mono2, mono2_steps), ('cnt_tail', tail, tail_steps),
          ('cnt_ident', ident, ident_steps)]


def _tak_inv1(c):
  g, has0, val0, P, Nv = _tak_terms(c)
  h = c.heap
  k = c.k
  a, pv, pl = ref(c.v('arguments')), ref(c.v('positional_values')), ref(c.v('parameters'))
  key = z3.Const('ti_key', Val)
  i = z3.Int('ti_i')
  cnt = lambda x: tak_cnt(g, has0, P, Nv, x)
  return z3.And(
      0 <= k, k <= sig_n(g),
      is_VRef(c.v('arguments')), is_VRef(c.v('positional_values')), is_VRef(c.v('parameters')),
      a >= c.old.alloc, pv >= c.old.alloc, pl >= c.old.alloc, a != pv, a != pl, pv != pl,
      a < h.alloc, pv < h.alloc, pl < h.alloc,
      cls_is(h.cls(a), 'dict'), cls_is(h.cls(pv), 'list'), cls_is(h.cls(pl), 'list'),
      h.len(pl) == sig_n(g),
      FA([i], z3.Implies(z3.And(0 <= i, i < sig_n(g)), h.elt(pl, i) == VParam(g, i)),
                patterns=[h.elt(pl, i)]),
      FA([key], h.has(a, key) == z3.And(has0[key], z3.Not(tak_consumed(g, has0, P, key, k))),
                patterns=[h.has(a, key)]),
      h.valarr(a) == val0,
      h.len(pv) == cnt(k),
      FA([i], z3.Implies(z3.And(0 <= i, i < k, tak_inc(g, has0, P, Nv, i)),
                                h.elt(pv, cnt(i)) == tak_valof(g, has0, val0, i)),
                patterns=[h.elt(pv, cnt(i)), sig_kind(g, i)]))


def _tak_inv2(c):
  g, has0, val0, P, Nv = _tak_terms(c)
  h = c.heap
  m = c.k
  a, pv = ref(c.v('arguments')), ref(c.v('positional_values'))
  key = z3.Const('ti_key', Val)
  i, j = z3.Ints('ti_i ti_j')
  n = sig_n(g)
  vps = sig_vps(g)
  cnt = lambda x: tak_cnt(g, has0, P, Nv, x)
  return z3.And(
      m >= 0, vps >= 0, c.v('index') == VInt(vps + m), m <= store_nvar(g, has0),
      is_VRef(c.v('arguments')), is_VRef(c.v('positional_values')),
      a >= c.old.alloc, pv >= c.old.alloc, a != pv, a < h.alloc, pv < h.alloc,
      cls_is(h.cls(a), 'dict'), cls_is(h.cls(pv), 'list'),
      FA([key], h.has(a, key) == z3.And(
          has0[key], z3.Not(tak_consumed(g, has0, P, key, n)),
          z3.Not(z3.And(is_VInt(key), vps <= ival(key), ival(key) < vps + m))),
                patterns=[h.has(a, key)]),
      h.valarr(a) == val0,
      h.len(pv) == cnt(n) + m,
      FA([i], z3.Implies(z3.And(0 <= i, i < n, tak_inc(g, has0, P, Nv, i)),
                                h.elt(pv, cnt(i)) == tak_valof(g, has0, val0, i)),
                patterns=[h.elt(pv, cnt(i)), sig_kind(g, i)]),
      FA([j], z3.Implies(z3.And(vps <= j, j < vps + m),
                         z3.And(has0[IK(j)], h.elt(pv, cnt(n) + j - vps) == val0[IK(j)])),
         patterns=[has0[IK(j)], val0[IK(j)]]))


def TakPost(c, g, has0, val0, P, Nv, L, K):
  """result = (L, K): fresh list / dict with the contents Appendix D prescribes."""
  h = c.heap
  l, kd = ref(L), ref(K)
  key = z3.Const('tp_key', Val)
  i, j = z3.Ints('tp_i tp_j')
  n = sig_n(g)
  npos = sig_npos(g)
  nvar = store_nvar(g, has0)
  vps = sig_vps(g)
  cnt = lambda x: tak_cnt(g, has0, P, Nv, x)
  return z3.And(
      is_VRef(L), is_VRef(K), l >= c.old.alloc, kd >= c.old.alloc, l != kd,
      cls_is(h.cls(l), 'list'), cls_is(h.cls(kd), 'dict'),
      h.len(l) == cnt(npos) + nvar,
      FA([i], z3.Implies(z3.And(0 <= i, i < npos, tak_inc(g, has0, P, Nv, i)),
                                h.elt(l, cnt(i)) == tak_valof(g, has0, val0, i)),
                patterns=[h.elt(l, cnt(i)), sig_kind(g, i)]),
      FA([j], z3.Implies(z3.And(vps <= j, j < vps + nvar),
                         h.elt(l, cnt(npos) + j - vps) == val0[IK(j)])),
      FA([key], h.has(kd, key) == z3.And(
          has0[key], z3.Not(tak_consumed(g, has0, P, key, n)),
          z3.Not(z3.And(is_VInt(key), vps >= 0, vps <= ival(key)))),
                patterns=[h.has(kd, key)]),
      h.valarr(kd) == val0,
      # corollary used by every indexing method: with both flags the list is the full view
      z3.Implies(z3.And(P, Nv), z3.And(
          h.len(l) == npos + nvar,
          FA([i], z3.Implies(z3.And(0 <= i, i < npos + nvar),
                                    h.elt(l, i) == Lf(g, has0, val0, i)),
                    patterns=[h.elt(l, i)]))))


def _tak_post(c):
  g, has0, val0, P, Nv = _tak_terms(c)
  return TakPost(c, g, has0, val0, P, Nv, c.res(0), c.res(1))


contract(
    'signatures.SignatureInfo.transform_to_args_kwargs', F,
    'SignatureInfo.transform_to_args_kwargs',
    requires=_tak_req, ensures=_tak_post, result=('tuple', 2),
    lemmas=_tak_lemmas, defs=_tak_defs,
    loops={0: Loop(_tak_inv1, mod=lambda c: [ref(c.v('arguments')), ref(c.v('positional_values'))],
                   fields=[]),
           1: Loop(_tak_inv2, mod=lambda c: [ref(c.v('arguments')), ref(c.v('positional_values'))],
                   fields=[])},
    props=('C01', 'C03', 'C04', 'C17'),
    note='arguments unchanged (frame); (L, K) fresh; contents per Appendix D',
)


# --- SignatureInfo.index_to_key ---------------------------------------------------------
def _itk_terms(c):
  h = c.old
  g = sig_of(h, ref(c['self']))
  a = ref(c['arguments'])
  L = Lfull(g, h.hasarr(a))
  idx = ival(c['index'])
  j = z3.If(idx < 0, idx + L, idx)
  return h, g, a, L, idx, j


def _itk_req(c):
  h, g, a, L, idx, j = _itk_terms(c)
  return z3.And(SigInfoInv(h, c['self']), StoreInv(h, g, c['arguments']), is_VInt(c['index']),
                j >= 0)


def _itk_post(c):
  h, g, a, L, idx, j = _itk_terms(c)
  return c.result == z3.If(z3.And(j < sig_n(g), sig_kind(g, j) == PK), VStr(sig_name(g, j)), VInt(j))


contract(
    'signatures.SignatureInfo.index_to_key', F, 'SignatureInfo.index_to_key',
    requires=_itk_req, ensures=_itk_post, props=('C03',),
    note='key of list position index (negative indices normalised by the full view length); '
         'requires the normalised index to be >= 0 (callers must reject the rest)',
)
