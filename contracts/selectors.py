"""Sidecar contracts for selectors.py and mutate_buildable.py (DESIGN §5 C15)."""
import z3
from pyvc.sorts import *  # noqa
from pyvc.contract import contract, Loop
from pyvc.state import TupleImm
from pyvc import contract as _C
from pyvc.calls import is_type_obj
from pyvc.expr import user_eq
from contracts.common import *  # noqa

FS = 'fiddle/_src/selectors.py'
FM = 'fiddle/_src/mutate_buildable.py'

instance_of = z3.Function('instance_of', Val, Val, B)       # isinstance(v, <type value>)
subclass_of = z3.Function('subclass_of', Val, Val, B)       # issubclass(<type value>, <type value>)

_C.MODULE_GLOBALS[FM] = {
    '_buildable_internals_keys': TupleImm([strlit(s) for s in (
        '__fn_or_cls__', '__arguments__', '__argument_tags__', '__argument_history__',
        '__signature_info__')]),
}
INTERNALS = ('__fn_or_cls__', '__arguments__', '__argument_tags__', '__argument_history__',
             '__signature_info__')

# isinstance / issubclass with *dynamic* type values are abstracted to pure predicates
contract('builtin.isinstance_dyn', FS, 'isinstance', abstract=True, params=['value', 'type'],
         ensures=lambda c: c.result == VBool(instance_of(c['value'], c['type'])), allocates=False,
         note='assumed: isinstance is a pure predicate of (value, type)')
contract('builtin.issubclass_dyn', FS, 'issubclass', abstract=True, params=['a', 'b'],
         ensures=lambda c: c.result == VBool(subclass_of(c['a'], c['b'])), allocates=False,
         note='assumed: issubclass is a pure predicate of (a, b) for type arguments')


def _is_type(v):
  return z3.And(is_VRef(v), is_type_obj(ref(v)))


def _m_req(c):
  h = c.old
  s = ref(c['self'])
  # `node` is ANY value: __iter__ and replace() call _matches on every value of the DAG (lists,
  # leaves, ...), so nothing is required of it except what the annotation
  # `buildable_type: Type[Buildable]` says: an instance of buildable_type is a Buildable.
  return z3.And(is_VRef(c['self']), z3.Not(cls_in(h.cls(s), 'Buildable')),
                is_VBool(h.fld(s, 'match_subclasses')),
                z3.Or(is_VNone(h.fld(s, 'fn_or_cls')), is_VRef(h.fld(s, 'fn_or_cls'))),
                z3.Implies(instance_of(c['node'], h.fld(s, 'buildable_type')), z3.And(
                    isref(h, c['node'], 'Buildable'),
                    is_VRef(h.fld(ref(c['node']), '__fn_or_cls__')),
                    # user values are never instances of Fiddle-private classes (DESIGN §7.4)
                    z3.Not(cls_is(h.cls(ref(h.fld(ref(c['node']), '__fn_or_cls__'))),
                                  '_Placeholder')))))


def _m_post(c):
  h = c.old
  s = ref(c['self'])
  node = c['node']
  f = h.fld(s, 'fn_or_cls')
  callable_ = h.fld(ref(node), '__fn_or_cls__')
  same = z3.Or(ref(f) == ref(callable_), user_eq(ref(f), ref(callable_)))
  sub = z3.And(bval(h.fld(s, 'match_subclasses')), _is_type(f), _is_type(callable_),
               subclass_of(callable_, f))
  want = z3.And(instance_of(node, h.fld(s, 'buildable_type')),
                z3.Or(is_VNone(f), same, sub))
  return c.result == VBool(want)


contract(
    'selectors.NodeSelection._matches', FS, 'NodeSelection._matches',
    requires=_m_req, ensures=_m_post, allocates=False,
    calls={'isinstance': 'builtin.isinstance_dyn', 'issubclass': 'builtin.issubclass_dyn'},
    props=('C15',),
    note='True iff the node is an instance of buildable_type and (no callable filter, or the '
         'callables are equal, or subclass matching is on and both are classes and the node\'s '
         'callable is a subclass); nothing is modified',
)


# --- mutate_buildable.move_buildable_internals ---------------------------------------------------
def _mbi_req(c):
  h = c.old
  return z3.And(isref(h, c['source'], 'Buildable'), isref(h, c['destination'], 'Buildable'))


def _mbi_post(c):
  h0, h = c.old, c.heap
  src, dst = ref(c['source']), ref(c['destination'])
  return z3.And(*[h.fld(dst, f) == h0.fld(src, f) for f in INTERNALS])


contract(
    'mutate_buildable.move_buildable_internals', FM, 'move_buildable_internals',
    requires=_mbi_req, ensures=_mbi_post,
    raises={'TypeError': lambda c: c.old.cls(ref(c['source'])) != c.old.cls(ref(c['destination']))},
    mod=lambda c: [ref(c['destination'])], writes=INTERNALS, result='none', allocates=False,
    props=('C15', 'C20'),
    note='the five internals of destination become those of source (aliasing), nothing else '
         'changes; exact type mismatch -> TypeError and nothing changes',
)
