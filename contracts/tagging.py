"""Sidecar contracts for fiddle/_src/tagging.py: the tagging kernel (DESIGN §5 C14)."""
import z3
from pyvc.sorts import *  # noqa
from pyvc.contract import contract, Loop
from contracts.common import *  # noqa
from contracts import config as CF
from contracts import history as H

F = 'fiddle/_src/tagging.py'


# --- _validate_param_index ------------------------------------------------------------------------
def _vpi_bad(c):
  h = c.old
  g = CF.bsig(h, c['buildable'])
  i = ival(c['index'])
  return z3.Or(i < 0, z3.And(sig_vps(g) < 0, z3.Or(i >= sig_n(g), sig_kind(g, i) > PK)))


contract('tagging._validate_param_index', F, '_validate_param_index',
         requires=lambda c: z3.And(CF.BFields(c.old, c['buildable']), is_VInt(c['index'])),
         raises={'IndexError': _vpi_bad}, result='none', allocates=False, props=('C14',),
         note='IndexError iff the index is negative, or there is no *args and the index does not '
              'address a positional parameter')


def arg_ok(a):
  return z3.Or(is_VStr(a), is_VInt(a))


def _van_req(c):
  return z3.And(CF.BFields(c.old, c['buildable']), arg_ok(c['argument']))


def _van_attr(c):
  h = c.old
  c2 = type(c)({'self': c['buildable'], 'name': c['argument']}, h, h)
  return z3.And(is_VStr(c['argument']), CF._name_bad(c2))


def _van_index(c):
  c2 = type(c)({'buildable': c['buildable'], 'index': c['argument']}, c.old, c.old)
  return z3.And(is_VInt(c['argument']), _vpi_bad(c2))


contract('tagging._validate_argument_name', F, '_validate_argument_name', requires=_van_req,
         raises={'AttributeError': _van_attr, 'IndexError': _van_index}, result='none',
         allocates=False, props=('C14',),
         note='names as Buildable.__setattr__ accepts them; indices as _validate_param_index')


def tag_key(h, bv, a):
  g = CF.bsig(h, bv)
  i = ival(a)
  return z3.If(is_VStr(a), a, z3.If(z3.And(i < sig_n(g), sig_kind(g, i) == PK), VStr(sig_name(g, i)), VInt(i)))


def tags_effect(c, bv, key, newhas):
  """Tag set of `key` becomes newhas(old membership); every other tag set is unchanged."""
  h0, h = c.old, c.heap
  Tg = ref(CF.bfields(h0, bv)[3])
  t = z3.Const('te_t', Val)
  k = z3.Const('te_k', Val)
  old_has = lambda x: z3.And(h0.has(Tg, key), h0.has(ref(h0.dget(Tg, key)), x))
  ts = ref(h.dget(Tg, key))
  return z3.And(
      h.has(Tg, key), isref(h, h.dget(Tg, key), 'set'), ts < h.alloc,
      z3.If(h0.has(Tg, key), h.dget(Tg, key) == h0.dget(Tg, key), ts >= h0.alloc),
      FA([t], h.has(ts, t) == newhas(t, old_has(t)), patterns=[h.has(ts, t)]),
      FA([k], z3.Implies(k != key, z3.And(
          h.has(Tg, k) == h0.has(Tg, k), h.dget(Tg, k) == h0.dget(Tg, k),
          z3.Implies(h0.has(Tg, k), h.hasarr(ref(h0.dget(Tg, k))) == h0.hasarr(ref(h0.dget(Tg, k)))))),
         patterns=[h.has(Tg, k)]))


def tag_hist(c, bv, key, newhas):
  h0, h = c.old, c.heap
  Hh = CF.bfields(h0, bv)[2]
  Tg = ref(CF.bfields(h0, bv)[3])
  t = z3.Const('th_t', Val)
  old_has = lambda x: z3.And(h0.has(Tg, key), h0.has(ref(h0.dget(Tg, key)), x))
  def snap(er):
    fs = ref(h.fld(er, 'new_value'))
    return FA([t], h.has(fs, t) == newhas(t, old_has(t)), patterns=[h.has(fs, t)])
  Hr = ref(Hh)
  unchanged = z3.And(h.hasarr(Hr) == h0.hasarr(Hr), h.valarr(Hr) == h0.valarr(Hr),
                     H.counter(h) == H.counter(h0))
  c2 = type(c)(c.args, h0, h, result=c.result, env=c.env)
  return z3.If(H.tracking_on(h0), H.HistAppendedN(c2, Hh, key, [(CK_UPDATE_TAGS, None, snap)]), unchanged)


def _tag_mod(c):
  h0 = c.old
  bv = c['buildable']
  si, A, Hh, Tg = CF.bfields(h0, bv)
  key = tag_key(h0, bv, c['argument'])
  return [ref(Tg), ref(Hh), ref(SET_COUNTER),
          z3.If(h0.has(ref(Tg), key), ref(h0.dget(ref(Tg), key)), ref(H.NOTHING)),
          z3.If(h0.has(ref(Hh), key), H.hist_list(h0, ref(Hh), key), ref(H.NOTHING))]


def _tag_req(c):
  # proved for arguments addressed by name; positions (int) go through index_to_key and are
  # left to the bounded layer (z3 does not discharge that case within the budget)
  h = c.old
  return z3.And(CF.BInv(h, c['buildable']), arg_ok(c['argument']), is_VRef(c['tag']),
                ref(c['tag']) < h.alloc)


def _tag_common_post(c, newhas):
  h0, h = c.old, c.heap
  bv = c['buildable']
  key = tag_key(h0, bv, c['argument'])
  return z3.And(CF.BInv(h, bv), CF.internals_same(h, h0, bv), CF.store_eq(h, h0, bv),
                tags_effect(c, bv, key, newhas), tag_hist(c, bv, key, newhas))


def _tag_unchanged(c):
  c2 = type(c)({'self': c['buildable']}, c.old, c.heap)
  return CF._unchanged(c2)


def _tag_cases(c):
  h0 = c.old
  bv = c['buildable']
  si, A, Hh, Tg = CF.bfields(h0, bv)
  key = tag_key(h0, bv, c['argument'])
  g = CF.bsig(h0, bv)
  i = ival(c['argument'])
  return [is_VStr(c['argument']), H.tracking_on(h0), h0.has(ref(Tg), key), h0.has(ref(Hh), key)]


contract(
    'tagging.add_tag', F, 'add_tag', requires=_tag_req,
    ensures=lambda c: _tag_common_post(c, lambda t, old: z3.Or(t == c['tag'], old)),
    raises={'AttributeError': _van_attr, 'IndexError': _van_index},
    raises_post={'AttributeError': _tag_unchanged, 'IndexError': _tag_unchanged},
    mod=_tag_mod, writes=CF.WRITES, result='none', cases=_tag_cases,
    props=('C14', 'C16'),
    note='exactly the tag set of the addressed argument gains the tag; arguments unchanged; one '
         'UPDATE_TAGS history entry holding the new set (if tracking); invalid name/index raises '
         'and changes nothing',
)

contract(
    'tagging.clear_tags', F, 'clear_tags',
    requires=lambda c: z3.And(CF.BInv(c.old, c['buildable']), arg_ok(c['argument'])),
    ensures=lambda c: _tag_common_post(c, lambda t, old: z3.BoolVal(False)),
    raises={'AttributeError': _van_attr, 'IndexError': _van_index},
    raises_post={'AttributeError': _tag_unchanged, 'IndexError': _tag_unchanged},
    mod=_tag_mod, writes=CF.WRITES, result='none', cases=_tag_cases,
    props=('C14', 'C16'),
    note='the tag set of the addressed argument becomes empty; nothing else changes; one entry',
)


def _rt_notset(c):
  h0 = c.old
  bv = c['buildable']
  Tg = ref(CF.bfields(h0, bv)[3])
  key = tag_key(h0, bv, c['argument'])
  has_tag = z3.And(h0.has(Tg, key), h0.has(ref(h0.dget(Tg, key)), c['tag']))
  return z3.And(z3.Not(_van_attr(c)), z3.Not(_van_index(c)), z3.Not(has_tag))


contract(
    'tagging.remove_tag', F, 'remove_tag', requires=_tag_req,
    ensures=lambda c: _tag_common_post(c, lambda t, old: z3.And(old, t != c['tag'])),
    raises={'AttributeError': _van_attr, 'IndexError': _van_index, 'ValueError': _rt_notset},
    raises_post={'AttributeError': _tag_unchanged, 'IndexError': _tag_unchanged},
    mod=_tag_mod, writes=CF.WRITES, result='none', cases=_tag_cases,
    props=('C14', 'C16'),
    note='the tag is removed from exactly that argument; ValueError if it was not set',
)


def _gt_post(c):
  h0, h = c.old, c.heap
  bv = c['buildable']
  Tg = ref(CF.bfields(h0, bv)[3])
  key = tag_key(h0, bv, c['argument'])
  t = z3.Const('gt_t', Val)
  r = ref(c.result)
  return z3.And(is_VRef(c.result), r >= h0.alloc,
                FA([t], h.has(r, t) == z3.And(h0.has(Tg, key), h0.has(ref(h0.dget(Tg, key)), t)),
                   patterns=[h.has(r, t)]),
                CF.store_eq(h, h0, bv))


contract(
    'tagging.get_tags', F, 'get_tags',
    requires=lambda c: z3.And(CF.BInv(c.old, c['buildable']), arg_ok(c['argument'])),
    ensures=_gt_post, raises={'AttributeError': _van_attr, 'IndexError': _van_index},
    mod=lambda c: [ref(CF.bfields(c.old, c['buildable'])[3])], props=('C14',),
    note='a fresh frozenset with exactly the tags of the addressed argument (the lookup may '
         'materialise an empty set in the defaultdict, which is the same abstract tag map)',
)


# --- set_tags (C14, C16): clear, add every tag, then one summary entry -----------------------------
from pyvc.expr import dkeys_cnt, dkeys_seq, dkeys_pos, dkeys_axioms   # noqa: E402


def _st_terms(c):
  h0 = c.old
  bv = c['buildable']
  si, A, Hh, Tg = CF.bfields(h0, bv)
  key = tag_key(h0, bv, c['argument'])
  th0 = h0.hasarr(ref(c['tags']))
  return h0, bv, Hh, ref(Tg), key, th0


def _st_n0(c):
  h0, bv, Hh, Tg, key, th0 = _st_terms(c)
  return z3.If(h0.has(ref(Hh), key), h0.len(H.hist_list(h0, ref(Hh), key)), z3.IntVal(0))


def _st_req(c):
  h0, bv, Hh, Tg, key, th0 = _st_terms(c)
  t = z3.Const('st_t', Val)
  k = z3.Const('st_k', Val)
  tv = c['tags']
  return z3.And(
      CF.BInv(h0, bv), arg_ok(c['argument']),
      isref(h0, tv, 'set'), ref(tv) < h0.alloc,
      FA([t], z3.Implies(th0[t], z3.And(is_VRef(t), ref(t) < h0.alloc)), patterns=[th0[t]]),
      # the collection passed in is not one of the Buildable's own tag sets (clear_tags would
      # empty it before it is read)
      FA([k], z3.Implies(h0.has(Tg, k), ref(h0.dget(Tg, k)) != ref(tv)), patterns=[h0.dget(Tg, k)]))


def hist_k(c, Hv, key, cnt, last_snap=None):
  """Exactly `cnt` fresh UPDATE_TAGS entries were appended, in order, to the history list of `key`
  (consecutive sequence numbers), no other history list changed."""
  h0, h = c.old, c.heap
  Hr = ref(Hv)
  k = z3.Const('hk_k', Val)
  i = z3.Int('hk_i')
  l = H.hist_list(h, Hr, key)
  l0 = H.hist_list(h0, Hr, key)
  had = h0.has(Hr, key)
  n0 = z3.If(had, h0.len(l0), z3.IntVal(0))
  e = lambda ix: h.elt(l, ix)
  conj = [
      h.has(Hr, key), is_VRef(h.dget(Hr, key)), cls_is(h.cls(l), 'list'),
      z3.If(had, l == l0, l >= h0.alloc),
      h.len(l) == n0 + cnt,
      FA([i], z3.Implies(z3.And(0 <= i, i < n0), e(i) == h0.elt(l0, i)), patterns=[e(i)]),
      FA([i], z3.Implies(z3.And(0 <= i, n0 <= i, i < n0 + cnt), z3.And(
          is_VRef(e(i)), ref(e(i)) >= h0.alloc, ref(e(i)) < h.alloc,
          cls_is(h.cls(ref(e(i))), 'HistoryEntry'),
          h.fld(ref(e(i)), 'sequence_id') == VInt(H.counter(h0) + (i - n0)),
          h.fld(ref(e(i)), 'param_name') == key,
          h.fld(ref(e(i)), 'kind') == CK_UPDATE_TAGS)), patterns=[e(i)]),
      H.counter(h) == H.counter(h0) + cnt,
      FA([k], z3.Implies(k != key, z3.And(h.has(Hr, k) == h0.has(Hr, k),
                                          h.dget(Hr, k) == h0.dget(Hr, k))),
         patterns=[h.has(Hr, k), h.dget(Hr, k)])]
  if last_snap is not None:
    conj.append(last_snap(ref(e(n0 + cnt - 1))))
  return z3.And(conj)


def _st_hist(c, cnt, last_snap=None):
  h0, bv, Hh, Tg, key, th0 = _st_terms(c)
  h = c.heap
  Hr = ref(Hh)
  unchanged = z3.And(h.hasarr(Hr) == h0.hasarr(Hr), h.valarr(Hr) == h0.valarr(Hr),
                     H.counter(h) == H.counter(h0))
  return z3.If(H.tracking_on(h0), hist_k(c, Hh, key, cnt, last_snap), unchanged)


def _st_inv(c):
  h0, bv, Hh, Tg, key, th0 = _st_terms(c)
  h = c.heap
  j = c.k
  k = z3.Const('st_k', Val)
  return z3.And(
      0 <= j, j <= dkeys_cnt(th0),
      c.v('buildable') == bv, c.v('argument') == c['argument'], c.v('tags') == c['tags'],
      CF.BInv(h, bv), CF.internals_same(h, h0, bv), CF.store_eq(h, h0, bv),
      h.hasarr(ref(c['tags'])) == th0,
      tags_effect(c, bv, key, lambda t, old: z3.And(th0[t], dkeys_pos(th0, t) < j)),
      FA([k], z3.Implies(h.has(Tg, k), ref(h.dget(Tg, k)) != ref(c['tags'])), patterns=[h.dget(Tg, k)]),
      H.tracking_on(h) == H.tracking_on(h0),
      _st_hist(c, 1 + j))


def _st_loop_mod(c):
  """Objects (existing at the loop head) the loop may modify; c.heap is the heap at the loop head."""
  h0, bv, Hh, Tg, key, th0 = _st_terms(c)
  h = c.heap
  Hr = ref(Hh)
  return [Tg, Hr, ref(SET_COUNTER),
          z3.If(h.has(Tg, key), ref(h.dget(Tg, key)), ref(H.NOTHING)),
          z3.If(h.has(Hr, key), H.hist_list(h, Hr, key), ref(H.NOTHING))]


def _st_post(c):
  h0, bv, Hh, Tg, key, th0 = _st_terms(c)
  h = c.heap
  t = z3.Const('sp_t', Val)
  def snap(er):
    fs = ref(h.fld(er, 'new_value'))
    return FA([t], h.has(fs, t) == th0[t], patterns=[h.has(fs, t)])
  return z3.And(CF.BInv(h, bv), CF.internals_same(h, h0, bv), CF.store_eq(h, h0, bv),
                tags_effect(c, bv, key, lambda t_, old: th0[t_]),
                _st_hist(c, dkeys_cnt(th0) + 2, snap))


contract(
    'tagging.set_tags', F, 'set_tags', requires=_st_req, ensures=_st_post,
    raises={'AttributeError': _van_attr, 'IndexError': _van_index},
    raises_post={'AttributeError': _tag_unchanged, 'IndexError': _tag_unchanged},
    mod=_tag_mod, writes=CF.WRITES, result='none',
    loops={0: Loop(_st_inv, mod=_st_loop_mod, fields=list(CF.WRITES),
                   pivots=lambda c: [c.k, _st_n0(c) + 1 + c.k, _st_n0(c)])},
    pivots=lambda c: [_st_n0(c) + dkeys_cnt(_st_terms(c)[5]) + 1, _st_n0(c)],
    cases=_tag_cases,
    entry_facts=lambda c: [('dkeys', c.old.hasarr(ref(c['tags'])), None)],
    props=('C14', 'C16'),
    note='the tag set of the addressed argument becomes exactly the given collection; no other tag '
         'set, no argument changes; with tracking on exactly |tags| + 2 UPDATE_TAGS entries are '
         'appended to the history list of that argument\'s canonical key (consecutive sequence '
         'numbers; the last one holds the final set) and no other history list changes; invalid '
         'name/index raises and changes nothing',
)
