"""Sidecar contracts for fiddle/_src/tagging.py: the tagging kernel (DESIGN §5 C14)."""
import z3
from pyvc.sorts import *  # noqa
from pyvc.contract import contract, Loop
from contracts.common import *  # noqa
from contracts import config as CF
from contracts import history as H

F = 'fiddle/_src/tagging.py'


# --- _validate_param_index ------------------------------------------------------------------------
def _vpi_bad(c):
  h = c.old
  g = CF.bsig(h, c['buildable'])
  i = ival(c['index'])
  return z3.Or(i < 0, z3.And(sig_vps(g) < 0, z3.Or(i >= sig_n(g), sig_kind(g, i) > PK)))


contract('tagging._validate_param_index', F, '_validate_param_index',
         requires=lambda c: z3.And(CF.BFields(c.old, c['buildable']), is_VInt(c['index'])),
         raises={'IndexError': _vpi_bad}, result='none', allocates=False, props=('C14',),
         note='IndexError iff the index is negative, or there is no *args and the index does not '
              'address a positional parameter')


def arg_ok(a):
  return z3.Or(is_VStr(a), is_VInt(a))


def _van_req(c):
  return z3.And(CF.BFields(c.old, c['buildable']), arg_ok(c['argument']))


def _van_attr(c):
  h = c.old
  c2 = type(c)({'self': c['buildable'], 'name': c['argument']}, h, h)
  return z3.And(is_VStr(c['argument']), CF._name_bad(c2))


def _van_index(c):
  c2 = type(c)({'buildable': c['buildable'], 'index': c['argument']}, c.old, c.old)
  return z3.And(is_VInt(c['argument']), _vpi_bad(c2))


contract('tagging._validate_argument_name', F, '_validate_argument_name', requires=_van_req,
         raises={'AttributeError': _van_attr, 'IndexError': _van_index}, result='none',
         allocates=False, props=('C14',),
         note='names as Buildable.__setattr__ accepts them; indices as _validate_param_index')


def tag_key(h, bv, a):
  g = CF.bsig(h, bv)
  i = ival(a)
  return z3.If(is_VStr(a), a, z3.If(z3.And(i < sig_n(g), sig_kind(g, i) == PK), VStr(sig_name(g, i)), VInt(i)))


def tags_effect(c, bv, key, newhas):
  """Tag set of `key` becomes newhas(old membership); every other tag set is unchanged."""
  h0, h = c.old, c.heap
  Tg = ref(CF.bfields(h0, bv)[3])
  t = z3.Const('te_t', Val)
  k = z3.Const('te_k', Val)
  old_has = lambda x: z3.And(h0.has(Tg, key), h0.has(ref(h0.dget(Tg, key)), x))
  ts = ref(h.dget(Tg, key))
  return z3.And(
      h.has(Tg, key), isref(h, h.dget(Tg, key), 'set'),
      z3.If(h0.has(Tg, key), h.dget(Tg, key) == h0.dget(Tg, key), ts >= h0.alloc),
      FA([t], h.has(ts, t) == newhas(t, old_has(t)), patterns=[h.has(ts, t)]),
      FA([k], z3.Implies(k != key, z3.And(
          h.has(Tg, k) == h0.has(Tg, k), h.dget(Tg, k) == h0.dget(Tg, k),
          z3.Implies(h0.has(Tg, k), h.hasarr(ref(h0.dget(Tg, k))) == h0.hasarr(ref(h0.dget(Tg, k)))))),
         patterns=[h.has(Tg, k)]))


def tag_hist(c, bv, key, newhas):
  h0, h = c.old, c.heap
  Hh = CF.bfields(h0, bv)[2]
  Tg = ref(CF.bfields(h0, bv)[3])
  t = z3.Const('th_t', Val)
  old_has = lambda x: z3.And(h0.has(Tg, key), h0.has(ref(h0.dget(Tg, key)), x))
  def snap(er):
    fs = ref(h.fld(er, 'new_value'))
    return FA([t], h.has(fs, t) == newhas(t, old_has(t)), patterns=[h.has(fs, t)])
  Hr = ref(Hh)
  unchanged = z3.And(h.hasarr(Hr) == h0.hasarr(Hr), h.valarr(Hr) == h0.valarr(Hr),
                     H.counter(h) == H.counter(h0))
  c2 = type(c)(c.args, h0, h, result=c.result, env=c.env)
  return z3.If(H.tracking_on(h0), H.HistAppendedN(c2, Hh, key, [(CK_UPDATE_TAGS, None, snap)]), unchanged)


def _tag_mod(c):
  h0 = c.old
  bv = c['buildable']
  si, A, Hh, Tg = CF.bfields(h0, bv)
  key = tag_key(h0, bv, c['argument'])
  return [ref(Tg), ref(Hh), ref(SET_COUNTER),
          z3.If(h0.has(ref(Tg), key), ref(h0.dget(ref(Tg), key)), ref(H.NOTHING)),
          z3.If(h0.has(ref(Hh), key), H.hist_list(h0, ref(Hh), key), ref(H.NOTHING))]


def _tag_req(c):
  # proved for arguments addressed by name; positions (int) go through index_to_key and are
  # left to the bounded layer (z3 does not discharge that case within the budget)
  h = c.old
  return z3.And(CF.BInv(h, c['buildable']), arg_ok(c['argument']), is_VRef(c['tag']),
                ref(c['tag']) < h.alloc)


def _tag_common_post(c, newhas):
  h0, h = c.old, c.heap
  bv = c['buildable']
  key = tag_key(h0, bv, c['argument'])
  return z3.And(CF.BInv(h, bv), CF.internals_same(h, h0, bv), CF.store_eq(h, h0, bv),
                tags_effect(c, bv, key, newhas), tag_hist(c, bv, key, newhas))


def _tag_unchanged(c):
  c2 = type(c)({'self': c['buildable']}, c.old, c.heap)
  return CF._unchanged(c2)


def _tag_cases(c):
  h0 = c.old
  bv = c['buildable']
  si, A, Hh, Tg = CF.bfields(h0, bv)
  key = tag_key(h0, bv, c['argument'])
  g = CF.bsig(h0, bv)
  i = ival(c['argument'])
  return [is_VStr(c['argument']), H.tracking_on(h0), h0.has(ref(Tg), key), h0.has(ref(Hh), key)]


contract(
    'tagging.add_tag', F, 'add_tag', requires=_tag_req,
    ensures=lambda c: _tag_common_post(c, lambda t, old: z3.Or(t == c['tag'], old)),
    raises={'AttributeError': _van_attr, 'IndexError': _van_index},
    raises_post={'AttributeError': _tag_unchanged, 'IndexError': _tag_unchanged},
    mod=_tag_mod, writes=CF.WRITES, result='none', cases=_tag_cases,
    props=('C14', 'C16'),
    note='exactly the tag set of the addressed argument gains the tag; arguments unchanged; one '
         'UPDATE_TAGS history entry holding the new set (if tracking); invalid name/index raises '
         'and changes nothing',
)

contract(
    'tagging.clear_tags', F, 'clear_tags',
    requires=lambda c: z3.And(CF.BInv(c.old, c['buildable']), arg_ok(c['argument'])),
    ensures=lambda c: _tag_common_post(c, lambda t, old: z3.BoolVal(False)),
    raises={'AttributeError': _van_attr, 'IndexError': _van_index},
    raises_post={'AttributeError': _tag_unchanged, 'IndexError': _tag_unchanged},
    mod=_tag_mod, writes=CF.WRITES, result='none', cases=_tag_cases,
    props=('C14', 'C16'),
    note='the tag set of the addressed argument becomes empty; nothing else changes; one entry',
)


def _rt_notset(c):
  h0 = c.old
  bv = c['buildable']
  Tg = ref(CF.bfields(h0, bv)[3])
  key = tag_key(h0, bv, c['argument'])
  has_tag = z3.And(h0.has(Tg, key), h0.has(ref(h0.dget(Tg, key)), c['tag']))
  return z3.And(z3.Not(_van_attr(c)), z3.Not(_van_index(c)), z3.Not(has_tag))


contract(
    'tagging.remove_tag', F, 'remove_tag', requires=_tag_req,
    ensures=lambda c: _tag_common_post(c, lambda t, old: z3.And(old, t != c['tag'])),
    raises={'AttributeError': _van_attr, 'IndexError': _van_index, 'ValueError': _rt_notset},
    raises_post={'AttributeError': _tag_unchanged, 'IndexError': _tag_unchanged},
    mod=_tag_mod, writes=CF.WRITES, result='none', cases=_tag_cases,
    props=('C14', 'C16'),
    note='the tag is removed from exactly that argument; ValueError if it was not set',
)


def _gt_post(c):
  h0, h = c.old, c.heap
  bv = c['buildable']
  Tg = ref(CF.bfields(h0, bv)[3])
  key = tag_key(h0, bv, c['argument'])
  t = z3.Const('gt_t', Val)
  r = ref(c.result)
  return z3.And(is_VRef(c.result), r >= h0.alloc,
                FA([t], h.has(r, t) == z3.And(h0.has(Tg, key), h0.has(ref(h0.dget(Tg, key)), t)),
                   patterns=[h.has(r, t)]),
                CF.store_eq(h, h0, bv))


contract(
    'tagging.get_tags', F, 'get_tags',
    requires=lambda c: z3.And(CF.BInv(c.old, c['buildable']), arg_ok(c['argument'])),
    ensures=_gt_post, raises={'AttributeError': _van_attr, 'IndexError': _van_index},
    mod=lambda c: [ref(CF.bfields(c.old, c['buildable'])[3])], props=('C14',),
    note='a fresh frozenset with exactly the tags of the addressed argument (the lookup may '
         'materialise an empty set in the defaultdict, which is the same abstract tag map)',
)
