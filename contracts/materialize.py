"""Sidecar contract for fiddle/_src/materialize.py (DESIGN §5 C20)."""
import z3
from pyvc.sorts import *  # noqa
from pyvc.contract import contract, Loop
from pyvc.calls import is_dataclass_val
from contracts.common import *  # noqa
from contracts import config as CF
from contracts import history as H

F = 'fiddle/_src/materialize.py'
FC = 'fiddle/_src/config.py'
uses_factory = z3.Function('uses_factory', Val, I, B)     # dataclass field <name id> has a default_factory

contract('config._field_uses_default_factory', FC, '_field_uses_default_factory', abstract=True,
         params=['dataclass_type', 'field_name'],
         ensures=lambda c: c.result == VBool(uses_factory(c['dataclass_type'], sval(c['field_name']))),
         allocates=False, note='assumed: pure predicate over dataclasses.fields()')


def _node_same(c):
  """The abstract children traversal does not touch this node's own internals."""
  h0, h = c.old, c.heap
  node = c.caller['node']
  isb = isref(h0, node, 'Buildable')
  return z3.Implies(isb, z3.And(CF.BInv(h, node), CF.internals_same(h, h0, node), CF.store_eq(h, h0, node)))


contract('daglish.State.yield_map_child_values', 'fiddle/_src/daglish.py', 'State.yield_map_child_values',
         abstract=True, params=['self', 'value', 'ignore_leaves'],
         defaults={'ignore_leaves': VBool(z3.BoolVal(False))},
         ensures=_node_same, may_raise=('BaseException',), havoc_all=True, result='iter',
         note='assumed: traversing the children (memoized, acyclic) does not modify the argument store '
              'of the node being visited; it may do anything else')


def _mt_terms(c):
  h0 = c.old
  node = c['node']
  g = CF.bsig(h0, node)
  A = ref(CF.bfields(h0, node)[1])
  return h0, node, g, A, h0.hasarr(A), h0.valarr(A)


def eligible(c, g, i):
  h0 = c.old
  fn = h0.fld(ref(c['node']), '__fn_or_cls__')
  return z3.And(0 <= i, i < sig_n(g), sig_hasdef(g, i),
                z3.Not(z3.And(is_dataclass_val(fn), uses_factory(fn, sig_name(g, i)))))


def materialized(c, g, key, upto):
  """key is the canonical key of an eligible parameter with index < upto."""
  i = ival(key)
  si = sig_idx(g, sval(key))
  return z3.Or(z3.And(is_VInt(key), i < upto, sig_kind(g, i) == PO, eligible(c, g, i)),
               z3.And(is_VStr(key), si >= 0, si < upto,
                      z3.Or(sig_kind(g, si) == PK, sig_kind(g, si) == KO), eligible(c, g, si)))


def key_index(g, key):
  return z3.If(is_VInt(key), ival(key), sig_idx(g, sval(key)))


def _store_after(c, upto, h=None):
  h0, node, g, A, has0, val0 = _mt_terms(c)
  h = h or c.heap
  k = z3.Const('mt_k', Val)
  return z3.And(
      FA([k], h.has(A, k) == z3.Or(has0[k], materialized(c, g, k, upto)), patterns=[h.has(A, k)]),
      FA([k], z3.Implies(h.has(A, k),
                         h.dget(A, k) == z3.If(has0[k], val0[k], sig_dflt(g, key_index(g, k)))),
         patterns=[h.dget(A, k)]))


def _mt_req(c):
  h = c.old
  node = c['node']
  g = CF.bsig(h, node)
  i = z3.Int('mt_i')
  return z3.And(isref(h, c['state'], 'State'), z3.Implies(isref(h, node, 'Buildable'), z3.And(
      CF.BInv(h, node),
      # defaults are plain values (a TaggedValue default would be expanded by the assignment)
      FA([i], z3.Not(isref(h, sig_dflt(g, i), 'TaggedValueCls')), patterns=[sig_dflt(g, i)]))))


def _mt_inv(c):
  h0, node, g, A, has0, val0 = _mt_terms(c)
  h = c.heap
  return z3.And(0 <= c.k, c.k <= sig_n(g), c.v('node') == node, c.v('state') == c['state'],
                isref(h0, node, 'Buildable'),
                CF.BInv(h, node), CF.internals_same(h, h0, node), _store_after(c, c.k),
                # the SignatureInfo still describes the same signature
                h.fld(ref(CF.bfields(h0, node)[0]), 'signature')
                == h0.fld(ref(CF.bfields(h0, node)[0]), 'signature'),
                FA([z3.Int('mt_i')], z3.Not(isref(h, sig_dflt(g, z3.Int('mt_i')), 'TaggedValueCls')),
                   patterns=[sig_dflt(g, z3.Int('mt_i'))]))


def _mt_post(c):
  h0, node, g, A, has0, val0 = _mt_terms(c)
  h = c.heap
  return z3.Implies(isref(h0, node, 'Buildable'),
                    z3.And(CF.BInv(h, node), CF.internals_same(h, h0, node),
                           _store_after(c, sig_n(g))))


def _mt_hints(c):
  """Instances of the signature well-formedness facts at the current parameter."""
  h0, node, g, A, has0, val0 = _mt_terms(c)
  k = c.k
  kd = sig_kind(g, k)
  return [z3.Implies(kd == PO, z3.And(k < sig_npo(g), k < sig_npos(g))),
          z3.Implies(kd == PK, z3.And(k >= sig_npo(g), k < sig_npos(g))),
          z3.Implies(kd >= VP, k >= sig_npos(g)),
          sig_idx(g, sig_name(g, k)) == k,
          sig_npo(g) <= sig_npos(g), sig_npos(g) <= sig_n(g)]


def _mt_nvar(c):
  """variadic values are never touched: the count stays the same."""
  h0, node, g, A, has0, val0 = _mt_terms(c)
  return [('nvar', (g, c.heap.hasarr(A)), store_nvar(g, has0))]


contract(
    'materialize.materialize_defaults.traverse', F, 'materialize_defaults.<locals>.traverse',
    requires=_mt_req, ensures=_mt_post, may_raise=('BaseException',), havoc_all=True, result='none',
    may_raise_from=('daglish.State.yield_map_child_values',),
    loops={0: Loop(_mt_inv, facts=_mt_nvar, hints=lambda c: _mt_hints(c),
                   pivots=lambda c: [poskey(_mt_terms(c)[2], c.k), c.k])},
    calls={'state.yield_map_child_values': 'daglish.State.yield_map_child_values',
           'config._field_uses_default_factory': 'config._field_uses_default_factory'},
    props=('C20',),
    note='per node: afterwards every parameter that has a default value (and is not a dataclass '
         'default_factory field) is set — to its previous value if it was set, to the default '
         'otherwise — under its canonical key (index for positional-only); no other argument '
         'changes; the store stays canonical; a second application changes nothing (the post is a '
         'fixpoint of itself)',
)
