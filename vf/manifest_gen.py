"""Generates MANIFEST.json from the table below (kept in one place so it stays valid)."""
import json, os
ROOT = os.path.dirname(os.path.dirname(os.path.abspath(__file__)))

TRUST = ('pyvc encoding of the Python subset; assumed contracts of CPython builtins; spec functions '
         '(signature model, PyBind, slice primitives) cross-checked by enumeration; z3/cvc5; '
         'bounded layer B covers only its stated bound')

TECH = 'contract-based deductive verification of the real functions (AST->z3 VCs, pyvc) + bounded executable contracts (layer B)'

def _c(text, ref):
  return dict(cat='other', tech=TECH, text=text, ref=ref)

CLAIMED = {
    'C01': _c('pyvc discharges, for all signatures and stores, the obligations of the functions that carry the binding '
              '(SignatureInfo.__post_init__, get_default, _append_defaults, transform_to_args_kwargs, index_to_key, '
              'Buildable.__getitem__): slot i of *args is parameter i with its stored value else its default, TypeError iff '
              'a needed slot has neither, nothing dropped, input store unchanged. The end-to-end clause build == direct '
              'call (through the traversal and call_buildable) is a bounded exhaustive enumeration and is labelled so.', '§5 C01'),
    'C02': _c('bounded: invocation log and canonical form of the built graph vs an independent evaluation on every DAG shape '
              '<= 3-4 nodes, equal-but-distinct nodes, temporaries of registered node types, two builds, chains. '
              'Deductive part: see evidence (functions under contract for the memo discipline).', '§5 C02'),
    'C03': _c('class invariant Canon (BInv) + per-operation contracts against the list/dict reference model, discharged by '
              'pyvc for _arguments_set_value/_del_value, __setattr__, __delattr__, __getitem__, _set_item_by_index and the '
              'SignatureInfo kernel; __delitem__, _set_item_by_slice, __setitem__ dispatch, __getattr__ are covered by '
              'exhaustive small-scope enumeration against the reference model (bounded, labelled).', '§5 C03'),
    'C04': _c('pyvc: the PK-by-keyword clause of transform_to_args_kwargs (overridable at call time); bounded: identity sets '
              'across calls for every Partial/ArgFactory nesting and every (signature, store) vs a functools.partial reference.', '§5 C04'),
    'C05': _c('bounded crash-point enumeration: every Buildable node of every small DAG as the failing node x exception-class '
              'shapes x diagnostic-formatting failure x repeated failures; deductive part per evidence.', '§5 C05'),
    'C06': _c('pyvc: get_default (unset vs explicit default for every store key); bounded: all ordered pairs of equality-preserving '
              '/ -breaking rewrites on every (signature, store), symmetry, transitivity pool, congruence with build, sharing.', '§5 C06'),
    'C07': _c('bounded: canonical form + identity disjointness for every pool configuration x copier x edit sequence <= 2/3; '
              'deductive part per evidence.', '§5 C07'),
    'C08': _c('bounded: path multisets / memoized visits / all-paths queries vs an independent expansion on every DAG shape; '
              'identity traversal canonical form; cycles; deductive part per evidence.', '§5 C08'),
    'C09': _c('bounded: leaf domain (ints, floats, escape-like str/bytes, enums, sets, ...) and pool configurations through '
              'dump/load with recording policies; deductive part per evidence.', '§5 C09'),
    'C10': _c('bounded: apply_diff(build_diff(old,new), copy(old)) == new on pairs related by <= 2/3 edits, sharing pairs, '
              'unrelated pairs; two known findings (positional arguments, modification inside tuples).', '§5 C10'),
    'C14': _c('pyvc: TaggedValue expansion in _arguments_set_value, history of tag updates (add_updated_tags, update_tags); '
              'bounded: set_tagged / select(tag).replace / list_tags vs an independent walk, survival through copy/cast/JSON, '
              'tag-operation sequences vs a dict model.', '§5 C14'),
    'C15': _c('bounded: yielded identity multiset vs independent walk + spec predicate, .set/.replace effects, identity of '
              'non-matching nodes on DAG shapes <= 3 with class hierarchies; deductive part per evidence.', '§5 C15'),
    'C16': _c('pyvc: history.new_value/deleted_value/update_tags (sequence id = counter, counter+1), History.add_* (exactly one '
              'entry iff tracking enabled), _arguments_set_value/_del_value, __setattr__/__delattr__, _set_item_by_index '
              '(one store write => one entry); bounded: history invariant after every C03 edit, suspension, locations. '
              'Uniqueness across threads rests on the atomicity of next() (assumed). One known finding (tag-edit location).', '§5 C16'),
    'C17': _c('pyvc: frame conditions (input store unchanged) of transform_to_args_kwargs and __getitem__; bounded: 44 API entry '
              'points x pool configurations, canonical form + identity map before = after.', '§5 C17'),
    'C18': _c('bounded: flattened printer paths vs override parser on the property domain, directive sequences vs sequential '
              'application, serializer round trips; deductive part per evidence.', '§5 C18'),
    'C20': _c('pyvc: get_default (== is kept when defaults are materialized/trimmed); bounded: build(t(cfg)) structurally equal to '
              'build(cfg) for each transformation on the extended pool, idempotence, serializability.', '§5 C20'),
}
NA = {
    'C11': 'quantifies over programs: needs a formal semantics of rewritten Python programs, no per-function contract expresses it',
    'C12': 'about the meaning of emitted module text (libcst -> source -> exec); outside function contracts',
    'C13': 'about the behaviour of an emitted fiddler program; outside function contracts',
    'C19': 'quantifies over schedules; a sequential function-contract verifier has no notion of interleaving',
}
PENDING = 'not claimed'
ALL = [f'C{i:02d}' for i in range(1, 21)]


def main():
  checks = []
  for p in ALL:
    if p in CLAIMED:
      c = CLAIMED[p]
      checks.append(dict(
          property_id=p, quick_cmd=f'./check {p} --tier quick', thorough_cmd=f'./check {p} --tier thorough',
          evidence_file=f'evidence/{p}.json', replay_cmd_template=f'./check {p} --replay {{path}}',
          engine='pyvc+layerB',
          level_claimed=dict(category=c['cat'], text=c['text'], design_ref=c['ref']),
          level_note=TRUST, technique=c['tech']))
  na = [dict(property_id=p, reason=NA.get(p, PENDING)) for p in ALL if p not in CLAIMED]
  m = dict(
      version=1, setup_cmd='./setup.sh',
      hooks=dict(guard='FIDDLE_VERIF', enable='none needed: contracts are sidecar files under /verif/contracts, '
                 'no hook or instrumentation commit exists in /repo',
                 baseline_off_cmd='cd /repo && /venv/bin/python -m pytest -ra -q -p no:cacheprovider --timeout=900 '
                                  '--continue-on-collection-errors',
                 source_commits=[], add_only=True),
      engines=[dict(name='pyvc', path='pyvc/', serves_properties=sorted(CLAIMED),
                    kind_free_text='Python-subset AST -> verification conditions -> z3/cvc5 (deductive, unbounded)'),
               dict(name='layerB', path='layerb/', serves_properties=sorted(CLAIMED),
                    kind_free_text='bounded exhaustive executable contracts on the real functions; replay harness')],
      checks=checks, not_applicable=na,
      notes='fix: commits in /repo are listed in KNOWN_FINDINGS.json (fixed entries).')
  json.dump(m, open(os.path.join(ROOT, 'MANIFEST.json'), 'w'), indent=1)


if __name__ == '__main__':
  main()
