"""Generates MANIFEST.json from the table below (kept in one place so it stays valid)."""
import json, os
ROOT = os.path.dirname(os.path.dirname(os.path.abspath(__file__)))

TRUST = ('pyvc encoding of the Python subset; assumed contracts of CPython builtins; spec functions '
         '(signature model, PyBind, slice primitives) cross-checked by enumeration; z3/cvc5; '
         'bounded layer B covers only its stated bound')

TECH = 'contract-based deductive verification of the real functions (AST->z3 VCs, pyvc) + bounded executable contracts (layer B)'

def _c(text, ref):
  return dict(cat='other', tech=TECH, text=text, ref=ref)

CLAIMED = {
    'C01': _c('pyvc discharges, for all signatures and stores, the obligations of the functions that carry the binding '
              '(SignatureInfo.__post_init__, get_default, _append_defaults, transform_to_args_kwargs, Buildable.__getitem__, '
              'ordered_arguments, building.call_buildable, Config.__build__): slot i of *args is parameter i with its stored '
              'value else its default, TypeError iff a needed slot has neither, nothing dropped, input store unchanged; '
              'call_buildable hands exactly transform_to_args_kwargs(arguments) to __build__ and Config.__build__ calls the '
              'configured callable exactly once with exactly those lists (ghost call log). The end-to-end clause build == '
              'direct call (through the traversal) is a bounded exhaustive enumeration and is labelled so.', '§5 C01'),
    'C02': _c('pyvc: MemoizedTraversal.apply (memo hit / cycle / one invocation of the traversal function per object id, '
              'memo pins the value, memo only grows); build.<locals>._build (children first, exactly one call_buildable per '
              'visited Buildable node with a canonical argument store); Partial.__build__ (always a fresh functools.partial). '
              'Bounded: invocation log and canonical form of the built graph vs an '
              'independent evaluation on every DAG shape <= 3-4 nodes, equal-but-distinct nodes, temporaries of registered '
              'node types, built objects dropped by their first consumer, two builds, chains.', '§5 C02'),
    'C03': _c('class invariant Canon (BInv) + per-operation contracts against the list/dict reference model, discharged by '
              'pyvc for _arguments_set_value/_del_value, __setattr__, __delattr__, __getattr__, __getitem__, __setitem__ and '
              '__delitem__ with index keys (incl. the *args compaction loop), _set_item_by_index, ordered_arguments and the '
              'SignatureInfo kernel; slice keys (_set_item_by_slice, slice deletion) are covered by exhaustive small-scope '
              'enumeration against the reference model (bounded, labelled).', '§5 C03'),
    'C04': _c('pyvc: the PK-by-keyword clause of transform_to_args_kwargs (overridable at call time); '
              '_InvokeArgFactoryWrapper.__call__ (per call of a built partial the t-th ArgFactory argument gets the result of '
              'the t-th factory invocation of that call, made on that very ArgFactory; wrapped function called once); '
              'Partial.__build__ / ArgFactory.__build__ always go through _build_partial (assumed). Bounded: identity sets '
              'across calls for every Partial/ArgFactory nesting and every (signature, store) vs a functools.partial reference.', '§5 C04'),
    'C05': _c('pyvc: _in_build (context manager: flag restored on every exit, nothing swallowed), decorate_exception (fresh proxy '
              'carrying exactly the given message, the exception itself only if no proxy can be made), '
              'try_with_lazy_message.__exit__ (never swallows; an Exception is re-raised as its proxy with the lazily computed '
              'message; False only for other BaseExceptions or when formatting failed) and the lemma that derives what escapes '
              'a with-block from it, call_buildable, MemoizedTraversal.apply on exceptional exits. Bounded '
              'crash-point enumeration: every Buildable node of every small DAG as the failing node x exception-class shapes '
              '(incl. StopIteration & co., C-implemented constructors, TypeError, distinct classes sharing module and qualified '
              'name) x diagnostic-formatting failure x repeated failures.', '§5 C05'),
    'C06': _c('pyvc: _compare_buildable at value level (check_dag=False: exact iff-characterisation — same class, equal '
              'callables, every key set on either side has value-or-default on both sides and they are equal; never raises '
              'except the internal has_var_keyword assertion; frame) and get_default. Bounded: all ordered pairs of '
              'equality-preserving / -breaking rewrites on every (signature, store), container-type pairs, symmetry, '
              'transitivity pool, congruence with build, sharing (the DAG phase of == is bounded only).', '§5 C06'),
    'C07': _c('pyvc: _buildable_flatten, BuildableTraverserMetadata.arguments/tags/history, Buildable.__init_callable__, '
              '__unflatten__, __copy__ (copy.copy gives a fresh Buildable satisfying the representation invariant, same '
              'class/callable/signature, fresh argument dict with the same shared values, fresh tag sets and history lists) '
              'and 5 lemmas over these contracts: an edit (setattr/delattr/setitem) of the copy modifies nothing that '
              'existed before, an edit of the original leaves the copy what it was; casting.cast (as __copy__ with the class of '
              'new_type); __getstate__ / __setstate__ (pickle state). deepcopy / what pickle does in between / copy_with are '
              'bounded: canonical form + identity disjointness for every pool configuration x copier x edit sequence <= 2/3.', '§5 C07'),
    'C08': _c('pyvc: _buildable_flatten, _buildable_path_elements, ordered_arguments, MemoizedTraversal.apply and the lemma '
              '"following the i-th path element of a Buildable yields (is) its i-th flattened value" (path soundness at '
              'Buildable nodes, all inputs). Bounded: path multisets / memoized visits / all-paths queries vs an independent '
              'expansion on every DAG shape, identity traversal canonical form, cycles, late registration.', '§5 C08'),
    'C09': _c('pyvc: Deserialization._deserialize_ref / _deserialize_pyref and import_symbol itself (a python reference is '
              'imported only after policy.allows_import said yes, a value is returned only if policy.allows_value said yes, '
              'on every exit a module was imported only if allowed). Bounded: leaf domain (ints, floats, escape-like str/bytes, enums, '
              'sets, ...) and pool configurations through dump/load with recording policies.', '§5 C09'),
    'C10': _c('pyvc: the diff operations SetValue / ModifyValue / DeleteValue / AddTag / RemoveTag .apply (each is exactly the '
              'corresponding edit contract on Attr / Index / Key children, ValueError otherwise, nothing else changes), '
              '_path_element_is_compatible, _child_has_value. Bounded: apply_diff(build_diff(old,new), copy(old)) == new on '
              'pairs related by <= 2/3 edits, sharing pairs, unrelated pairs; two known findings (positional arguments, '
              'modification inside tuples).', '§5 C10'),
    'C14': _c('pyvc: add_tag, remove_tag, clear_tags, set_tags (loop invariant over the tag collection), get_tags, '
              'tagged_value_fn, TaggedValue expansion in _arguments_set_value incl. its exact history, AddTag/RemoveTag.apply; '
              'bounded: set_tagged / select(tag).replace / list_tags vs an independent walk (incl. equal-but-distinct '
              'values), survival through copy/cast/JSON, tag-operation sequences vs a dict model.', '§5 C14'),
    'C15': _c('pyvc: NodeSelection._matches, move_buildable_internals. Bounded: yielded identity multiset vs independent walk '
              '+ spec predicate, .set/.replace effects, identity of non-matching nodes on DAG shapes <= 3 with class hierarchies.', '§5 C15'),
    'C16': _c('pyvc: history.new_value/deleted_value/update_tags (sequence id = counter, counter+1), History.add_* (exactly one '
              'entry iff tracking enabled; the tag snapshot), suspend_tracking, _arguments_set_value/_del_value, '
              '__setattr__/__delattr__, __setitem__/__delitem__ (index keys), _set_item_by_index, add_tag/remove_tag/'
              'clear_tags/set_tags (exact number, order, key and content of the appended entries); bounded: history invariant '
              'after every C03 edit, suspension, locations, canonical keys, threads. Uniqueness across threads rests on the '
              'atomicity of next() (assumed). One known finding (tag-edit location); one defect fixed (set_tags by index).', '§5 C16'),
    'C17': _c('pyvc: frame conditions (nothing that existed is modified) of transform_to_args_kwargs, __getitem__, __getattr__, '
              'ordered_arguments, _compare_buildable, metadata.tags/history; bounded: 44 API entry points x pool '
              'configurations, canonical form + identity map before = after.', '§5 C17'),
    'C18': _c('pyvc: FiddleFlag.value (every queued directive is applied exactly once, strictly in queue order, with its own '
              'command and expression; malformed / wrong first directive -> ValueError). Bounded: flattened printer paths vs '
              'override parser on the property domain, directive sequences vs sequential application, serializer round '
              'trips, mutable literals fresh per directive.', '§5 C18'),
    'C20': _c('pyvc: materialize_defaults per-node step (every defaulted, non-default_factory parameter set under its canonical '
              'key, nothing else changes, fixpoint), get_default and move_buildable_internals (what auto_config.inline moves: the '
              'five internals, only between Buildables of exactly the same type); bounded: build(t(cfg)) structurally equal to '
              'build(cfg) for each transformation on the extended pool (incl. auto_config.inline on ten placements of '
              'auto_config functions), idempotence, serializability.', '§5 C20'),
}
NA = {
    'C11': 'quantifies over programs: needs a formal semantics of rewritten Python programs, no per-function contract expresses it',
    'C12': 'about the meaning of emitted module text (libcst -> source -> exec); outside function contracts',
    'C13': 'about the behaviour of an emitted fiddler program; outside function contracts',
    'C19': 'quantifies over schedules; a sequential function-contract verifier has no notion of interleaving',
}
PENDING = 'not claimed'
ALL = [f'C{i:02d}' for i in range(1, 21)]


def main():
  checks = []
  for p in ALL:
    if p in CLAIMED:
      c = CLAIMED[p]
      checks.append(dict(
          property_id=p, quick_cmd=f'./check {p} --tier quick', thorough_cmd=f'./check {p} --tier thorough',
          evidence_file=f'evidence/{p}.json', replay_cmd_template=f'./check {p} --replay {{path}}',
          engine='pyvc+layerB',
          level_claimed=dict(category=c['cat'], text=c['text'], design_ref=c['ref']),
          level_note=TRUST, technique=c['tech']))
  na = [dict(property_id=p, reason=NA.get(p, PENDING)) for p in ALL if p not in CLAIMED]
  m = dict(
      version=1, setup_cmd='./setup.sh',
      hooks=dict(guard='FIDDLE_VERIF', enable='none needed: contracts are sidecar files under /verif/contracts, '
                 'no hook or instrumentation commit exists in /repo',
                 baseline_off_cmd='cd /repo && /venv/bin/python -m pytest -ra -q -p no:cacheprovider --timeout=900 '
                                  '--continue-on-collection-errors',
                 source_commits=[], add_only=True),
      engines=[dict(name='pyvc', path='pyvc/', serves_properties=sorted(CLAIMED),
                    kind_free_text='Python-subset AST -> verification conditions -> z3/cvc5 (deductive, unbounded)'),
               dict(name='layerB', path='layerb/', serves_properties=sorted(CLAIMED),
                    kind_free_text='bounded exhaustive executable contracts on the real functions; replay harness')],
      checks=checks, not_applicable=na,
      notes='fix: commits in /repo are listed in KNOWN_FINDINGS.json (fixed entries).')
  json.dump(m, open(os.path.join(ROOT, 'MANIFEST.json'), 'w'), indent=1)


if __name__ == '__main__':
  main()
