"""Generates MANIFEST.json from the table below (kept in one place so it stays valid)."""
import json, os
ROOT = os.path.dirname(os.path.dirname(os.path.abspath(__file__)))

TRUST = ('pyvc encoding of the Python subset; assumed contracts of CPython builtins; spec functions '
         '(signature model, PyBind, slice primitives) cross-checked by enumeration; z3/cvc5; '
         'bounded layer B covers only its stated bound')

CLAIMED = {
    'C01': dict(cat='other', tech='contract-based deductive verification (AST->z3 VCs, pyvc) + bounded executable contracts',
                text='pyvc discharges, for all signatures and stores, the obligations of the functions that carry the '
                     'binding (SignatureInfo kernel: transform_to_args_kwargs, get_default, index_to_key, ...); the '
                     'end-to-end clause build == direct call is a bounded exhaustive enumeration (signatures <=4/5 '
                     'params) and is labelled bounded in the evidence.', ref='§5 C01'),
    'C03': dict(cat='other', tech='contract-based deductive verification (AST->z3 VCs, pyvc) + bounded executable contracts',
                text='class invariant Canon + per-operation contracts against the list/dict reference model, '
                     'discharged by pyvc for the functions listed in the evidence; operations not (yet) proved are '
                     'covered by exhaustive small-scope enumeration against the reference model (bounded).',
                ref='§5 C03'),
}
NA = {
    'C11': 'quantifies over programs: needs a formal semantics of rewritten Python programs, no per-function contract expresses it',
    'C12': 'about the meaning of emitted module text (libcst -> source -> exec); outside function contracts',
    'C13': 'about the behaviour of an emitted fiddler program; outside function contracts',
    'C19': 'quantifies over schedules; a sequential function-contract verifier has no notion of interleaving',
}
PENDING = 'check not built yet in this session (planned, see DESIGN.md §5); not claimed until it exists'
ALL = [f'C{i:02d}' for i in range(1, 21)]


def main():
  checks = []
  for p in ALL:
    if p in CLAIMED:
      c = CLAIMED[p]
      checks.append(dict(
          property_id=p, quick_cmd=f'./check {p} --tier quick', thorough_cmd=f'./check {p} --tier thorough',
          evidence_file=f'evidence/{p}.json', replay_cmd_template=f'./check {p} --replay {{path}}',
          engine='pyvc+layerB',
          level_claimed=dict(category=c['cat'], text=c['text'], design_ref=c['ref']),
          level_note=TRUST, technique=c['tech']))
  na = [dict(property_id=p, reason=NA.get(p, PENDING)) for p in ALL if p not in CLAIMED]
  m = dict(
      version=1, setup_cmd='./setup.sh',
      hooks=dict(guard='FIDDLE_VERIF', enable='none needed: contracts are sidecar files under /verif/contracts, '
                 'no hook or instrumentation commit exists in /repo',
                 baseline_off_cmd='cd /repo && /venv/bin/python -m pytest -ra -q -p no:cacheprovider --timeout=900 '
                                  '--continue-on-collection-errors',
                 source_commits=[], add_only=True),
      engines=[dict(name='pyvc', path='pyvc/', serves_properties=sorted(CLAIMED),
                    kind_free_text='Python-subset AST -> verification conditions -> z3/cvc5 (deductive, unbounded)'),
               dict(name='layerB', path='layerb/', serves_properties=sorted(CLAIMED),
                    kind_free_text='bounded exhaustive executable contracts on the real functions; replay harness')],
      checks=checks, not_applicable=na,
      notes='fix: commits in /repo are listed in KNOWN_FINDINGS.json (fixed entries).')
  json.dump(m, open(os.path.join(ROOT, 'MANIFEST.json'), 'w'), indent=1)


if __name__ == '__main__':
  main()
