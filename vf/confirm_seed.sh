#!/bin/bash
# confirm_seed.sh <seed dir with patch.diff demo.py meta.json> : confirms a seeded change in a
# scratch worktree (demo passes clean, fails patched, suite unchanged) and prints a verdict.
d=$1; W=$(mktemp -d /tmp/wtconf.XXXX); rmdir $W
git -C /repo worktree add -q --detach $W HEAD || exit 3
cd $W
/venv/bin/python $d/demo.py >/dev/null 2>&1; clean=$?
git apply $d/patch.diff || { echo "$d APPLY-FAILED"; cd /; git -C /repo worktree remove --force $W; exit 3; }
/venv/bin/python $d/demo.py >/dev/null 2>&1; patched=$?
fails=$(/venv/bin/python -m pytest -q -p no:cacheprovider --timeout=900 --continue-on-collection-errors -q fiddle 2>&1 | grep '^FAILED\|^ERROR' | sort | tr '\n' ' ')
cd /; git -C /repo worktree remove --force $W
echo "$d clean_exit=$clean patched_exit=$patched suite='$fails'"
