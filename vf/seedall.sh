#!/bin/bash
# Runs every seeded change against the check of the property it breaks; writes seeded/RESULTS-latest.txt
# (seeded/RESULTS.txt keeps the first-run history).  Evidence written while a seed is applied is
# discarded afterwards: committed evidence only ever comes from the unchanged tree.
cd /verif
out=seeded/RESULTS-latest.txt
: > $out
for d in seeded/C*-*; do
  s=$(basename $d); p=${s%%-*}
  vf/seedrun.sh $s $p >> $out 2>&1
  grep -h "regressed\|UNPROVED" /tmp/seedrun_${s}_${p}.log | cut -c1-220 | sed 's/^/    /' >> $out
done
git -C /repo status --short >> $out
git -C /verif checkout -- evidence baseline 2>/dev/null
