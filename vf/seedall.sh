#!/bin/bash
# Runs every seeded change against the check of the property it breaks; writes seeded/RESULTS.txt
cd /verif
: > seeded/RESULTS.txt
for d in seeded/C*-*; do
  s=$(basename $d); p=${s%%-*}
  vf/seedrun.sh $s $p >> seeded/RESULTS.txt 2>&1
done
git -C /repo status --short >> seeded/RESULTS.txt
