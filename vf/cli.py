"""./check <Cxx> [--tier quick|thorough] [--replay file]   (DESIGN.md §8)

exit 0: property held on everything explored (KNOWN-FINDING lines allowed)
exit 1: VIOLATION property=<id> replay=<path> [no-failing-input-found]
exit 2: undecided (only with VERIF_STRICT=1)
exit 3: checker error (never a VIOLATION line)
"""
import argparse
import importlib
import json
import multiprocessing as mp
import os
import sys
import time
import traceback

ROOT = os.path.dirname(os.path.dirname(os.path.abspath(__file__)))
sys.path.insert(0, ROOT)

CONTRACT_MODULES = ['contracts.signatures']
NPROC = min(16, os.cpu_count() or 4)


def load_contracts():
  from pyvc import contract as C, loader
  mods = [m for m in CONTRACT_MODULES]
  for f in sorted(os.listdir(os.path.join(ROOT, 'contracts'))):
    if f.endswith('.py') and f not in ('__init__.py', 'common.py'):
      m = 'contracts.' + f[:-3]
      if m not in mods:
        mods.append(m)
  for m in mods:
    importlib.import_module(m)
  unbound = {}
  for c in C.REGISTRY.values():
    if not c.abstract:
      try:
        loader.bind_ast(c)
      except LookupError as e:
        unbound[c.id] = str(e)
  return unbound


def _verify_worker(args):
  cid, timeout_ms = args
  from pyvc import verify
  r = verify.verify_function(cid, timeout_ms=timeout_ms)
  obls = []
  for m in r.obligations:
    fail = m['failing'][0] if m['failing'] else None
    obls.append(dict(oid=m['oid'], kind=m['kind'], desc=m['desc'], verdict=m['verdict'],
                     queries=m['queries'], time=round(m['time'], 3), solvers=m['solvers'],
                     line=m['line'],
                     reason=getattr(fail, 'reason', None) if fail is not None else None,
                     model=(str(fail.model)[:4000] if fail is not None and fail.model is not None else None)))
  from pyvc import calls
  return dict(cid=cid, status=r.status, reason=r.reason, paths=r.paths, exits=r.exits,
              time=round(r.time, 2), hash=r.hash, pre_sat=r.pre_sat, obligations=obls,
              trusted=sorted(calls.TRUSTED_USED))


def run_pyvc(prop, tier, unbound):
  from pyvc import contract as C
  # budgets sized so that verdicts do not flip when all cores are busy (typical query: < 1 s)
  timeout_ms = 30000 if tier == 'quick' else 120000
  todo = [c.id for c in C.REGISTRY.values()
          if prop in c.props and c.kind == 'contract' and not c.abstract and c.id not in unbound]
  results = []
  if todo:
    ctx = mp.get_context('fork')
    with ctx.Pool(min(NPROC, len(todo))) as pool:
      results = pool.map(_verify_worker, [(cid, timeout_ms) for cid in todo], chunksize=1)
      # second opinion before an obligation of a *changed* function is reported as a violation:
      # once more with three times the budget (a changed VC may just be slower)
      base = baseline()
      again = [r['cid'] for r in results
               if r['status'] == 'failed' and r.get('hash') and base.get('hashes', {}).get(r['cid'])
               and base['hashes'][r['cid']] != r['hash']
               and any(o['verdict'] == 'unknown' for o in r['obligations'])]
      if again:
        redo = pool.map(_verify_worker, [(cid, timeout_ms * 3) for cid in again], chunksize=1)
        byid = {r['cid']: r for r in redo}
        results = [byid.get(r['cid'], r) for r in results]
  for cid, why in unbound.items():
    if prop in C.REGISTRY[cid].props:
      results.append(dict(cid=cid, status='unbound', reason=why, paths=0, exits={}, time=0,
                          hash=None, pre_sat=None, obligations=[], trusted=[]))
  return results


def baseline():
  p = os.path.join(ROOT, 'baseline', 'obligations.json')
  if os.path.exists(p):
    return json.load(open(p))
  return {}


def known_findings():
  p = os.path.join(ROOT, 'KNOWN_FINDINGS.json')
  if os.path.exists(p):
    return json.load(open(p))
  return {'known': [], 'fixed': []}


def write_replay(prop, n, payload):
  d = os.path.join(ROOT, 'replays')
  os.makedirs(d, exist_ok=True)
  path = os.path.join(d, f'{prop}-{n}.json')
  with open(path, 'w') as f:
    json.dump(payload, f, indent=1, default=str)
  return os.path.relpath(path, ROOT)


def do_replay(path):
  payload = json.load(open(path))
  if payload.get('harness'):
    mod = importlib.import_module(payload['harness'])
    if payload['case'].get('crashed'):
      from layerb import common as _common
      pm = importlib.import_module('layerb.prop_' + payload['property'])
      res = _common.replay_crashed(pm, payload['case'])
    else:
      res = mod.replay(payload['case'])
    what = res[0] if isinstance(res, tuple) else res
    if what:
      print(f"VIOLATION property={payload['property']} replay={path}")
      print('  ', what)
      return 1
    print('replay: the case no longer fails')
    return 0
  print('replay file carries a failed obligation without input:')
  print(json.dumps(payload.get('obligation'), indent=1)[:3000])
  return 1


def main(argv=None):
  import logging
  logging.disable(logging.CRITICAL)
  try:
    from absl import logging as absl_logging
    absl_logging.set_verbosity(absl_logging.FATAL)
    absl_logging.set_stderrthreshold('fatal')
  except Exception:   # pylint: disable=broad-except
    pass
  ap = argparse.ArgumentParser()
  ap.add_argument('prop')
  ap.add_argument('--tier', default=os.environ.get('VERIF_TIER') or 'quick')
  ap.add_argument('--replay')
  ap.add_argument('--no-pyvc', action='store_true')
  ap.add_argument('--no-bounded', action='store_true')
  ap.add_argument('--write-baseline', action='store_true')
  a = ap.parse_args(argv)
  prop = a.prop
  tier = a.tier if a.tier in ('quick', 'thorough') else 'quick'
  seed = int(os.environ.get('VERIF_SEED', '0') or 0)
  if a.replay:
    return do_replay(a.replay)
  t0 = time.time()
  try:
    unbound = load_contracts()
    pyvc_results = [] if a.no_pyvc else run_pyvc(prop, tier, unbound)
    bmod = None
    try:
      bmod = importlib.import_module(f'layerb.prop_{prop}')
    except ModuleNotFoundError as e:
      if f'prop_{prop}' not in str(e):
        raise
    bres = None
    if bmod is not None and not a.no_bounded:
      bres = bmod.run(tier=tier, seed=seed, nproc=NPROC)
  except Exception:   # pylint: disable=broad-except
    traceback.print_exc()
    print('CHECKER-ERROR', file=sys.stderr)
    return 3

  base = baseline()
  kf = known_findings()
  known = [k for k in kf.get('known', []) if k['property'] == prop]
  violations = []      # (what, replay payload, suffix)
  unproved = []
  n_obl = n_dis = 0
  solver_time = 0.0
  fn_rows = []
  trusted = set()
  checker_errors = []
  for r in pyvc_results:
    trusted.update(r['trusted'])
    row = dict(function=r['cid'], status=r['status'], obligations=len(r['obligations']),
               discharged=sum(1 for o in r['obligations'] if o['verdict'] == 'unsat'),
               paths=r['paths'], source_hash=r['hash'], time_s=r['time'])
    from pyvc import contract as _C
    _ctr = _C.REGISTRY.get(r['cid'])
    if _ctr is not None:
      # a lemma client lives in /verif and only calls contracted functions of /repo: what is
      # proved about it is a lemma over those contracts, not a statement about a /repo function
      row['what'] = 'lemma over contracts (client in /verif/lemmas)' if _ctr.file.startswith('@verif/') \
          else 'function of /repo'
      row['file'] = _ctr.file
      row['claim'] = _ctr.note
    fn_rows.append(row)
    n_obl += row['obligations']
    n_dis += row['discharged']
    solver_time += sum(o['time'] for o in r['obligations'])
    if r['status'] == 'proved':
      continue
    if r['status'] == 'error':
      checker_errors.append(f"{r['cid']}: {r['reason'][:2000]}")
      continue
    if r['status'] in ('unsupported', 'unbound'):
      unproved.append(dict(function=r['cid'], reason=f"{r['status']}: {r['reason']}"))
      continue
    for o in r['obligations']:
      if o['verdict'] == 'unsat':
        continue
      key = f"{r['cid']}::{o['oid']}"
      in_base = key in base.get('discharged', [])
      base_hash = base.get('hashes', {}).get(r['cid'])
      # The deciding step of the technique: an obligation generated from the function's *current*
      # text that was discharged on the baseline tree and no longer is.  It is reported as the
      # violation only when the text of that very function changed since the baseline (callers are
      # checked against callee contracts, so nothing else can make it fail) — on an unchanged
      # function an `unknown` can only be solver budget / load and stays UNPROVED.
      changed = base_hash is not None and r.get('hash') is not None and r['hash'] != base_hash
      if in_base and (o['verdict'] == 'sat' or changed):
        how = 'refuted by the solver' if o['verdict'] == 'sat' else \
            f"no longer discharged (verdict {o['verdict']}: {str(o.get('reason') or '')[:120]})"
        violations.append((f"obligation {key} ({o['desc']}) was discharged on the baseline tree and is now "
                           f"{how}; the text of {r['cid']} changed (source hash {base_hash} -> {r.get('hash')})"
                           if changed else
                           f"obligation {key} was discharged on the baseline tree and is now {how} ({o['desc']})",
                           dict(property=prop, harness=None, failed_obligation=key,
                                function=r['cid'], source_hash_baseline=base_hash, source_hash_now=r.get('hash'),
                                obligation=dict(id=key, **o),
                                verifier_output=dict(verdict=o['verdict'], reason=o.get('reason'), solvers=o.get('solvers'),
                                                     queries=o.get('queries'), seconds=o.get('time'), model=o.get('model'))),
                           ' no-failing-input-found'))
        unproved.append(dict(function=r['cid'], obligation=o['oid'], verdict=o['verdict'],
                             reason=o.get('reason') or o['desc'], in_baseline=in_base))
      else:
        unproved.append(dict(function=r['cid'], obligation=o['oid'], verdict=o['verdict'],
                             reason=o.get('reason') or o['desc'], in_baseline=in_base))
  if checker_errors:
    for e in checker_errors:
      print('CHECKER-ERROR', e, file=sys.stderr)
    return 3

  bcov = {}
  known_hits = {}
  if bres is not None:
    bcov = {k: v for k, v in bres.items() if k != 'violations'}
    for v in bres.get('violations', []):
      hit = None
      for k in known:
        if v.get('key') is not None and v.get('key') in (k.get('keys') or [k.get('key')]):
          hit = k
      if hit is not None:
        known_hits.setdefault(hit['id'], [hit, 0])[1] += 1
        continue
      violations.insert(0, (v['what'], dict(property=prop, harness=v['harness'], case=v['case'],
                                            what=v['what']), ''))
  # a failed obligation whose function has a bounded counter-example is reported through it;
  # the bounded violation carries the replayable input.
  exit_code = 0
  for hit, cnt in known_hits.values():
    print(f"KNOWN-FINDING: property={prop} {hit['what']} ({cnt} enumerated cases)")
  for k in known:
    if k['id'] not in known_hits and bres is not None:
      print(f"NOTE: known finding {k['id']} was not reproduced by this run (stale entry?)")
  shown = 0
  # obligations that were discharged on the baseline tree and no longer are: named next to the
  # replayed input (the input comes from the bounded harness of the same property)
  regressed = [f"{u['function']}::{u['obligation']}" for u in unproved
               if u.get('in_baseline') and u.get('obligation')]
  # at most 4 violations with a replayable input and 2 failed obligations without one are written
  with_input = [v for v in violations if not v[2]][:4]
  without = [v for v in violations if v[2]][:2]
  to_show = with_input + without
  for what, payload, suffix in violations:
    if any(what is w for w, _, _ in to_show):
      payload = dict(payload, failed_obligations=regressed)
      path = write_replay(prop, shown, payload)
      print(f'VIOLATION property={prop} replay={path}{suffix}')
      print('   ', str(what)[:600])
      if regressed and shown == 0:
        print('    failed obligations (discharged on the baseline tree): ' + ', '.join(regressed[:6]))
    shown += 1
    exit_code = 1
  for u in unproved:
    print(f"UNPROVED function={u['function']} obligation={u.get('obligation', '-')} "
          f"reason={str(u['reason'])[:300]}")
  strict = os.environ.get('VERIF_STRICT') == '1'
  if exit_code == 0 and unproved and strict:
    exit_code = 2

  proved_all = bool(pyvc_results) and not unproved and n_obl > 0 and n_obl == n_dis
  # the property as a whole is decided by proved kernel obligations + a bounded remainder:
  # the level is always `other`, the split is spelled out in coverage (never `proof` while a
  # clause of the property is only bounded)
  level = 'other'
  cov = dict(bcov)
  cov.update(dict(
      obligations=n_obl, discharged=n_dis,
      checker_cmd=f'./check {prop} --tier {tier}',
      trusted_base=sorted(trusted) + TRUSTED_ALWAYS,
      functions_under_contract=fn_rows, unproved=unproved,
      solver_time_s=round(solver_time, 2),
      slow_obligations=sorted([dict(obligation=f"{r['cid']}::{o['oid']}", seconds=o['time'], queries=o['queries'],
                                    solvers=o['solvers']) for r in pyvc_results for o in r['obligations']
                               if o['time'] > 1.0], key=lambda d: -d['seconds'])[:20],
      back_ends=['z3 5.1 (python API)', 'cvc5 1.0.3 (second opinion on unknown)'],
      deductive_status=('all obligations discharged' if proved_all else
                        'not re-established: see unproved' if pyvc_results else 'no deductive part'),
      explanation=(f'{n_dis}/{n_obl} pyvc obligations discharged for '
                   f"{sum(1 for r in fn_rows if r.get('what') != 'lemma over contracts (client in /verif/lemmas)')} "
                   f'functions of /repo'
                   + (f" and {sum(1 for r in fn_rows if r.get('what') == 'lemma over contracts (client in /verif/lemmas)')} "
                      f'lemmas over their contracts'
                      if any(r.get('what') == 'lemma over contracts (client in /verif/lemmas)' for r in fn_rows) else '')
                   + f' (unbounded, all inputs); bounded layer B: '
                   f"{bcov.get('evaluations', 0)} enumerated cases "
                   f"({'exhaustive for the stated bound' if bcov.get('exhaustive') else 'sampled'})."),
  ))
  cov.setdefault('evaluations', max(1, n_obl))
  cov.setdefault('distinct_nontrivial', max(0, n_dis))
  cov.setdefault('rule', 'pyvc obligations (one per program point and kind)')
  cov.setdefault('samples', [o['oid'] for r in pyvc_results for o in r['obligations']][:5] or ['-'])
  ev = dict(property_id=prop, tier=tier, seed=seed, level=level, coverage=cov,
            assumptions=TRUSTED_ALWAYS, wall_s=round(time.time() - t0, 2),
            violations=len(violations),
            known_findings=[h[0]['id'] for h in known_hits.values()])
  os.makedirs(os.path.join(ROOT, 'evidence'), exist_ok=True)
  with open(os.path.join(ROOT, 'evidence', f'{prop}.json'), 'w') as f:
    json.dump(ev, f, indent=1, default=str)
  if a.write_baseline:
    b = baseline()
    cur = set(b.get('discharged', []))
    cur = {k for k in cur if not any(k.startswith(r['cid'] + '::') for r in pyvc_results)}
    for r in pyvc_results:
      for o in r['obligations']:
        if o['verdict'] == 'unsat':
          cur.add(f"{r['cid']}::{o['oid']}")
    b['discharged'] = sorted(cur)
    hs = dict(b.get('hashes', {}))
    for r in pyvc_results:
      if r.get('hash'):
        hs[r['cid']] = r['hash']
    b['hashes'] = dict(sorted(hs.items()))
    os.makedirs(os.path.join(ROOT, 'baseline'), exist_ok=True)
    json.dump(b, open(os.path.join(ROOT, 'baseline', 'obligations.json'), 'w'), indent=0)
  print(f'{prop}: level={level} obligations={n_dis}/{n_obl} functions={len(fn_rows)} '
        f"bounded_cases={bcov.get('evaluations', 0)} violations={len(violations)} "
        f'unproved={len(unproved)} wall={time.time() - t0:.1f}s')
  return exit_code


TRUSTED_ALWAYS = [
    'pyvc VC generator: encoding of the Python subset (DESIGN §2.2), cross-checked against CPython '
    'by the bounded layer on the same functions, not proved',
    'assumed contracts of CPython builtins / library functions used by the verified functions '
    '(dict, list, slice.indices, range, id, inspect.Signature well-formedness)',
    'spec functions (signature model WF/Canon, store_nvar as definite description, tak_cnt '
    'recursive definition) and the natural-number induction schema for lemmas',
    'python ints are mathematical integers (true in CPython); partial correctness only for '
    '`while` loops; no claim about recursion depth or memory',
    'user-supplied values: __eq__/__bool__/__len__ are side-effect free; argument-store keys are '
    'int or str',
    'heap model: closed entry heap (no reference to a not yet allocated object), list lengths are '
    'non-negative, tuple objects are immutable, a class of an object never changes',
    'dict / set iteration order is modelled as a function of the key set (two dicts with the same keys '
    'enumerate alike); spec functions given by definite description and used through explicit '
    'instances only: zip_last (dict(zip)), dkeys_* (iteration), oa_keys (key set of ordered_arguments, '
    'proved equal by extensionality)',
    'summaries of side-effect-free comprehensions / dict(zip) / set union / record construction and the '
    'mechanical desugaring of assigned comprehensions into accumulator loops (loader.desugar_comprehensions)',
    'lemma clients in /verif/lemmas are proved against callee contracts only (theorems about the '
    'contracts); havoc_all callees (arbitrary user code) are assumed not to reach the private '
    'containers named in their contracts',
    'z3 5.1 / cvc5 soundness',
    'everything under coverage.evaluations is bounded enumeration (layer B), never counted as proved',
]

if __name__ == '__main__':
  sys.exit(main())
