"""Kill check of the deductive layer (DESIGN Appendix B, as built): each entry is a small change of
a function under contract, applied to a *scratch copy* of /repo (never to /repo), after which the
contract of that very function must stop discharging (verdict `failed` or `unsupported`).  A mutant
whose contract still proves means the contract is vacuous or the engine unsound: the run fails.

  .venv/bin/python vf/mutants.py [-j N]       # all mutants, in parallel, ~5 min
"""
import json
import multiprocessing as mp
import os
import shutil
import subprocess
import sys
import tempfile

ROOT = os.path.dirname(os.path.dirname(os.path.abspath(__file__)))
C = 'fiddle/_src/config.py'
# (file, old text, new text, contract id)
R = 'fiddle/_src/reraised_exception.py'
MUTANTS = [
    (R, "return proxy_cls(exception, message).with_traceback(exception.__traceback__)",
     "return proxy_cls(exception, '').with_traceback(exception.__traceback__)", 'reraised_exception.decorate_exception'),
    (R, "    logging.exception('Creating the proxy class failed.')\n    return exception",
     "    logging.exception('Creating the proxy class failed.')\n    raise", 'reraised_exception.decorate_exception'),
    (R, "  try:\n    proxy_cls = make_exception_class(type(exception))",
     "  if getattr(exception, 'proxy_message', None) is not None:\n    return exception\n  try:\n    proxy_cls = make_exception_class(type(exception))",
     'reraised_exception.decorate_exception'),
    (R, "    if not isinstance(exc, Exception):\n      return False", "    if not isinstance(exc, Exception):\n      return True",
     'reraised_exception.try_with_lazy_message.__exit__'),
    (R, "    if not isinstance(exc, Exception):", "    if exc is None:", 'reraised_exception.try_with_lazy_message.__exit__'),
    (R, "raise decorate_exception(exc, message) from None", "raise decorate_exception(exc, '') from None",
     'reraised_exception.try_with_lazy_message.__exit__'),
    (R, "      logging.exception('Formatting the debug information failed.')\n      return False",
     "      logging.exception('Formatting the debug information failed.')\n      return True",
     'reraised_exception.try_with_lazy_message.__exit__'),
    (R, "    raise decorate_exception(exc, message) from None", "    return False",
     'reraised_exception.try_with_lazy_message.__exit__'),
    ('fiddle/_src/selectors.py', "            self.match_subclasses  #", "            True  #",
     'selectors.NodeSelection._matches'),
    ('fiddle/_src/selectors.py', "    if not isinstance(node, self.buildable_type):",
     "    if not isinstance(node, config_lib.Buildable):", 'selectors.NodeSelection._matches'),
    ('fiddle/_src/absl_flags/flags.py', 'self._remaining_directives.pop(0)', 'self._remaining_directives.pop()',
     'flags.FiddleFlag.value'),
    (C, "object.__setattr__(rebuilt, '__argument_tags__', metadata.tags())",
     "object.__setattr__(rebuilt, '__argument_tags__', metadata.argument_tags)", 'config.Buildable.__unflatten__'),
    (C, 'values = tuple(arguments.values())', 'values = tuple(arguments.keys())', 'config._buildable_flatten'),
    (C, 'return dict(zip(self.argument_names, values))', 'return dict(zip(values, self.argument_names))',
     'config.BuildableTraverserMetadata.arguments'),
    (C, 'return self.__unflatten__(*self.__flatten__())', 'return self', 'config.Buildable.__copy__'),
    (C, 'return _buildable_flatten(self, include_defaults=False)',
     'return _buildable_flatten(self, include_defaults=True)', 'config.Buildable.__copy__'),
    (C, '    return _buildable_path_elements(self, include_defaults=False)',
     '    return _buildable_path_elements(self, include_defaults=True)', 'lemma.c08.path_follows_value'),
    (C, '      daglish.Attr(name) if isinstance(name, str) else daglish.Index(name)',
     '      daglish.Attr(name) if isinstance(name, int) else daglish.Index(name)', 'config._buildable_path_elements'),
    (C, '  if type(x) is not type(y):\n    return False', '  if type(x) is not type(y):\n    pass',
     'config._compare_buildable'),
    (C, '    if v1 is missing or v2 is missing:\n      return False',
     '    if v1 is missing or v2 is missing:\n      continue', 'config._compare_buildable'),
    (C, '  for key in set(x.__arguments__) | set(y.__arguments__):', '  for key in set(x.__arguments__):',
     'config._compare_buildable'),
    (C, '    if value is missing:\n      value = buildable.__signature_info__.get_default(key, missing)\n    return value',
     '    return value', 'config._compare_buildable'),
    (C, "    result['__signature_info__'] = None", "    result['__argument_tags__'] = None",
     'config.Buildable.__getstate__'),
    (C, '    if self.__signature_info__ is None:\n      signature = signatures.get_signature(self.__fn_or_cls__)',
     '    if self.__signature_info__ is not None:\n      signature = signatures.get_signature(self.__fn_or_cls__)',
     'config.Buildable.__setstate__'),
    ('fiddle/_src/materialize.py', '        if arg.kind == arg.POSITIONAL_ONLY:', '        if arg.kind == arg.VAR_KEYWORD:',
     'materialize.materialize_defaults.traverse'),
    ('fiddle/_src/materialize.py', '          if index not in node.__arguments__:', '          if True:',
     'materialize.materialize_defaults.traverse'),
    ('fiddle/_src/diffing.py', '      parent[child.index] = self.new_value', '      parent[child.index - 1] = self.new_value',
     'diffing.ModifyValue.apply'),
    ('fiddle/_src/diffing.py', '      tagging.remove_tag(parent, child.name, self.tag)',
     '      tagging.clear_tags(parent, child.name)', 'diffing.RemoveTag.apply'),
    ('fiddle/_src/tagging.py',
     '  if isinstance(argument, int):\n    argument = buildable.__signature_info__.index_to_key(\n        argument, buildable.__arguments__\n    )\n  buildable.__argument_history__.add_updated_tags(\n      argument, buildable.__argument_tags__[argument]\n  )\n\n\ndef remove_tag',
     '  buildable.__argument_history__.add_updated_tags(\n      argument, buildable.__argument_tags__[argument]\n  )\n\n\ndef remove_tag',
     'tagging.set_tags'),
    ('fiddle/_src/experimental/serialization.py', '  if policy.allows_import(module, symbol):',
     '  if policy.allows_import(module, symbol) or symbol:', 'serialization.import_symbol'),
    ('fiddle/_src/experimental/serialization.py', '    if policy.allows_value(value):\n      return value', '    return value',
     'serialization.import_symbol'),
    ('fiddle/_src/arg_factory.py', '    kwargs = {key: _arg_factory_value(arg) for (key, arg) in kwargs.items()}',
     '    kwargs = {key: arg for (key, arg) in kwargs.items()}', 'arg_factory._InvokeArgFactoryWrapper.__call__'),
    ('fiddle/_src/arg_factory.py', '    args = tuple(_arg_factory_value(arg) for arg in args)',
     '    args = tuple(_arg_factory_value(arg) for arg in reversed(args))', 'arg_factory._InvokeArgFactoryWrapper.__call__'),
    ('fiddle/_src/arg_factory.py', '    return self.func(*args, **kwargs)',
     '    self.func(*args, **kwargs)\n    return self.func(*args, **kwargs)', 'arg_factory._InvokeArgFactoryWrapper.__call__'),
    ('fiddle/_src/arg_factory.py', '  return value.factory() if isinstance(value, ArgFactory) else value',
     '  return value.factory() if isinstance(value, ArgFactory) and value.factory() is not None else value',
     'arg_factory._InvokeArgFactoryWrapper.__call__'),
    ('fiddle/_src/building.py', '      arguments = metadata.arguments(sub_traversal.values)',
     '      arguments = metadata.arguments(sub_traversal.values[1:])', 'building.build._build'),
    ('fiddle/_src/partial.py', '    return _build_partial(self.__fn_or_cls__, args, kwargs)',
     '    return _build_partial(self.__fn_or_cls__, args, kwargs) if args or kwargs else self.__fn_or_cls__',
     'partial.Partial.__build__'),
    ('fiddle/_src/partial.py', '  if isinstance(arg, _BuiltArgFactory) or not _contains_arg_factory(arg):\n    return arg',
     '  if isinstance(arg, _BuiltArgFactory):\n    return arg', 'partial._promote_arg_factory'),
    ('fiddle/_src/signatures.py', '      if param.kind == param.VAR_POSITIONAL:\n        self._var_positional_start = index',
     '      if param.kind == param.VAR_POSITIONAL:\n        self._var_positional_start = index + 1',
     'signatures.SignatureInfo.__post_init__'),
    ('fiddle/_src/history.py', '    return self.setdefault(key, [])', '    return self.get(key, [])', 'history.History.__missing__'),
    ('fiddle/_src/casting.py', '  return new_type.__unflatten__(*buildable.__flatten__())',
     '  return type(buildable).__unflatten__(*buildable.__flatten__())', 'casting.cast'),
]


def run_one(args):
  i, (rel, old, new, cid) = args
  d = tempfile.mkdtemp(prefix='mutant_', dir='/tmp')
  try:
    subprocess.run(f'git -C /repo archive HEAD fiddle | tar -x -C {d}', shell=True, check=True)
    p = os.path.join(d, rel)
    s = open(p).read()
    if s.count(old) < 1:
      return i, cid, 'STALE', 'the text to mutate is not in the current source'
    open(p, 'w').write(s.replace(old, new, 1))
    env = dict(os.environ, VERIF_REPO=d)
    out = subprocess.run([os.path.join(ROOT, '.venv/bin/python'), os.path.join(ROOT, 'pyvc/run1.py'), cid],
                         cwd=ROOT, env=env, capture_output=True, text=True, timeout=3600).stdout
    line = [l for l in out.splitlines() if l.startswith(cid + ':')]
    verdict = line[0].split(':', 1)[1].strip() if line else 'no verdict: ' + out[-300:]
    status = 'SURVIVED' if verdict.startswith('proved') else 'killed'
    return i, cid, status, verdict[:160]
  finally:
    shutil.rmtree(d, ignore_errors=True)


def main():
  n = int(sys.argv[sys.argv.index('-j') + 1]) if '-j' in sys.argv else 8
  with mp.get_context('fork').Pool(n) as pool:
    res = pool.map(run_one, list(enumerate(MUTANTS)), chunksize=1)
  bad = 0
  rows = []
  for i, cid, status, verdict in sorted(res):
    print(f'{status:9s} #{i:02d} {cid}: {verdict}')
    rows.append(dict(n=i, contract=cid, file=MUTANTS[i][0], status=status, verdict=verdict))
    bad += status != 'killed'
  json.dump(rows, open(os.path.join(ROOT, 'vf', 'mutants_last_run.json'), 'w'), indent=1)
  print(f'{len(res) - bad}/{len(res)} mutants killed')
  return 1 if bad else 0


if __name__ == '__main__':
  sys.exit(main())
