#!/bin/bash
# seedrun.sh <seed name> <prop> : applies seeded/<name>/patch.diff to /repo, runs ./check <prop>, reverts.
cd /verif
git -C /repo apply /verif/seeded/$1/patch.diff || exit 9
./check $2 ${3:-} > /tmp/seedrun_$1_$2.log 2>&1; rc=$?
git -C /repo checkout -- .
echo "$1 $2 exit=$rc $(grep -c '^VIOLATION' /tmp/seedrun_$1_$2.log) violations; $(grep -m1 '^VIOLATION' /tmp/seedrun_$1_$2.log | cut -c1-100) | $(grep -c '^UNPROVED' /tmp/seedrun_$1_$2.log) unproved"
