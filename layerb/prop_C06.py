"""C06, bounded part: == on Buildables is an equivalence relation congruent with build."""
import copy
import itertools
import fiddle as fdl
from layerb import gen, dags, canon, common
from layerb.refmodel import RefConfig


def variants(sig, store):
  """(label, config, class-id) where configs with the same class-id must compare equal and
  configs with different class-ids must compare unequal."""
  out = []
  base = gen.make_config(sig, store)
  out.append(('base', base, 0))
  out.append(('copy', copy.copy(base), 0))
  out.append(('deepcopy', copy.deepcopy(base), 0))
  # public-API construction (different edit history)
  try:
    out.append(('public', gen.make_config_public(sig, store), 0))
  except Exception:   # pylint: disable=broad-except
    pass
  # other edit history: set every value twice
  h = gen.make_config(sig, store)
  for k, v in store.items():
    h._arguments_set_value(k, 'tmp')   # pylint: disable=protected-access
    h._arguments_set_value(k, v)       # pylint: disable=protected-access
  out.append(('history', h, 0))
  # defaults made explicit, one parameter at a time and all at once
  alld = gen.make_config(sig, store)
  for i, k in enumerate(sig.kinds):
    if sig.hasdef[i] and k in (gen.PO, gen.PK, gen.KO):
      key = i if k == gen.PO else sig.names[i]
      if key not in store:
        d = gen.make_config(sig, store)
        d._arguments_set_value(key, sig.defaults[i])   # pylint: disable=protected-access
        alld._arguments_set_value(key, sig.defaults[i])   # pylint: disable=protected-access
        out.append((f'default-explicit:{key}', d, 0))
  out.append(('defaults-explicit', alld, 0))
  # equality-breaking rewrites: each gets its own class
  cid = 1
  for k in list(store):
    b = gen.make_config(sig, store)
    b._arguments_set_value(k, 'CHANGED')   # pylint: disable=protected-access
    out.append((f'leaf:{k}', b, cid))
    cid += 1
    b = gen.make_config(sig, store)
    b._arguments_del_value(k)   # pylint: disable=protected-access
    # deleting is a change unless ... it never equals a set non-default value
    out.append((f'unset:{k}', b, cid))
    cid += 1
  out.append(('callable', gen.make_config(sig, store, fname='g'), cid))
  cid += 1
  out.append(('type', gen.make_config(sig, store, cls=fdl.Partial), cid))
  cid += 1
  # an extra argument on one side only
  for i, k in enumerate(sig.kinds):
    key = i if k == gen.PO else sig.names[i]
    if k in (gen.PO, gen.PK, gen.KO) and key not in store:
      b = gen.make_config(sig, store)
      b._arguments_set_value(key, 'EXTRA')   # pylint: disable=protected-access
      out.append((f'extra:{key}', b, cid))
      cid += 1
  if sig.vps is not None:
    nv = sum(1 for k in store if isinstance(k, int) and k >= sig.vps)
    b = gen.make_config(sig, store)
    b._arguments_set_value(sig.vps + nv, 'MOREARGS')   # pylint: disable=protected-access
    out.append(('extra:vararg', b, cid))
    cid += 1
  return out


def safe_eq(a, b):
  try:
    return bool(a == b), None
  except Exception as e:   # pylint: disable=broad-except
    return None, f'{type(e).__name__}: {str(e)[:80]}'


def check_sig(args):
  kinds, hasdef = args
  sig = gen.SigSpec(kinds, hasdef)
  evals, viols, nontriv, samples = 0, [], 0, []
  def bad(store, la, lb, what):
    viols.append(dict(kinds=kinds, hasdef=hasdef, store=[[k, v] for k, v in store.items()],
                      a=la, b=lb, what=what, sig=sig.label, op=f'{la} == {lb}'))
  for store in gen.all_stores(sig, max_var=1, max_extra=1):
    vs = variants(sig, store)
    built = {}
    for la, a, ca in vs:
      try:
        built[la] = canon.built_canon(fdl.build(a)() if isinstance(a, fdl.Partial) else fdl.build(a))
      except Exception:   # pylint: disable=broad-except
        built[la] = None
    for (la, a, ca), (lb, b, cb) in itertools.product(vs, vs):
      evals += 1
      r, err = safe_eq(a, b)
      if err:
        bad(store, la, lb, f'== raised {err}')
        continue
      r2, _ = safe_eq(b, a)
      if r != r2:
        bad(store, la, lb, f'== is not symmetric: {la}=={lb} is {r}, {lb}=={la} is {r2}')
      if la == lb and not r:
        bad(store, la, lb, '== is not reflexive')
      if ca == cb and not r:
        bad(store, la, lb, 'equality-preserving rewrite compares unequal')
      if ca != cb and r:
        # an `unset` rewrite equals the base only if the deleted value was the default
        if not _legit_equal(sig, store, la, lb):
          bad(store, la, lb, 'equality-breaking rewrite compares equal')
      if r and built[la] is not None and built[lb] is not None and built[la] != built[lb] \
          and ca == cb:
        bad(store, la, lb, 'equal configurations build different object graphs')
      if ca != cb:
        nontriv += 1
    if len(samples) < 1 and store:
      samples.append(dict(sig=sig.label, store=[[k, v] for k, v in store.items()],
                          variants=[l for l, _, _ in vs]))
  return evals, nontriv, viols, samples


def _legit_equal(sig, store, la, lb):
  return False


def sharing_cases(_=None):
  """Sharing structure, transitivity, mixed-type dict keys, dict order."""
  viols = []
  n = 0
  f = dags.node_fn(0)
  def bad(what, name):
    viols.append(dict(what=what, sig='sharing', store=name, op='==', scenario=name, kinds=[], hasdef=[]))
  def mk(shared):
    child = fdl.Config(dags.node_fn(1), 1)
    other = child if shared else fdl.Config(dags.node_fn(1), 1)
    return fdl.Config(f, child, other)
  pairs = [('shared==shared', mk(True), mk(True), True), ('distinct==distinct', mk(False), mk(False), True),
           ('shared!=distinct', mk(True), mk(False), False)]
  def mkl(shared):
    l1 = [1]
    l2 = l1 if shared else [1]
    return fdl.Config(f, {'a': l1}, (l2,))
  pairs += [('list shared==shared', mkl(True), mkl(True), True),
            ('list shared!=distinct', mkl(True), mkl(False), False)]
  d1 = fdl.Config(f, {'x': 1, 'y': 2})
  d2 = fdl.Config(f, {'y': 2, 'x': 1})
  pairs.append(('dict order', d1, d2, True))
  m1 = fdl.Config(f, {1: 'a', 'b': 2})
  m2 = fdl.Config(f, {1: 'a', 'b': 2})
  m3 = fdl.Config(f, {'b': 2, 1: 'a'})
  m4 = fdl.Config(f, {1: 'a', 'b': 3})
  pairs += [('mixed-type dict keys', m1, m2, True), ('mixed-type dict keys reordered', m1, m3, True),
            ('mixed-type dict keys, value differs', m1, m4, False)]
  t1 = fdl.Config(f, (1, None), [(2,)])
  t2 = fdl.Config(f, (1, None), [(2,)])
  pairs.append(('tuples with None', t1, t2, True))
  # argument values of different container types / different leaves at depth
  c1, c2 = fdl.Config(dags.node_fn(1), 1), fdl.Config(dags.node_fn(1), 1)
  pairs += [('list vs tuple', fdl.Config(f, [1, 2]), fdl.Config(f, (1, 2)), False),
            ('nested list vs tuple', fdl.Config(f, {'k': [[1], 2]}), fdl.Config(f, {'k': [(1,), 2]}), False),
            ('list vs tuple of Buildables', fdl.Config(f, [c1, c2]), fdl.Config(f, (c1, c2)), False),
            ('empty list vs empty tuple', fdl.Config(f, []), fdl.Config(f, ()), False),
            ('equal lists of Buildables', fdl.Config(f, [c1, c2]), fdl.Config(f, [c1, c2]), True),
            ('leaf differs inside nested container', fdl.Config(f, [(1, {'z': 2})]),
             fdl.Config(f, [(1, {'z': 3})]), False),
            ('list length differs', fdl.Config(f, [1, 2]), fdl.Config(f, [1, 2, 2]), False)]
  # aliasing of mutable values that are leaves for daglish (sets, plain objects with __eq__)
  def mks(shared, leaf):
    v1 = leaf()
    v2 = v1 if shared else leaf()
    return fdl.Config(f, v1, [v2])
  from layerb import pool as _pool
  for lname, leaf in (('set', lambda: {1, 2, 3}), ('object', lambda: _pool.Cls(1))):
    pairs += [(f'{lname} leaf shared==shared', mks(True, leaf), mks(True, leaf), True),
              (f'{lname} leaf distinct==distinct', mks(False, leaf), mks(False, leaf), True),
              (f'{lname} leaf shared!=distinct', mks(True, leaf), mks(False, leaf), False)]
  # which earlier object a later alias points to (all three values equal): sharing differs
  a1, a2 = fdl.Config(dags.node_fn(1), 1), fdl.Config(dags.node_fn(1), 1)
  pairs += [('third alias redirected (Config)', fdl.Config(f, a1, [a2, a1]), fdl.Config(f, a1, [a2, a2]), False),
            ('third alias redirected (list)', fdl.Config(f, {'a': (l := [1]), 'b': (m := [1]), 'c': l}),
             fdl.Config(f, {'a': l, 'b': m, 'c': m}), False),
            ('same aliasing, other objects', fdl.Config(f, a1, [a2, a1]),
             fdl.Config(f, (b1 := fdl.Config(dags.node_fn(1), 1)), [fdl.Config(dags.node_fn(1), 1), b1]), True)]
  # both sides hold the *same* sub-configuration N; a descendant of N is aliased from outside N on
  # one side and replaced by an equal copy on the other (shallow copy, then un-alias)
  enc = fdl.Config(dags.node_fn(1), 7)
  model = fdl.Config(dags.node_fn(2), enc)
  x_common = fdl.Config(f, model, enc)
  y_common = copy.copy(x_common)
  y_common.p1 = copy.deepcopy(enc)
  lst_inner = [1, 2]
  holder = fdl.Config(dags.node_fn(2), {'k': lst_inner})
  pairs += [('alias into a common subtree vs equal copy (Config)', x_common, y_common, False),
            ('alias into a common subtree vs equal copy (Config), swapped', y_common, x_common, False),
            ('alias into a common subtree vs equal copy (list)', fdl.Config(f, holder, lst_inner),
             fdl.Config(f, holder, [1, 2]), False),
            ('alias into a common subtree, both sides', fdl.Config(f, model, enc), fdl.Config(f, model, enc), True)]
  # an explicitly set argument whose value equals the parameter's default (a non-internable object),
  # shared between two nodes on one side and two separate objects on the other
  spec_shared = _pool.Cls(1)
  def two_layers(a, b):
    return fdl.Config(f, fdl.Config(_with_obj_default, spec=a), fdl.Config(_with_obj_default, spec=b))
  pairs += [('default-equal object shared vs separate', two_layers(spec_shared, spec_shared),
             two_layers(_pool.Cls(1), _pool.Cls(1)), False),
            ('default-equal object separate vs separate', two_layers(_pool.Cls(1), _pool.Cls(1)),
             two_layers(_pool.Cls(1), _pool.Cls(1)), True),
            ('default-equal list shared vs separate',
             fdl.Config(f, fdl.Config(_with_obj_default, items=(dl := [1, 2])), fdl.Config(_with_obj_default, items=dl)),
             fdl.Config(f, fdl.Config(_with_obj_default, items=[1, 2]), fdl.Config(_with_obj_default, items=[1, 2])), False)]
  # dict insertion order is ignored also when a node is shared across the entries
  sh = fdl.Config(dags.node_fn(1), 2)
  pairs += [('dict order, node shared across entries', fdl.Config(f, {'a': sh, 'b': sh}),
             fdl.Config(f, {'b': sh, 'a': sh}), True),
            ('dict order, list shared across entries', fdl.Config(f, {'a': (q := [3]), 'b': [q]}),
             fdl.Config(f, {'b': [q], 'a': q}), True)]
  # different callables that wrap the same function: the same classmethod reached through two
  # classes, the same method of two instances
  obj1, obj2 = _pool.Cls(1), _pool.Cls(2)
  pairs += [('classmethod of base vs subclass', fdl.Config(_pool.Model.create, 1), fdl.Config(_pool.BigModel.create, 1), False),
            ('classmethod, same class', fdl.Config(_pool.BigModel.create, 1), fdl.Config(_pool.BigModel.create, 1), True),
            ('nested classmethods of base vs subclass', fdl.Config(f, [fdl.Partial(_pool.Model.create)]),
             fdl.Config(f, [fdl.Partial(_pool.BigModel.create)]), False),
            ('same method of two (unequal) instances', fdl.Config(obj1.__repr__), fdl.Config(obj2.__repr__), False),
            ('same method of one instance', fdl.Config(obj1.__repr__), fdl.Config(obj1.__repr__), True)]
  inner_s = {7}
  pairs.append(('set shared below a nested Config',
                fdl.Config(f, fdl.Config(dags.node_fn(1), inner_s), inner_s),
                fdl.Config(f, fdl.Config(dags.node_fn(1), {7}), {7}), False))
  for name, a, b, want in pairs:
    n += 1
    if safe_eq(a, b)[0] is True:
      # congruence with build: equal configurations build structurally identical object graphs
      try:
        if canon.built_canon(fdl.build(a)) != canon.built_canon(fdl.build(b)):
          bad(f'{name}: the configurations compare equal but build different object graphs', name)
      except Exception as e:   # pylint: disable=broad-except
        bad(f'{name}: build raised {type(e).__name__}: {e}', name)
    for x, y in ((a, b), (b, a)):
      r, err = safe_eq(x, y)
      if err:
        bad(f'{name}: == raised {err}', name)
      elif r != want:
        bad(f'{name}: == returned {r}, expected {want}', name)
  # transitivity on a pool
  pool = [p[1] for p in pairs] + [p[2] for p in pairs]
  for a, b, c in itertools.product(pool, repeat=3):
    n += 1
    if safe_eq(a, b)[0] and safe_eq(b, c)[0] and safe_eq(a, c)[0] is False:
      bad('== is not transitive', 'transitivity')
      break
  return n, len(pairs), viols, [dict(scenario='sharing / dict keys', pairs=[p[0] for p in pairs])]


from layerb import pool as _pool_mod   # noqa: E402


def _with_obj_default(spec=_pool_mod.Cls(1), items=[1, 2]):   # pylint: disable=dangerous-default-value
  return ('layer', spec, items)


def replay(case):
  if case.get('scenario'):
    r = sharing_cases()
    m = [v for v in r[2] if v['scenario'] == case['scenario']]
    return m[0]['what'] if m else None
  r = check_sig((tuple(case['kinds']), tuple(case['hasdef'])))
  m = [v for v in r[2] if v['store'] == case['store'] and v['a'] == case['a'] and v['b'] == case['b']]
  return m[0]['what'] if m else None


def run(tier='quick', seed=0, nproc=16):
  n = 3 if tier == 'quick' else 5
  jobs = gen.shuffled([(s.kinds, s.hasdef) for s in gen.all_sigs(n)])
  res = common.pmap(check_sig, jobs, nproc)
  res.append(common.guard(sharing_cases))
  return common.merge(
      res, 'layerb.prop_C06', keyfn=lambda v: v.get('scenario'),
      rule='all ordered pairs of variants of every (signature <= %d params, store): equality-'
           'preserving rewrites (copy, deepcopy, public-API construction, other edit history, each '
           'default made explicit) must be ==, equality-breaking ones (one leaf, unset, callable, '
           'Buildable type, extra argument) must be !=; symmetry on all pairs, reflexivity, '
           'congruence with build; sharing / dict-order / mixed-key scenarios; transitivity on a '
           'pool; non-trivial = pair from different classes' % n,
      exhaustive=True, bound=f'signatures <= {n} params, <=1 vararg, <=1 extra kwarg')
