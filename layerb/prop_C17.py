"""C17, bounded part: read-only and copy-returning APIs never modify their input."""
import copy
import io
import contextlib
import fiddle as fdl
from fiddle import selectors, graphviz, printing
from fiddle._src import diffing, tagging, casting, copying
from fiddle._src.experimental import visualize, transform
from fiddle._src.experimental import serialization
from fiddle._src.validation import check_types, no_custom_objects, baseline_style
from fiddle._src.codegen import legacy_codegen, new_codegen
from fiddle._src.debug import grep as grep_lib
from layerb import canon, common, pool, gen


def _other(cfg):
  c = copy.deepcopy(cfg)
  for b in canon.mutable_ids(c)[1]:
    if isinstance(b, fdl.Buildable):
      for k in list(b.__arguments__):
        if isinstance(k, str) and not isinstance(b.__arguments__[k], (fdl.Buildable, list, dict, tuple)):
          try:
            setattr(b, k, 'OTHER')
          except Exception:   # pylint: disable=broad-except
            pass
          break
  return c


def _quiet(fn):
  def run(cfg):
    with contextlib.redirect_stdout(io.StringIO()), contextlib.redirect_stderr(io.StringIO()):
      return fn(cfg)
  return run


APIS = {
    'build': fdl.build,
    'repr': repr,
    'str': str,
    'as_str_flattened': printing.as_str_flattened,
    'as_dict_flattened': printing.as_dict_flattened,
    'history_per_leaf_parameter': printing.history_per_leaf_parameter,
    'graphviz.render': graphviz.render,
    'graphviz.render_diff': lambda c: graphviz.render_diff(old=c, new=_other(c)),
    'dump_json': serialization.dump_json,
    'build_diff': lambda c: diffing.build_diff(c, _other(c)),
    'build_diff(other, cfg)': lambda c: diffing.build_diff(_other(c), c),
    'skeleton': lambda c: diffing.build_diff(c, _other(c)).skeleton() if hasattr(diffing.Diff, 'skeleton') else None,
    'check_types': check_types.get_type_errors,
    'no_custom_objects': no_custom_objects.get_config_errors,
    'baseline_style': lambda c: baseline_style.check_baseline_style(c, ignore=[]) if False else _baseline(c),
    'legacy_codegen': lambda c: legacy_codegen.codegen_dot_syntax(c).lines(),
    'new_codegen': lambda c: new_codegen.new_codegen(c),
    'auto_config_codegen': lambda c: __import__('fiddle.codegen.codegen', fromlist=['x']).auto_config_codegen(c),
    'select-iterate': lambda c: list(selectors.select(c, pool.Cls)),
    'select-get': lambda c: list(selectors.select(c, pool.fb).get('x')),
    'select-tag-iterate': lambda c: list(selectors.select(c, tag=pool.TagA)),
    'select-get(mutable default)': lambda c: [list(selectors.select(c, with_mutable_defaults).get(a))
                                              for a in ('layer_sizes', 'options', 'names', 'rate')],
    'getattr of every parameter': lambda c: [[getattr(b, nm, None) for nm in b.__signature_info__.parameters]
                                             for b in canon.mutable_ids(c)[1] if isinstance(b, fdl.Buildable)],
    'grep': _quiet(lambda c: grep_lib.grep(c, 'a')),
    'list_tags': tagging.list_tags,
    '==': lambda c: c == copy.deepcopy(c),
    'ordered_arguments': lambda c: fdl.ordered_arguments(c, include_defaults=True),
    'cfg[:]': lambda c: c[:],
    'cast': lambda c: fdl.cast(fdl.Partial if isinstance(c, fdl.Config) else fdl.Config, c),
    'copy_with': lambda c: fdl.copy_with(c),
    'deepcopy_with': lambda c: fdl.deepcopy_with(c),
    'copy.copy': copy.copy,
    'copy.deepcopy': copy.deepcopy,
    # copy-returning APIs followed by updates of the *copy* (values, tagged values on arguments that
    # already carry tags, tag edits on every Buildable of a deep copy): the input stays as it was
    'copy_with(update)': lambda c: fdl.copy_with(c, **_updates(c)),
    'deepcopy_with(update)': lambda c: fdl.deepcopy_with(c, **_updates(c)),
    'deepcopy + tag edits on the copy': lambda c: _tag_edit_all(copy.deepcopy(c)),
    'cast + tag edits on the copy': lambda c: _tag_edit_top(fdl.cast(type(c), c)),
    'materialize_tags': tagging.materialize_tags,
    'materialize_tags(clear)': lambda c: tagging.materialize_tags(c, tags={pool.TagA}, clear_field_tags=True),
    'clear_argument_history': lambda c: __import__('fiddle._src.mutate_buildable', fromlist=['x']).clear_argument_history(c)
    if hasattr(__import__('fiddle._src.mutate_buildable', fromlist=['x']), 'clear_argument_history') else None,
    'with_defaults_trimmed': visualize.with_defaults_trimmed,
    'with_defaults_trimmed(deep)': lambda c: visualize.with_defaults_trimmed(c, remove_deep_defaults=True),
    'depth_over': lambda c: visualize.depth_over(c, 1),
    'trimmed': lambda c: visualize.trimmed(c, visualize.depth_over(c, 1)),
    'structure': visualize.structure,
    'trim_fields_to': lambda c: visualize.trim_fields_to(c, ['p', 'x', 'u']),
    'trim_long_fields': lambda c: visualize.trim_long_fields(c, threshold=3),
    'unintern_tuples_of_literals': transform.unintern_tuples_of_literals,
    'replace_unconfigured_partials': transform.replace_unconfigured_partials_with_callables,
}


def _updates(c):
  """Keyword updates for copy_with / deepcopy_with: a tagged value for an argument that already
  carries tags (if any), a plain value for another named argument."""
  if not isinstance(c, fdl.Buildable):
    return {}
  out = {}
  tagged = [k for k, ts in c.__argument_tags__.items() if isinstance(k, str) and ts]
  if tagged:
    out[tagged[0]] = pool.TagB.new('tagged-update')
  named = [k for k in c.__arguments__ if isinstance(k, str) and k not in out]
  if named:
    out[named[0]] = 'plain-update'
  return out


def _tag_edit_top(b):
  if isinstance(b, fdl.Buildable):
    for k in [k for k in list(b.__argument_tags__) + list(b.__arguments__) if isinstance(k, str)]:
      try:
        fdl.add_tag(b, k, pool.TagB)
        fdl.add_tag(b, k, pool.TagA2)
        fdl.remove_tag(b, k, pool.TagB)
      except Exception:   # pylint: disable=broad-except
        pass
  return b


def _tag_edit_all(root):
  _, keep = canon.mutable_ids(root)
  for b in keep:
    _tag_edit_top(b)
  return root


def _baseline(c):
  try:
    return baseline_style.check_baseline_style(c)
  except Exception:   # pylint: disable=broad-except
    return None


def long_config():
  return fdl.Config(pool.fc, 'x' * 50, q=[list(range(30)), fdl.Config(pool.fb, 'y' * 40)],
                    r={'k': 'z' * 60, 't': tuple(range(20))})


def partial_tree():
  mlp = fdl.Config(pool.Cls, 1)
  return fdl.Config(pool.fc, fdl.Partial(pool.fc, mlp, q=2), q=fdl.Partial(pool.fc, mlp), r=[fdl.Partial(pool.fb)])


def tags_only():
  return fdl.Config(pool.fc, fdl.Config(pool.fc, p=pool.TagA.new(), q=pool.TagB.new()), q=1)


def normalise_in_place(vocab=None, options=None, *rest, **kw):
  """A configured callable that normalises the containers it receives in place."""
  if isinstance(vocab, list):
    vocab.sort()
    vocab[:0] = ['<pad>']
  if isinstance(options, dict):
    options.setdefault('normalised', True)
  for r in rest:
    if isinstance(r, list):
      r.append('seen')
  for v in kw.values():
    if isinstance(v, dict):
      v.clear()
  return ('normalised', tuple(vocab or ()), tuple(sorted(map(str, (options or {}).items()))))


def callable_mutating_its_arguments():
  shared = ['pear', 'apple', 'fig']
  return fdl.Config(normalise_in_place, shared, {'lower': 1}, [], shared,
                    deep={'d': 1}, sub=fdl.Partial(normalise_in_place, ['b', 'a'], {}),
                    also=fdl.Config(normalise_in_place, shared, options={}))


def with_mutable_defaults(layer_sizes=[128, 64], options={'act': 'relu'}, names={'n'}, rate=0.1):   # pylint: disable=dangerous-default-value
  return ('model', tuple(layer_sizes), tuple(sorted(options.items())), tuple(sorted(names)), rate)


def unset_mutable_defaults():
  """Arguments that are not set, have list / dict / set defaults and are reachable through a tag."""
  model = fdl.Config(with_mutable_defaults)
  for arg in ('layer_sizes', 'options', 'names', 'rate'):
    fdl.add_tag(model, arg, pool.TagA)
  return fdl.Config(pool.fc, model, q=[model, fdl.Partial(with_mutable_defaults, rate=0.5)])


def get_factories():
  P = dict(pool.make_pool())
  P['long-values'] = long_config
  P['partial-tree-shared'] = partial_tree
  P['tags-without-values'] = tags_only
  P['callable-mutating-its-arguments'] = callable_mutating_its_arguments
  P['unset-arguments-with-mutable-defaults'] = unset_mutable_defaults
  return P


def check_case(args):
  name, api = args
  factory = get_factories()[name]
  viols = []
  cfg = factory()
  before = canon.canon(cfg, with_history=True, ordered_dicts=True)
  ids_before, keep = canon.mutable_ids(cfg)
  try:
    APIS[api](cfg)
    outcome = 'ok'
  except Exception as e:   # pylint: disable=broad-except
    outcome = f'raised {type(e).__name__}'
  after = canon.canon(cfg, with_history=True, ordered_dicts=True)
  ids_after, keep2 = canon.mutable_ids(cfg)
  if after != before or ids_after != ids_before:
    viols.append(dict(config=name, api=api, what=f'{api} modified its input ({outcome})',
                      sig=name, store=api, op=outcome))
  return 1, 1 if outcome == 'ok' else 0, viols, ([dict(config=name, api=api, outcome=outcome)]
                                                  if name == 'shared-node' and api == 'trimmed' else [])


def replay(case):
  r = check_case((case['config'], case['api']))
  return r[2][0]['what'] if r[2] else None


def run(tier='quick', seed=0, nproc=16):
  names = list(get_factories())
  jobs = [(n, a) for n in names for a in APIS]
  res = common.pmap(check_case, gen.shuffled(jobs), nproc)
  return common.merge(
      res, 'layerb.prop_C17', keyfn=lambda v: f"{v['api']}",
      rule='every API of the table (%d entry points: build, printing, graphviz, serialization, '
           'diffing, validation, codegen, selection iteration, grep, cast/copy_with/deepcopy_with, '
           'materialize_tags, visualization trimming helpers, transform) x every pool configuration '
           '(shared nodes, long values, tags, positional arguments): canonical form incl. history '
           'and dict order, and the identity map of all reachable mutable objects, before = after; '
           'non-trivial = the API ran without raising' % len(APIS),
      exhaustive=True, bound='%d APIs x %d configurations' % (len(APIS), len(names)))
