"""C03, bounded part: all edit operations (and sequences) on all small signatures/stores."""
from layerb import gen, c03, common


def run(tier='quick', seed=0, nproc=16):
  if tier == 'quick':
    jobs = [(s.kinds, s.hasdef, 'quick', 1, 2) for s in gen.all_sigs(3)]
    jobs += [(s.kinds, s.hasdef, 'quick', 2, 2) for s in gen.all_sigs(2)]
    bound = 'signatures <=3 params x all stores (<=2 varargs, <=1 extra kwarg) x every single op; ' \
            'sequences of 2 ops for signatures <=2 params'
  else:
    jobs = [(s.kinds, s.hasdef, 'thorough', 1, 3) for s in gen.all_sigs(4)]
    jobs += [(s.kinds, s.hasdef, 'quick', 2, 2) for s in gen.all_sigs(3)]
    bound = 'signatures <=4 params x all stores (<=3 varargs) x every single op (steps +-1..3); ' \
            'sequences of 2 ops for signatures <=3 params'
  jobs = gen.shuffled(jobs)
  res = common.pmap(c03.check_sig, jobs, nproc)
  res.append(common.guard(c03.mutable_defaults_case))
  res.append(common.guard(c03.explicit_none_case))
  return common.merge(
      res, 'layerb.c03',
      rule='exhaustive enumeration: signature shape x canonical store x get/set/del by name, index, '
           'negative index, VARARGS, slice (all start/stop in [-(L+1), L+1], steps None,+-1,+-2, '
           'value lengths 0..3); real Buildable vs reference model (dict restricted to the '
           'signature + list with fixed prefix); non-trivial = a mutating op on a distinct '
           '(signature, store, op)',
      exhaustive=True, bound=bound)
