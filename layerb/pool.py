"""A pool of diverse, picklable configurations shared by the copy / tag / history /
serialization / diff / read-only checks (module-level callables so that pickle and JSON work)."""
import dataclasses
import typing
import collections
import enum
import fiddle as fdl
from fiddle import Tag


class TagA(Tag):
  """tag a."""


class TagB(Tag):
  """tag b."""


class TagA1(TagA):
  """subclass of a."""


class TagA2(TagA1):
  """sub-subclass of a."""


class Color(enum.Enum):
  RED = 1
  BLUE = 2


class Level(enum.IntEnum):
  LOW = 16
  HIGH = 32


class Perm(enum.IntFlag):
  R = 4
  W = 2


class Mode(str, enum.Enum):
  TRAIN = 'train'
  EVAL = 'eval'


class Label(str):
  """A user subclass of str."""


class Ratio(float):
  """A user subclass of float."""


class Count(int):
  """A user subclass of int."""


class Pt(typing.NamedTuple):
  x: typing.Any
  y: typing.Any = 0


class Span(collections.namedtuple('Span', ['start', 'stop'])):
  """A class that *subclasses* a named tuple class (the usual idiom for adding methods)."""
  __slots__ = ()

  def width(self):
    return self.stop - self.start


class LabelledPt(Pt):
  """Subclass of a typing.NamedTuple class."""

  def label(self):
    return f'{self.x}/{self.y}'


def fa(a, b=2, /, c=3, *args, k=None, **kw):
  return ('fa', a, b, c, args, k, tuple(sorted(kw.items())))


def fb(x=0, y=1):
  return ('fb', x, y)


def fc(p, q=None, *, r=5):
  return ('fc', p, q, r)


def fd(*items, **named):
  return ('fd', items, tuple(sorted(named.items())))


class Cls:
  def __init__(self, u, v=10):
    self.u, self.v = u, v

  def __eq__(self, o):
    return isinstance(o, Cls) and (self.u, self.v) == (o.u, o.v)

  def __repr__(self):
    return f'Cls({self.u!r}, {self.v!r})'


class SubCls(Cls):
  pass


@dataclasses.dataclass
class DC:
  m: int = 1
  n: typing.List[int] = dataclasses.field(default_factory=list)


def annotated(w: typing.Annotated[int, TagA] = 4, z: int = 5):
  return ('annotated', w, z)


class AnnotatedInit:
  """A plain class: the tags sit on the parameters of __init__, the class itself has no annotations."""

  def __init__(self, w: typing.Annotated[int, TagA] = 4, z: typing.Annotated[int, TagB] = 5):
    self.w, self.z = w, z

  def __eq__(self, o):
    return isinstance(o, AnnotatedInit) and (self.w, self.z) == (o.w, o.z)

  def __repr__(self):
    return f'AnnotatedInit({self.w!r}, {self.z!r})'


@dataclasses.dataclass
class AnnotatedDC:
  w: typing.Annotated[int, TagA1] = 4


@dataclasses.dataclass
class AnnotatedDCChild(AnnotatedDC):
  """Adds no field of its own: the tagged field is inherited."""


class DenseLayer:
  """A class whose snake_cased name collides with the function below."""

  def __init__(self, units=1):
    self.units = units

  def __eq__(self, o):
    return isinstance(o, DenseLayer) and o.units == self.units

  def __repr__(self):
    return f'DenseLayer({self.units})'


def dense_layer(units=1):
  return ('dense_layer', units)


class Model:
  """A class with a classmethod constructor that a subclass inherits."""

  def __init__(self, size=1):
    self.size = size

  @classmethod
  def create(cls, size=2):
    return (cls.__name__, size)


class BigModel(Model):
  pass


def make_pool():
  """Returns [(name, factory)] ; every factory call builds a fresh configuration."""
  P = []

  def add(name):
    def deco(fn):
      P.append((name, fn))
      return fn
    return deco

  @add('plain')
  def _():
    return fdl.Config(fb, 1, y=2)

  @add('explicit-none-over-defaults')
  def _():
    # None set explicitly where the default is something else: positional-only, positional-or-
    # keyword, *args, keyword-only, **kwargs, and in a nested node
    return fdl.Config(fnone, None, None, None, None, 5, k=None, extra=None,
                      sub=fdl.Partial(fb, None, y=None))

  @add('positional+varargs+kwargs')
  def _():
    return fdl.Config(fa, 1, 2, 3, 4, 5, k='k', extra=7)

  @add('partial-positional')
  def _():
    return fdl.Partial(fa, 1, c='c', k=[1, 2])

  @add('nested')
  def _():
    return fdl.Config(fc, fdl.Config(fb, 1), q=[fdl.Config(Cls, 1), {'d': fdl.Partial(fb, y=3)}], r=(1, 2))

  @add('shared-node')
  def _():
    s = fdl.Config(Cls, 'shared')
    return fdl.Config(fc, s, q=[s, (s, 1)], r={'a': s})

  @add('shared-containers')
  def _():
    l = [1, 2]
    d = {'k': l}
    return fdl.Config(fc, l, q=d, r=[l, d])

  @add('equal-but-distinct')
  def _():
    return fdl.Config(fc, fdl.Config(fb, 1), q=fdl.Config(fb, 1))

  @add('tags')
  def _():
    c = fdl.Config(fa, 1, 2, 3, 9, k=4, extra=5)
    fdl.add_tag(c, 'c', TagA)
    fdl.add_tag(c, 'k', TagB)
    fdl.add_tag(c, 'k', TagA1)
    fdl.add_tag(c, 'extra', TagB)
    return c

  @add('tags-positional')
  def _():
    c = fdl.Config(fa, 1, 2, 3, 9, 8)
    c.__argument_tags__[0].add(TagA)
    c.__argument_tags__[4].add(TagB)
    return c

  @add('tagged-values')
  def _():
    return fdl.Config(fc, TagA.new(1), q=[TagB.new(2), (TagA2.new(3),)], r=TagA1.new())

  @add('tag-no-value')
  def _():
    c = fdl.Config(fd)
    c.named_thing = TagA.new()
    fdl.add_tag(c, 'other', TagB)
    return c

  @add('annotation-tags')
  def _():
    return fdl.Config(annotated, z=1)

  @add('annotation-tags-on-classes')
  def _():
    return fdl.Config(fc, fdl.Config(AnnotatedInit, z=1), q=[fdl.Config(AnnotatedDCChild), fdl.Partial(AnnotatedDC, 7)])

  @add('dataclass')
  def _():
    return fdl.Config(DC, n=[1, 2])

  @add('class-hierarchy')
  def _():
    return fdl.Config(fc, fdl.Config(Cls, 1), q=fdl.Config(SubCls, 2), r=[fdl.Partial(SubCls, 3)])

  @add('containers')
  def _():
    return fdl.Config(fc, Pt(1, [2]), q=collections.defaultdict(list, a=[1]), r={'t': (), 'l': []})

  @add('argfactory')
  def _():
    return fdl.Partial(fc, fdl.ArgFactory(list), q=[fdl.ArgFactory(fb, 1)], r=fdl.Config(fb))

  @add('leaves')
  def _():
    return fdl.Config(fc, Color.RED, q=b'bytes', r=[1.5, None, True, 'str', fb, Cls])

  @add('callables-with-colliding-names')
  def _():
    return fdl.Config(fc, fdl.Config(DenseLayer, 1), q=fdl.Config(dense_layer, 2),
                      r=[fdl.Config(DenseLayer, 3), fdl.Partial(dense_layer, 4), fdl.Config(DenseLayer, 1)])

  @add('classmethod-constructors')
  def _():
    # `BigModel.create` is a classmethod defined on the base class, reached through the subclass
    return fdl.Config(fc, fdl.Config(Model.create, 3), q=fdl.Config(BigModel.create, 4), r=[fdl.Partial(BigModel.create)])

  @add('all-leaf-arguments-with-sets')
  def _():
    # no argument is a daglish-traversable container, but two of them are mutable containers
    return fdl.Config(fc, {1, 2}, q='text', r=frozenset({3}))

  @add('nested-all-leaf-with-sets')
  def _():
    return fdl.Config(fc, fdl.Config(fb, {3, 4}), q=[fdl.Partial(fb, y={'a'})], r=fdl.ArgFactory(fb, {5}))

  return P


def edits():
  """Edit sequences applied to a copy: (name, fn(cfg))."""
  def set_first(cfg):
    names = [k for k in cfg.__arguments__ if isinstance(k, str)]
    if names:
      setattr(cfg, names[0], 'EDITED')
  def del_first(cfg):
    names = [k for k in cfg.__arguments__ if isinstance(k, str)]
    if names:
      delattr(cfg, names[0])
  def tag_all(cfg):
    for k in list(cfg.__arguments__):
      if isinstance(k, str):
        try:
          fdl.add_tag(cfg, k, TagB)
        except Exception:   # pylint: disable=broad-except
          pass
    for k, ts in list(cfg.__argument_tags__.items()):
      if isinstance(k, str) and TagA in ts:
        fdl.remove_tag(cfg, k, TagA)
  def index_edit(cfg):
    try:
      cfg[0] = 'IDX'
    except Exception:   # pylint: disable=broad-except
      pass
  def clear_tags(cfg):
    for k in list(cfg.__argument_tags__):
      if isinstance(k, str):
        try:
          fdl.clear_tags(cfg, k)
        except Exception:   # pylint: disable=broad-except
          pass
  def set_tags(cfg):
    for k in list(cfg.__arguments__):
      if isinstance(k, str):
        try:
          fdl.set_tags(cfg, k, {TagA2})
        except Exception:   # pylint: disable=broad-except
          pass
  return [('setattr', set_first), ('delattr', del_first), ('tags', tag_all), ('index', index_edit),
          ('clear_tags', clear_tags), ('set_tags', set_tags)]


def fkord(x=0, **kw):
  """Observes the order in which its keyword arguments arrive."""
  return ('fkord', x, tuple(kw.items()))


def fnone(a=1, b='two', /, c=3.0, *rest, k=(4,), **kw):
  """Every parameter has a default that is not None."""
  return ('fnone', a, b, c, rest, k, tuple(sorted(kw.items())))


def fb2(x=0, y=1, z=2):
  return ('fb2', x, y, z)


def fk(x=0, **kw):
  return ('fk', x, tuple(sorted(kw.items())))


def fk2(x=0, y=1, **kw):
  return ('fk2', x, y, tuple(sorted(kw.items())))
