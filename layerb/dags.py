"""Enumeration of small DAG shapes over Buildables and containers (DESIGN.md §3).

A shape is a tuple of nodes in topological order; node i = (kind, slots) where every slot is
either 'x' (a leaf) or the index j > i of a later node.  Node 0 is the root; every node is
reachable.  Kinds: C = fdl.Config, P = fdl.Partial, L = list, T = tuple, D = dict."""
import itertools
import fiddle as fdl
from layerb import gen


def all_shapes(n_nodes, kinds='CLTD', max_slots=2, root_kinds=None):
  root_kinds = root_kinds or kinds
  out = []

  def slot_choices(i):
    later = list(range(i + 1, n_nodes))
    opts = ['x'] + later
    res = []
    for s in range(0, max_slots + 1):
      res.extend(itertools.product(opts, repeat=s))
    return res

  per_node = [slot_choices(i) for i in range(n_nodes)]
  for slots in itertools.product(*per_node):
    reach = {0}
    for i in range(n_nodes):
      if i in reach:
        reach.update(s for s in slots[i] if s != 'x')
    if len(reach) != n_nodes:
      continue
    for ks in itertools.product(kinds, repeat=n_nodes):
      if ks[0] not in root_kinds:
        continue
      out.append(tuple(zip(ks, slots)))
  return out


def shapes_upto(n, **kw):
  out = []
  for k in range(1, n + 1):
    out.extend(all_shapes(k, **kw))
  return out


_node_fns = {}


def node_fn(i):
  """Recording callable for node i: def n<i>(a=<D>, b=<D>)."""
  if i not in _node_fns:
    sig = gen.SigSpec((gen.PK, gen.PK), (True, True))
    _node_fns[i] = gen.make_fn(sig, f'n{i}')
  return _node_fns[i]


def build_shape(shape, leaf=lambda i, s: i * 10 + s, cfg_cls=None):
  """Materialises the shape; returns (root, [node objects])."""
  n = len(shape)
  objs = [None] * n
  for i in range(n - 1, -1, -1):
    kind, slots = shape[i]
    vals = [leaf(i, s) if t == 'x' else objs[t] for s, t in enumerate(slots)]
    if kind in 'CP':
      cls = {'C': fdl.Config, 'P': fdl.Partial}[kind] if cfg_cls is None or kind == 'P' else cfg_cls
      cfg = cls(node_fn(i))
      for name, v in zip(('p0', 'p1'), vals):
        setattr(cfg, name, v)
      objs[i] = cfg
    elif kind == 'L':
      objs[i] = list(vals)
    elif kind == 'T':
      objs[i] = tuple(vals)
    elif kind == 'D':
      objs[i] = {f'k{s}': v for s, v in enumerate(vals)}
    else:
      raise ValueError(kind)
  return objs[0], objs


def label(shape):
  return ' '.join(k + ''.join(str(s) for s in sl) for k, sl in shape)


def paths_to(shape):
  """Independent computation of all root paths of every node: node index -> set of paths,
  a path being a tuple of (kind-of-parent, slot) steps."""
  n = len(shape)
  paths = {i: set() for i in range(n)}
  paths[0].add(())
  for i in range(n):
    kind, slots = shape[i]
    for s, t in enumerate(slots):
      if t != 'x':
        for p in paths[i]:
          paths[t].add(p + ((kind, s),))
  return paths
