"""C15, bounded part: select() hits exactly the matching nodes; replace keeps the rest intact."""
import copy
import itertools
import fiddle as fdl
from fiddle import selectors
from fiddle._src import config as config_lib
from layerb import canon, common, pool, gen, dags
from layerb.prop_C14 import reachable_buildables


def fnA(p0=None, p1=None):
  return ('fnA', p0, p1)


class Base:
  def __init__(self, p0=None, p1=None):
    self.p0, self.p1 = p0, p1


class Derived(Base):
  pass


class Other:
  def __init__(self, p0=None, p1=None):
    self.p0, self.p1 = p0, p1


CALLABLES = [fnA, Base, Derived, Other]


def build(shape, assign):
  """assign: per C/P node index -> callable index."""
  n = len(shape)
  objs = [None] * n
  for i in range(n - 1, -1, -1):
    kind, slots = shape[i]
    vals = [i * 10 + s if t == 'x' else objs[t] for s, t in enumerate(slots)]
    if kind in 'CP':
      cls = fdl.Config if kind == 'C' else fdl.Partial
      cfg = cls(CALLABLES[assign[i]])
      for nm, v in zip(('p0', 'p1'), vals):
        setattr(cfg, nm, v)
      objs[i] = cfg
    elif kind == 'L':
      objs[i] = list(vals)
    else:
      objs[i] = {f'k{s}': v for s, v in enumerate(vals)}
  return objs[0], objs


def matches(node, target, match_subclasses, btype):
  if not isinstance(node, btype):
    return False
  f = node.__fn_or_cls__
  if f is target:
    return True
  return (match_subclasses and isinstance(f, type) and isinstance(target, type)
          and issubclass(f, target))


def check_case(args):
  shape, assign, target_i, msub, btype_name = args
  target = CALLABLES[target_i]
  btype = {'Buildable': fdl.Buildable, 'Config': fdl.Config, 'Partial': fdl.Partial}[btype_name]
  viols = []
  def bad(what):
    viols.append(dict(shape=[[k, list(s)] for k, s in shape], assign=list(assign), target=target_i,
                      msub=msub, btype=btype_name, what=what, sig=dags.label(shape),
                      store=f'{target.__name__}/{msub}/{btype_name}', op='select'))
  root, objs = build(shape, assign)
  if not isinstance(root, fdl.Buildable):
    return 0, 0, [], []
  nodes = reachable_buildables(root)
  want = [b for b in nodes if matches(b, target, msub, btype)]
  sel = selectors.select(root, target, match_subclasses=msub, buildable_type=btype)
  got = list(sel)
  if sorted(map(id, got)) != sorted(map(id, want)):
    bad(f'select yielded {len(got)} nodes ({len(set(map(id, got)))} distinct), '
        f'{len(want)} reachable nodes match')
  # .set assigns on exactly those nodes
  r2, o2 = build(shape, assign)
  nodes2 = reachable_buildables(r2)
  want2 = {id(b) for b in nodes2 if matches(b, target, msub, btype)}
  before = {id(b): dict(b.__arguments__) for b in nodes2}
  selectors.select(r2, target, match_subclasses=msub, buildable_type=btype).set(p1='SET')
  for b in nodes2:
    if id(b) in want2:
      if b.__arguments__.get('p1') != 'SET':
        bad('.set did not assign on a matching node')
    elif dict(b.__arguments__) != before[id(b)]:
      bad('.set changed a non-matching node')
  # .set assigns the very object passed in, also where an equal value is already stored
  r2b, _ = build(shape, assign)
  m2b = [b for b in reachable_buildables(r2b) if matches(b, target, msub, btype)]
  leafy = [b for b in m2b if not isinstance(b.__arguments__.get('p1'), (config_lib.Buildable, list, dict))]
  for j, b in enumerate(leafy):      # only slots that hold no sub-structure: nothing drops out
    b.p1 = [1, 'x'] if j % 2 == 0 else 1
  for new in ([1, 'x'], 1.0):
    selectors.select(r2b, target, match_subclasses=msub, buildable_type=btype).set(p1=new)
    still = {id(x) for x in reachable_buildables(r2b)}
    for b in leafy:
      if id(b) not in still:
        continue                     # was inside a subtree that another assignment replaced
      got_v = b.__arguments__.get('p1')
      if got_v is not new:
        bad(f'.set(p1={new!r}) left {got_v!r} (type {type(got_v).__name__}) on a matching node that '
            'already held an equal value: the node does not hold the value passed in')
        break
  # .replace substitutes at every reference, other Buildables keep identity / arguments / place
  r3, o3 = build(shape, assign)
  nodes3 = reachable_buildables(r3)
  m3 = [b for b in nodes3 if matches(b, target, msub, btype)]
  if matches(r3, target, msub, btype):
    return 1, 1, viols, []      # replacing the root is an error by design
  marker = fdl.Config(fnA, 'REPLACEMENT')
  exp = _expected_after_replace(r3, {id(b) for b in m3})
  keep_ids = {id(b): b for b in nodes3 if id(b) not in {id(x) for x in m3}}
  must_survive = exp_reachable_ids(nodes3, r3, {id(x) for x in m3})   # computed BEFORE the edit
  try:
    selectors.select(r3, target, match_subclasses=msub, buildable_type=btype).replace(marker, deepcopy=False)
  except Exception as e:   # pylint: disable=broad-except
    bad(f'replace raised {type(e).__name__}: {e}')
    return 1, 1, viols, []
  got_c = _canon_marker(r3, marker)
  if got_c != exp:
    bad(f'after replace the graph is {got_c}, expected {exp}')
  after_nodes = {id(b) for b in reachable_buildables(r3)}
  # every non-matching Buildable that is still reachable (not inside a replaced subtree) is the
  # same object; the ones outside replaced subtrees must still be reachable
  for i, b in keep_ids.items():
    if i in must_survive and i not in after_nodes:
      bad('a non-matching Buildable lost its identity (it was rebuilt or dropped)')
  return 1, 1 if want else 0, viols, ([dict(shape=dags.label(shape), target=target.__name__, msub=msub)]
                                      if len(want) > 1 else [])


def exp_reachable_ids(nodes, root, matched):
  """ids of Buildables reachable from root without passing through a matched node."""
  out = set()
  def go(x):
    if isinstance(x, config_lib.Buildable):
      if id(x) in matched or id(x) in out:
        return
      out.add(id(x))
      for v in x.__arguments__.values():
        go(v)
    elif isinstance(x, (list, tuple)):
      for v in x:
        go(v)
    elif isinstance(x, dict):
      for v in x.values():
        go(v)
  go(root)
  return out


def _expected_after_replace(root, matched):
  """Canonical form of the graph with every reference to a matched node replaced by MARK."""
  labels = {}
  def go(x):
    if isinstance(x, config_lib.Buildable):
      if id(x) in matched:
        return 'MARK'
      if id(x) in labels:
        return ('ref', labels[id(x)])
      labels[id(x)] = len(labels)
      return ('B', labels[id(x)], type(x).__name__, x.__fn_or_cls__.__name__,
              tuple((k, go(v)) for k, v in sorted(x.__arguments__.items(), key=lambda e: str(e[0]))))
    if isinstance(x, list):
      return ('L', tuple(go(v) for v in x))
    if isinstance(x, dict):
      return ('D', tuple((k, go(v)) for k, v in x.items()))
    return ('leaf', repr(x))
  return go(root)


def _canon_marker(root, marker):
  labels = {}
  def go(x):
    if x is marker:
      return 'MARK'
    if isinstance(x, config_lib.Buildable):
      if id(x) in labels:
        return ('ref', labels[id(x)])
      labels[id(x)] = len(labels)
      return ('B', labels[id(x)], type(x).__name__, x.__fn_or_cls__.__name__,
              tuple((k, go(v)) for k, v in sorted(x.__arguments__.items(), key=lambda e: str(e[0]))))
    if isinstance(x, list):
      return ('L', tuple(go(v) for v in x))
    if isinstance(x, dict):
      return ('D', tuple((k, go(v)) for k, v in x.items()))
    return ('leaf', repr(x))
  return go(root)


def tag_iter_case(_=None):
  """Iterating a tag selection yields value, else default, else NO_VALUE (str and int keys)."""
  viols = []
  def f(a, b=2, /, c=3, *args, k=None, r):
    return None
  cfg = fdl.Config(f, 1)
  for key in (0, 1, 'c', 'k', 'r'):
    fdl.add_tag(cfg, key, pool.TagA)
  cfg.__argument_tags__[5].add(pool.TagA)     # variadic position without a value
  got = sorted(map(repr, selectors.select(cfg, tag=pool.TagA)))
  want = sorted(map(repr, [1, 2, 3, None, fdl.NO_VALUE, fdl.NO_VALUE]))
  if got != want:
    viols.append(dict(what=f'tag selection iterated {got}, expected {want}', tagiter=True,
                      shape=[], sig='tag-iter', store='', op=''))
  # tag hierarchies: selecting by a tag reaches arguments tagged with it, its subclasses and their
  # subclasses (iteration and replace), and nothing tagged otherwise
  def g(u=1, v=2, w=3, x=4, y=5):
    return None
  def mk():
    inner = fdl.Config(g)
    fdl.add_tag(inner, 'u', pool.TagA)
    fdl.add_tag(inner, 'v', pool.TagA1)
    fdl.add_tag(inner, 'w', pool.TagA2)
    fdl.add_tag(inner, 'x', pool.TagB)
    fdl.set_tags(inner, 'y', [pool.TagB, pool.TagA2])
    return fdl.Config(pool.fc, inner, q=[inner, fdl.Config(g, w=pool.TagA2.new(30))])
  for tag, want_vals in ((pool.TagA, [1, 2, 3, 5, 30]), (pool.TagA1, [2, 3, 5, 30]), (pool.TagA2, [3, 5, 30]),
                         (pool.TagB, [4, 5])):
    got_vals = sorted(selectors.select(mk(), tag=tag))
    if got_vals != want_vals:
      viols.append(dict(what=f'select(tag={tag.__name__}) over a three-level tag hierarchy iterated {got_vals}, the '
                             f'arguments whose tags are {tag.__name__} or derive from it hold {want_vals}',
                        tagiter=True, shape=[], sig='tag-iter', store=tag.__name__, op=''))
    root = mk()
    selectors.select(root, tag=tag).replace('R')
    inner = root.p
    now = [inner.u, inner.v, inner.w, inner.x, inner.y, root.q[1].w]
    want_now = ['R' if v in want_vals else v for v in (1, 2, 3, 4, 5, 30)]
    if now != want_now:
      viols.append(dict(what=f'select(tag={tag.__name__}).replace over a three-level tag hierarchy left {now}, '
                             f'expected {want_now}', tagiter=True, shape=[], sig='tag-iter', store=tag.__name__, op=''))
  return 5, 5, viols, []


def bound_method_case(_=None):
  """Selecting by a bound method (classmethod constructor, method of an instance): every attribute
  access creates a new bound-method object that is == to the others; the selection reaches exactly
  the reachable Buildables whose callable equals it."""
  viols = []
  def bad(what, name):
    viols.append(dict(what=what, shape=[], sig='bound-method', store=name, op='', boundmethod=True))
  inst = pool.Cls(1)
  def mk():
    shared = fdl.Config(pool.Model.create, 5)
    other = fdl.Config(pool.BigModel.create, 6)
    part = fdl.Partial(pool.Model.create)
    meth = fdl.Config(inst.__eq__, 3)
    return fdl.Config(pool.fk, [shared, other], a=shared, b={'p': part, 'm': (meth,)}), [shared, other, part, meth]
  n = 0
  for name, target, want_idx, kw in [
      ('classmethod of the base class', lambda: pool.Model.create, [0, 2], {}),
      ('classmethod of the base class, match_subclasses=False', lambda: pool.Model.create, [0, 2], {'match_subclasses': False}),
      ('classmethod reached through the subclass', lambda: pool.BigModel.create, [1], {}),
      ('classmethod, Partial only', lambda: pool.Model.create, [2], {'buildable_type': fdl.Partial}),
      ('method of an instance', lambda: inst.__eq__, [3], {}),
  ]:
    n += 1
    root, nodes = mk()
    want = [nodes[i] for i in want_idx]
    try:
      got = list(selectors.select(root, target(), **kw))
    except Exception as e:   # pylint: disable=broad-except
      bad(f'{name}: select raised {type(e).__name__}: {str(e)[:80]}', name)
      continue
    if sorted(map(id, got)) != sorted(map(id, want)):
      bad(f'{name}: the selection yields {len(got)} node(s), the reachable Buildables whose callable equals the '
          f'selected one are {len(want)}', name)
      continue
    if name == 'classmethod of the base class':
      selectors.select(root, target()).set(size=11)
      if [nd.size for nd in nodes[:3]] != [11, 6, 11]:
        bad(f'{name}: set(size=11) assigned {[getattr(nd, "size", None) for nd in nodes[:3]]}', name)
      selectors.select(root, target()).replace('R')
      if root.x[0] != 'R' or root.a != 'R' or root.b['p'] != 'R' or root.x[1] is not nodes[1]:
        bad(f'{name}: replace did not substitute every reference to the matched nodes', name)
  return n, n, viols, [dict(scenario='selection by bound method', cases=n)]


def replay(case):
  if case.get('boundmethod'):
    r = bound_method_case()
    m = [v for v in r[2] if v['store'] == case.get('store')]
    return m[0]['what'] if m else None
  if case.get('tagiter'):
    r = tag_iter_case()
  else:
    shape = tuple((k, tuple(s)) for k, s in case['shape'])
    r = check_case((shape, tuple(case['assign']), case['target'], case['msub'], case['btype']))
  return r[2][0]['what'] if r[2] else None


def run(tier='quick', seed=0, nproc=16):
  n = 3
  jobs = []
  for shape in dags.shapes_upto(n, kinds='CPLD', root_kinds='CP'):
    cidx = [i for i, (k, _) in enumerate(shape) if k in 'CP']
    # every Buildable node is given the function, the base class or the derived class
    assigns = list(itertools.product((0, 1, 2), repeat=len(cidx)))
    if tier == 'quick' and len(shape) == 3 and len(cidx) == 3:
      # chains and diamonds of three Buildables: all 27 assignments; other 3-node shapes sampled
      pass
    elif tier == 'quick' and len(assigns) > 9:
      assigns = gen.shuffled(assigns, salt=len(shape))[:9]
    for a in assigns:
      amap = {i: a[t] for t, i in enumerate(cidx)}
      for target in (0, 1):
        for msub in (True, False):
          for bt in ('Buildable', 'Config', 'Partial'):
            jobs.append((shape, tuple(amap.get(i, 0) for i in range(len(shape))), target, msub, bt))
  res = common.pmap(check_case, gen.shuffled(jobs), nproc)
  res.append(common.guard(tag_iter_case))
  res.append(common.guard(bound_method_case))
  return common.merge(
      res, 'layerb.prop_C15',
      rule='DAG shapes <= 3 nodes over Config/Partial/list/dict x assignments of callables '
           '(function, class hierarchy Base<-Derived, unrelated class) x target x match_subclasses x '
           'buildable_type: yielded identity multiset = independent walk + spec predicate; .set '
           'touches exactly the matches; .replace: graph with every reference substituted, '
           'non-matching Buildables keep identity; tag selection iteration incl. int keys',
      exhaustive=(tier != 'quick'), bound='DAGs <= 3 nodes')
