"""Canonical form of an object graph (DESIGN.md §3): a labelling by first-visit order that
records, per node, type, callable, argument keys/values, tags, and for every edge the label of
the target — equal canonical forms <=> same values and same sharing.  Written independently of
fiddle's own traversal code (it walks __arguments__ / containers directly)."""
import collections
import dataclasses
import enum
import types

import fiddle as fdl
from fiddle._src import config as config_lib

LEAF_TYPES = (int, float, complex, str, bytes, bool, type(None), enum.Enum, type,
              types.FunctionType, types.BuiltinFunctionType)


def is_leaf(x):
  return isinstance(x, LEAF_TYPES) or x is fdl.NO_VALUE


def _is_namedtuple(x):
  return isinstance(x, tuple) and hasattr(type(x), '_fields')


def children(x):
  """[(edge label, child)] for the container kinds the properties quantify over."""
  if isinstance(x, config_lib.Buildable):
    return [(('arg', k), v) for k, v in x.__arguments__.items()]
  if isinstance(x, dict):
    return [(('key', _leafkey(k)), v) for k, v in x.items()]
  if isinstance(x, (list, tuple)):
    return [(('idx', i), v) for i, v in enumerate(x)]
  if isinstance(x, (set, frozenset)):
    return [(('elem', _leafkey(v)), v) for v in sorted(x, key=repr)]
  return []


def _leafkey(k):
  return (type(k).__name__, repr(k))


def _fn_name(f):
  name = getattr(f, '__qualname__', None) or repr(f)
  owner = getattr(f, '__self__', None)
  if owner is not None and getattr(f, '__func__', None) is not None:
    # a bound method: the object (class, for classmethods) it is bound to is part of the callable
    name += '@' + (owner.__qualname__ if isinstance(owner, type) else type(owner).__qualname__ + ':instance')
  return name


def canon(root, with_history=False, ordered_dicts=False, leaf=None):
  """Returns a hashable canonical form of the graph reachable from root."""
  labels = {}
  nodes = []
  keep = []

  def visit(x):
    if is_leaf(x) or not _is_container(x):
      if leaf is not None:
        return ('leaf', leaf(x))
      return ('leaf', type(x).__name__, repr(x) if is_leaf(x) else _opaque(x))
    if isinstance(x, tuple) and not x:
      return ('leaf', 'tuple', '()')
    if id(x) in labels:
      return ('ref', labels[id(x)])
    lab = len(labels)
    labels[id(x)] = lab
    keep.append(x)
    entry = [None]
    nodes.append(entry)
    kids = children(x)
    if isinstance(x, (dict, config_lib.Buildable)) and not ordered_dicts:
      kids = sorted(kids, key=lambda e: repr(e[0]))
    edges = tuple((lbl, visit(ch)) for lbl, ch in kids)
    head = [type(x).__name__]
    if isinstance(x, config_lib.Buildable):
      head.append(_fn_name(x.__fn_or_cls__))
      tags = tuple(sorted((repr(k), tuple(sorted(map(str, v))))
                          for k, v in x.__argument_tags__.items() if v))
      head.append(tags)
      if with_history:
        head.append(tuple(sorted(
            (repr(k), tuple((e.kind.name, _hval(e.new_value)) for e in es))
            for k, es in x.__argument_history__.items())))
    if isinstance(x, collections.defaultdict):
      head.append(_fn_name(x.default_factory) if x.default_factory else None)
    entry[0] = (tuple(head), edges)
    return ('ref', lab)

  top = visit(root)
  return (top, tuple(e[0] for e in nodes))


def _hval(v):
  if isinstance(v, (set, frozenset)):
    return tuple(sorted(map(str, v)))
  return repr(v) if is_leaf(v) else type(v).__name__


def _opaque(x):
  """Opaque (non-container) objects are compared by their own equality via repr of state."""
  if dataclasses.is_dataclass(x) and not isinstance(x, type):
    return repr(x)
  if hasattr(x, 'bound') and hasattr(x, 'fname'):      # layerb.gen.Call
    return ('Call', x.fname, repr(x.bound))
  return repr(x)


def _is_container(x):
  return isinstance(x, (config_lib.Buildable, dict, list, tuple, set, frozenset))


def mutable_ids(root):
  """ids of every mutable object reachable from root (Buildables, argument dicts, tag sets,
  history lists, lists, dicts, sets)."""
  seen = {}
  keep = []

  def visit(x):
    if is_leaf(x) or not _is_container(x) or id(x) in seen:
      return
    if isinstance(x, (tuple, frozenset)):
      for _, ch in children(x):
        visit(ch)
      return
    seen[id(x)] = type(x).__name__
    keep.append(x)
    if isinstance(x, config_lib.Buildable):
      for part in (x.__arguments__, x.__argument_tags__, x.__argument_history__):
        seen[id(part)] = 'internal:' + type(part).__name__
      for ts in x.__argument_tags__.values():
        seen[id(ts)] = 'tagset'
      for hs in x.__argument_history__.values():
        seen[id(hs)] = 'historylist'
    for _, ch in children(x):
      visit(ch)

  visit(root)
  return seen, keep


def built_canon(obj):
  """Canonical form of a built object graph made of layerb.gen.Call records and containers."""
  from layerb import gen
  labels = {}
  nodes = []
  keep = []

  def visit(x):
    if isinstance(x, gen.Call):
      if id(x) in labels:
        return ('ref', labels[id(x)])
      lab = len(labels)
      labels[id(x)] = lab
      keep.append(x)
      entry = [None]
      nodes.append(entry)
      entry[0] = ('Call', x.fname, tuple((k, visit(v)) for k, v in x.bound))
      return ('ref', lab)
    if isinstance(x, (list, dict, set)) or (isinstance(x, tuple) and x):
      if id(x) in labels:
        return ('ref', labels[id(x)])
      lab = len(labels)
      labels[id(x)] = lab
      keep.append(x)
      entry = [None]
      nodes.append(entry)
      if isinstance(x, dict):
        # children are visited in key order so that the labels do not depend on insertion order
        entry[0] = ('dict', tuple((repr(k), visit(v)) for k, v in sorted(x.items(), key=lambda kv: repr(kv[0]))))
      else:
        entry[0] = (type(x).__name__, tuple(visit(v) for v in x))
      return ('ref', lab)
    return ('leaf', type(x).__name__, repr(x))

  top = visit(obj)
  return (top, tuple(e[0] for e in nodes))
