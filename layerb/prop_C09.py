"""C09, bounded part: JSON serialization is lossless or loud, and policy-gated."""
import itertools
import json
import math
import fiddle as fdl
from fiddle._src.experimental import serialization as ser
from layerb import canon, common, pool, gen


def leaf_domain(tier):
  ints = [0, -1, 2**53, 2**53 + 1, -(2**63), 2**63, 10**30, -(10**30)]
  floats = [0.0, -0.0, 1.5, 1e300, float('inf'), float('-inf'), float('nan')]
  alpha = ['\\', 'u', 'x', 'N', '{', '0', '4', '1', 'é']
  strs = ['', 'a', '\\u0041', '\\x41', '\\N{DASH}', 'é', '\x00', '"q"', "it's", '\\']
  n = 3 if tier == 'quick' else 4
  byts = []
  balpha = [b'\\', b'u', b'x', b'N', b'0', b'4', b'1', b'A', b'\xe9', b'\xff', b'{']
  for k in range(0, n + 1):
    for combo in itertools.product(balpha, repeat=k):
      byts.append(b''.join(combo))
  if tier == 'quick':
    byts = byts[:400] + [b'\\u0041', b'\\x41', b'\\N{DASH}', b'\\\\u0041', b'\xff\\u00e9']
  else:
    byts += [b'\\u0041', b'\\U00000041', b'\\N{DASH}', b'\\\\u0041']
  others = [None, True, False, pool.Color.RED, {1, 2}, frozenset({'a'}), slice(1, None, 2),
            pool.Pt(1, 2), (), [], {}, {'k': (1,)}, {1: 'a', 'b': 2}, {(1, 2): 'tuplekey'},
            pool.fb, pool.Cls, int, fdl.NO_VALUE, complex(1, 2), 1j,
            # values whose type subclasses a JSON primitive type: same type after the round trip, or loud
            pool.Level.HIGH, pool.Perm.R | pool.Perm.W, pool.Mode.TRAIN, pool.Label('cat'), pool.Ratio(0.5),
            pool.Count(3), {pool.Level.LOW: 'enum key'}, {pool.Label('k'): 1}, pool.Span(1, 2), pool.LabelledPt(3)]
  return ([('int', v) for v in ints] + [('float', v) for v in floats] + [('str', v) for v in strs]
          + [('bytes', v) for v in byts] + [('other', v) for v in others])


def leaf_eq(a, b):
  if isinstance(a, float) and isinstance(b, float):
    return (math.isnan(a) and math.isnan(b)) or (a == b and math.copysign(1, a) == math.copysign(1, b))
  if type(a) is not type(b):
    return False
  return a == b


class Recorder(ser.PyrefPolicy):
  def __init__(self, allow=True):
    self.allow = allow
    self.asked = []
    self.values = []

  def allows_import(self, module, symbol):
    self.asked.append((module, symbol))
    return self.allow

  def allows_value(self, value):
    self.values.append(value)
    return self.allow


def check_leaf(args):
  kind, v = args
  viols = []
  def bad(what):
    viols.append(dict(kind=kind, value=repr(v), what=what, sig=kind, store=repr(v)[:60], op='json',
                      leaf=True))
  cfg = fdl.Config(pool.fb, v, y=[v, {'k': v}])
  try:
    doc = ser.dump_json(cfg)
  except Exception:   # pylint: disable=broad-except
    return 1, 0, [], []          # loud is allowed
  try:
    json.loads(doc)
  except Exception as e:   # pylint: disable=broad-except
    bad(f'dump_json produced invalid JSON ({type(e).__name__})')
    return 1, 1, viols, []
  try:
    back = ser.load_json(doc)
  except Exception as e:   # pylint: disable=broad-except
    bad(f'load_json of a dumped document raised {type(e).__name__}: {str(e)[:80]}')
    return 1, 1, viols, []
  for got in (back.x, back.y[0], back.y[1]['k']):
    if not leaf_eq(got, v) and not _container_eq(got, v):
      bad(f'{v!r} round-trips to {got!r}')
      break
  try:
    doc2 = ser.dump_json(back)
    if _norm_doc(json.loads(doc2)) != _norm_doc(json.loads(doc)):
      bad('serialising the reconstruction gives a different document')
  except Exception as e:   # pylint: disable=broad-except
    bad(f'second dump raised {type(e).__name__}')
  return 1, 1, viols, ([dict(kind=kind, value=repr(v))] if kind == 'bytes' and v == b'\\u0041' else [])


def _container_eq(a, b):
  if type(a) is not type(b):
    return False
  try:
    return canon.canon(a) == canon.canon(b)
  except Exception:   # pylint: disable=broad-except
    return a == b


def _norm_doc(d):
  """JSON document up to the order of set elements."""
  if isinstance(d, dict):
    items = {k: _norm_doc(v) for k, v in d.items()}
    if d.get('type', {}) and isinstance(d.get('type'), dict) and d['type'].get('name') in ('set', 'frozenset') \
        and isinstance(items.get('items'), list):
      items['items'] = sorted(items['items'], key=repr)
    return items
  if isinstance(d, list):
    return [_norm_doc(x) for x in d]
  return d


def check_config(name):
  viols = []
  def bad(what):
    viols.append(dict(config=name, what=what, sig=name, store='', op='json'))
  factory = dict(pool.make_pool())[name]
  cfg = factory()
  before = canon.canon(cfg, with_history=True)
  try:
    doc = ser.dump_json(cfg)
  except Exception:   # pylint: disable=broad-except
    if canon.canon(cfg, with_history=True) != before:
      bad('failed dump_json modified the configuration')
    return 1, 0, viols, []
  gen.Call.attempts.clear()
  rec = Recorder(True)
  try:
    back = ser.load_json(doc, pyref_policy=rec)
  except Exception as e:   # pylint: disable=broad-except
    bad(f'load_json raised {type(e).__name__}: {str(e)[:80]}')
    return 1, 1, viols, []
  if canon.canon(back) != canon.canon(cfg):
    bad('reconstruction differs in types / leaves / callables / tags / sharing / unset parameters')
  if ser.dump_json(back) != doc and _norm_doc(json.loads(ser.dump_json(back))) != _norm_doc(json.loads(doc)):
    bad('second dump differs')
  # policy: a deny-all policy must see every resolution attempt and nothing may be resolved
  deny = Recorder(False)
  try:
    ser.load_json(doc, pyref_policy=deny)
    if rec.asked:
      bad('deserialization resolved Python symbols although the policy denies every import')
  except ser.PyrefPolicyError:
    pass
  except Exception as e:   # pylint: disable=broad-except
    bad(f'deny-all policy: {type(e).__name__} instead of PyrefPolicyError')
  if deny.values:
    bad('a symbol was imported before allows_import approved it')
  # every symbol resolved under the permissive policy was asked for
  doc_syms = _pyrefs(json.loads(doc))
  if not doc_syms <= set(rec.asked):
    bad(f'symbols {sorted(doc_syms - set(rec.asked))} were resolved without consulting the policy')
  return 1, 1, viols, ([dict(config=name, symbols=sorted(doc_syms)[:4])] if name == 'nested' else [])


def _pyrefs(d, acc=None):
  acc = set() if acc is None else acc
  if isinstance(d, dict):
    if d.get('type') == 'pyref' and 'module' in d and 'name' in d:
      acc.add((d['module'], d['name']))
    for v in d.values():
      _pyrefs(v, acc)
  elif isinstance(d, list):
    for v in d:
      _pyrefs(v, acc)
  return acc


INVOKED = []


def recording_callable(a=0, b=1):
  INVOKED.append((a, b))
  return ('rc', a, b)


def no_invocation_case(_=None):
  viols = []
  cfg = fdl.Config(recording_callable, fdl.Config(recording_callable, 1), b=[fdl.Partial(recording_callable)])
  doc = ser.dump_json(cfg)
  INVOKED.clear()
  ser.load_json(doc)
  if INVOKED:
    viols.append(dict(what='deserialization invoked a configured callable', sig='no-invoke', store='',
                      op='json', config='no-invoke', noinv=True))
  return 1, 1, viols, []


class Box:
  """Registered as a dict-based object: serialised through its __dict__, not a daglish node."""

  def __init__(self, items=None, more=None):
    self.items = items
    self.more = more

  def __eq__(self, other):
    return type(other) is Box and self.__dict__ == other.__dict__

  __hash__ = None


def sharing_outside_daglish_case(_=None):
  """An object referenced once through ordinary containers and again from inside a node that only
  serialization knows about (attribute of a dict-based registered object): still one object after
  the round trip."""
  viols = []
  def bad(what, name):
    viols.append(dict(what=what, sig='sharing-outside-daglish', store=name, op='json', config=name, outside=True))
  try:
    ser.register_dict_based_object(Box)
  except Exception:   # pylint: disable=broad-except
    pass
  def list_case():
    shared = [1, 2, 3]
    return fdl.Config(pool.fk, shared, box=Box(items=shared)), lambda c: (c.x, c.box.items)
  def config_case():
    sub = fdl.Config(pool.fb, 1, [2])
    return fdl.Config(pool.fk, sub, box=Box(items=sub)), lambda c: (c.x, c.box.items)
  def two_boxes_case():
    shared = {'k': [1]}
    return (fdl.Config(pool.fk, [shared], box=Box(items=shared), box2=Box(more=(shared,))),
            lambda c: (c.x[0], c.box.items, c.box2.more[0]))
  def only_in_boxes_case():
    shared = [5]
    return fdl.Config(pool.fk, 0, box=Box(items=shared, more=[shared])), lambda c: (c.box.items, c.box.more[0])
  n = 0
  for mk in (list_case, config_case, two_boxes_case, only_in_boxes_case):
    n += 1
    name = mk.__name__
    cfg, refs = mk()
    assert all(r is refs(cfg)[0] for r in refs(cfg))
    try:
      doc = ser.dump_json(cfg)
    except Exception:   # pylint: disable=broad-except
      continue                                    # loud failure is allowed
    try:
      back = ser.load_json(doc)
    except Exception as e:   # pylint: disable=broad-except
      bad(f'load_json raised {type(e).__name__}: {str(e)[:80]}', name)
      continue
    got = refs(back)
    if not all(r is got[0] for r in got):
      bad('an object referenced through a container argument and from an attribute of a dict-based registered '
          'object was one object before dump_json/load_json and is several objects after', name)
    if canon.canon(back.x) != canon.canon(cfg.x):
      bad('argument x differs after the round trip', name)
  # several instances of one dict-based registered type whose attributes were assigned in
  # different orders: every attribute keeps its own value
  def reordered(items, more):
    b = Box.__new__(Box)
    b.more = more
    b.items = items
    return b
  n += 1
  cfg = fdl.Config(pool.fk, Box(items=10.0, more=0.5), b=reordered('I', 'M'), c=[Box(items=1, more=2), reordered(3, 4)])
  try:
    back = ser.load_json(ser.dump_json(cfg))
    got = [vars(back.x), vars(back.b), vars(back.c[0]), vars(back.c[1])]
    want = [vars(cfg.x), vars(cfg.b), vars(cfg.c[0]), vars(cfg.c[1])]
    if got != want:
      bad(f'instances of a dict-based registered type with differently ordered attributes: attribute values '
          f'changed by the round trip: {got} vs {want}', 'attribute-order')
  except Exception as e:   # pylint: disable=broad-except
    bad(f'dict-based objects: {type(e).__name__}: {str(e)[:80]}', 'attribute-order')
  return n, n, viols, [dict(scenario='sharing between daglish containers and serialization-only nodes', cases=n)]


def replay(case):
  if case.get('outside'):
    r = sharing_outside_daglish_case()
    m = [v for v in r[2] if v['store'] == case.get('store')]
    return m[0]['what'] if m else None
  if case.get('noinv'):
    r = no_invocation_case()
  elif case.get('leaf'):
    dom = leaf_domain('thorough')
    m = [x for x in dom if x[0] == case['kind'] and repr(x[1]) == case['value']]
    r = check_leaf(m[0]) if m else (0, 0, [], [])
  else:
    r = check_config(case['config'])
  return r[2][0]['what'] if r[2] else None


def run(tier='quick', seed=0, nproc=16):
  res = common.pmap(check_leaf, leaf_domain(tier), nproc)
  res += common.pmap(check_config, [n for n, _ in pool.make_pool()], nproc)
  res.append(common.guard(no_invocation_case))
  res.append(common.guard(sharing_outside_daglish_case))
  return common.merge(
      res, 'layerb.prop_C09', keyfn=lambda v: ('bytes-escape' if v.get('kind') == 'bytes' else None),
      rule='leaf domain (ints around 2^53/2^63/10^30, special floats, escape-like str, every byte '
           'string of length <= %d over an alphabet with backslash,u,x,N,digits,non-ASCII; enums, '
           'sets, slices, named tuples, mixed dict keys, NO_VALUE, complex) inside a Config and nested '
           'containers + every pool configuration: dump raises or gives valid JSON that loads to a '
           'canonically equal value; second dump stable; recording policies (allow-all / deny-all); '
           'no invocation of configured callables' % (3 if tier == 'quick' else 4),
      exhaustive=(tier != 'quick'), bound='leaf domain + pool')
