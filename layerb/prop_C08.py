"""C08, bounded part: traversal paths are sound and complete; identity traversal rebuilds
faithfully; cycles are reported."""
import collections
import fiddle as fdl
from fiddle._src import daglish
from fiddle._src.experimental import daglish_legacy
from layerb import gen, dags, canon, common, pool


def my_children(x):
  """Independent one-step expansion: [(path element, child)]."""
  if isinstance(x, fdl.Buildable):
    out = []
    args = fdl.ordered_arguments(x)
    for k, v in args.items():
      out.append((daglish.Attr(k) if isinstance(k, str) else daglish.Index(k), v))
    return out
  if isinstance(x, dict):
    return [(daglish.Key(k), v) for k, v in x.items()]
  if isinstance(x, tuple) and hasattr(type(x), '_fields'):
    return [(daglish.Attr(n), getattr(x, n)) for n in type(x)._fields]
  if isinstance(x, (list, tuple)):
    return [(daglish.Index(i), v) for i, v in enumerate(x)]
  return []


def all_paths(root):
  """Every (path, value) pair by unmemoized expansion."""
  out = []
  def go(x, path):
    out.append((path, x))
    for el, ch in my_children(x):
      go(ch, path + (el,))
  go(root, ())
  return out


def gap_roots():
  """Buildables whose positional (int-keyed) arguments are not a gap-free prefix of the ordered
  arguments: a defaulted parameter before *args left unset, a deleted positional-only argument."""
  def defaulted_before_varargs():
    shared = [7]
    cfg = fdl.Config(pool.fa, [0], shared)
    cfg[fdl.VARARGS:] = [[3], shared, fdl.Config(pool.fb, shared)]
    return cfg
  def hole_at_front():
    shared = {'s': 1}
    cfg = fdl.Config(pool.fa, [0], shared, 5, shared, k=shared)
    del cfg[0]
    return cfg
  def nested_gaps():
    inner = defaulted_before_varargs()
    return fdl.Config(pool.fa, inner, k=[inner, hole_at_front()])
  def partial_with_gap():
    cfg = fdl.Partial(pool.fa)
    cfg[fdl.VARARGS:] = [[1], [2]]
    return cfg
  return dict(defaulted_before_varargs=defaulted_before_varargs, hole_at_front=hole_at_front,
              nested_gaps=nested_gaps, partial_with_gap=partial_with_gap)


def check_structure(args):
  kind, spec = args
  viols = []
  def bad(what):
    viols.append(dict(kind=kind, spec=spec if kind in ('pool', 'gaps') else [[k, list(s)] for k, s in spec],
                      what=what, sig=str(spec) if kind in ('pool', 'gaps') else dags.label(spec), store='', op=''))
  if kind == 'pool':
    root = dict(pool.make_pool())[spec]()
  elif kind == 'gaps':
    root = gap_roots()[spec]()
  else:
    root, _ = dags.build_shape(spec)
  expected = all_paths(root)
  # un-memoized traversal: every path exactly once, each path sound
  got = list(daglish.iterate(root, memoized=False))
  for v, p in got:
    try:
      if daglish.follow_path(root, p) is not v:
        bad(f'follow_path(root, {daglish.path_str(p)}) is not the reported value')
    except Exception as e:   # pylint: disable=broad-except
      bad(f'reported path {daglish.path_str(p)} cannot be followed: {type(e).__name__}')
  gp = collections.Counter(daglish.path_str(p) for _, p in got)
  ep = collections.Counter(daglish.path_str(p) for p, _ in expected)
  if gp != ep:
    bad(f'un-memoized traversal reported paths {sorted((gp - ep).elements())} extra, '
        f'{sorted((ep - gp).elements())} missing')
  # memoized traversal: every distinct memoizable object exactly once
  mem = list(daglish.iterate(root, memoized=True))
  ids = collections.Counter(id(v) for v, _ in mem if daglish.is_memoizable(v))
  dup = [i for i, c in ids.items() if c > 1]
  if dup:
    bad('memoized traversal visited a mutable object more than once')
  want_ids = {id(v) for _, v in expected if daglish.is_memoizable(v)}
  if set(ids) != want_ids:
    bad(f'memoized traversal visited {len(ids)} distinct memoizable objects, expected {len(want_ids)}')
  for v, p in mem:
    try:
      if daglish.follow_path(root, p) is not v:
        bad(f'memoized traversal reported an unsound path {daglish.path_str(p)}')
    except Exception as e:   # pylint: disable=broad-except
      bad(f'memoized traversal reported path {daglish.path_str(p)}, which cannot be followed: {type(e).__name__}')
  # all-paths query
  by_id = collections.defaultdict(set)
  for p, v in expected:
    by_id[id(v)].add(daglish.path_str(p))
  def fn(value, state):
    if daglish.is_memoizable(value):
      got_paths = {daglish.path_str(p) for p in state.get_all_paths()}
      if got_paths != by_id[id(value)]:
        bad(f'get_all_paths returned {sorted(got_paths)}, the object is reached by '
            f'{sorted(by_id[id(value)])}')
    return state.map_children(value) if state.is_traversable(value) else value
  try:
    rebuilt = daglish.MemoizedTraversal.run(fn, root)
  except Exception as e:   # pylint: disable=broad-except
    bad(f'identity traversal raised {type(e).__name__}: {e}')
    rebuilt = None
  if rebuilt is not None and canon.canon(rebuilt) != canon.canon(root):
    bad('identity traversal did not rebuild an equal structure with the same sharing')
  # legacy collect_paths_by_id
  try:
    pbi = daglish_legacy.collect_paths_by_id(root, memoizable_only=True)
    for i, ps in pbi.items():
      if {daglish.path_str(p) for p in ps} != by_id.get(i, set()):
        bad('collect_paths_by_id disagrees with the independent path set')
  except Exception as e:   # pylint: disable=broad-except
    bad(f'collect_paths_by_id raised {type(e).__name__}')
  return 1, 1, viols, ([dict(structure=dags.label(spec))] if kind == 'shape' and len(spec) == 3 and len(viols) == 0 and spec[0][0] == 'C' and spec[1][0] == 'D' else [])


def cycle_case(_=None):
  viols = []
  def bad(what):
    viols.append(dict(kind='cycle', spec='cycle', what=what, sig='cycle', store='', op=''))
  l = [1]
  l.append(l)
  cfg = fdl.Config(dags.node_fn(0), l)
  d = {}
  d['self'] = [d]
  for root in (l, cfg, d):
    for fn in (lambda r: list(daglish.iterate(r, memoized=True)),
               lambda r: daglish.MemoizedTraversal.run(lambda v, s: s.map_children(v) if s.is_traversable(v) else v, r),
               fdl.build):
      try:
        fn(root)
        bad('a reference cycle was traversed without an error')
      except ValueError:
        pass
      except RecursionError:
        bad('a reference cycle recursed until RecursionError instead of being reported')
      except Exception as e:   # pylint: disable=broad-except
        bad(f'cycle reported as {type(e).__name__}')
  return 9, 3, viols, [dict(scenario='cycles')]


class Sampler:
  """User-registered node type whose flatten creates temporary *leaves* (fresh floats / strs)."""

  def __init__(self, base, n):
    self.base, self.n = base, n


_reg = [False]


def temp_leaves_case(_=None):
  """Temporaries created while traversing must not be confused with each other: memoized
  traversal must report every path and give every node its own results."""
  viols = []
  def bad(what):
    viols.append(dict(kind='temps', spec='temps', what=what, sig='temp-leaves', store='', op=''))
  if not _reg[0]:
    daglish.register_node_traverser(
        Sampler,
        flatten_fn=lambda s: (tuple(float(s.base + i) * 1.5 for i in range(s.n)) + (f'name-{s.base}',), (s.base, s.n)),
        unflatten_fn=lambda values, md: ('sampler', md, tuple(values)),
        path_elements_fn=lambda s: tuple(daglish.Index(i) for i in range(s.n + 1)))
    _reg[0] = True
  for width in (1, 2, 3):
    nodes = [Sampler(i * 10, width) for i in range(150)]
    root = {'nodes': nodes}
    exp_paths = 1 + 1 + len(nodes) * (1 + width + 1)
    # consume the traversal in a streaming fashion (nothing keeps the temporaries alive)
    count = 0
    seen_paths = set()
    for value, path in daglish.iterate(root, memoized=True):
      count += 1
      seen_paths.add(daglish.path_str(path))
    del value
    if count != exp_paths or len(seen_paths) != exp_paths:
      bad(f'memoized iterate() reported {len(seen_paths)} distinct of {exp_paths} paths (width {width})')
    def tf(v, s):
      if isinstance(v, float):
        return int(v * 2)           # a fresh result; the temporary float is dropped
      if isinstance(v, str):
        return len(v) * 1000 + int(v.split('-')[1])
      return s.map_children(v) if s.is_traversable(v) else v
    rebuilt = daglish.MemoizedTraversal.run(tf, root)
    for i, r in enumerate(rebuilt['nodes']):
      want = tuple(int(float(i * 10 + j) * 1.5 * 2) for j in range(width)) + (
          len(f'name-{i * 10}') * 1000 + i * 10,)
      if r[2] != want:
        bad(f'node {i} was rebuilt with another node\'s children: {r[2]} instead of {want}')
        break
  return 3, 3, viols, [dict(scenario='temporary leaves of a registered node type')]


def special_cases(_=None):
  viols = []
  def bad(what):
    viols.append(dict(kind='special', spec='special', what=what, sig='special', store='', op=''))
  roots = [
      collections.defaultdict(list, a=[1], b=(2,)),
      pool.Pt(1, [pool.Pt(2, 3)]),
      pool.Span([1], {'k': pool.LabelledPt([2], (3,))}),
      fdl.Config(pool.fc, pool.Span(fdl.Config(pool.fb, [1]), 2), q=[pool.LabelledPt([4])]),
      [(), [], {}, ((),)],
      fdl.Config(pool.fa, 1, 2, 3, [4], (5,), k={'z': 0}, extra=pool.Pt(1, 2)),
  ]
  for root in roots:
    r = check_structure(('direct', None)) if False else None
    rebuilt = daglish.MemoizedTraversal.run(
        lambda v, s: s.map_children(v) if s.is_traversable(v) else v, root)
    if canon.canon(rebuilt) != canon.canon(root) or type(rebuilt) is not type(root):
      bad(f'identity traversal of {type(root).__name__} changed the structure/type')
    if isinstance(root, collections.defaultdict) and rebuilt.default_factory is not root.default_factory:
      bad('defaultdict factory lost')
    got = list(daglish.iterate(root, memoized=False))
    for v, p in got:
      if daglish.follow_path(root, p) is not v:
        bad('unsound path in a special structure')
    gp = collections.Counter(daglish.path_str(p) for _, p in got)
    ep = collections.Counter(daglish.path_str(p) for p, _ in all_paths(root))
    if gp != ep:
      bad(f'un-memoized traversal of a {type(root).__name__} reported paths {sorted((gp - ep).elements())[:6]} '
          f'extra, {sorted((ep - gp).elements())[:6]} missing')
    mem_ids = {id(v) for v, _ in daglish.iterate(root, memoized=True) if daglish.is_memoizable(v)}
    want_ids = {id(v) for _, v in all_paths(root) if daglish.is_memoizable(v)}
    if mem_ids != want_ids:
      bad(f'memoized traversal of a {type(root).__name__} visited {len(mem_ids)} distinct memoizable objects, '
          f'expected {len(want_ids)}')
  return len(roots), len(roots), viols, []


def legacy_memoized_case(_=None):
  """daglish_legacy.memoized_traverse: every memoizable object is visited once (also empty lists /
  dicts shared between several places), all paths are reported, the identity traversal keeps the
  sharing."""
  viols = []
  def bad(what):
    viols.append(dict(kind='legacy', spec='legacy', what=what, sig='legacy-memoized', store='', op=''))
  def roots():
    e, d, dd = [], {}, collections.defaultdict(list)
    yield 'shared empty list', fdl.Config(pool.fc, e, q=[e, {'k': e}])
    yield 'shared empty dict', [d, (d,), {'x': d}]
    yield 'shared empty defaultdict', fdl.Config(pool.fc, dd, q=dd)
    full = [0]
    yield 'shared non-empty list', fdl.Config(pool.fc, full, q=[full, ()])
    sub = fdl.Config(pool.fb)
    yield 'shared argument-less Config', [sub, {'s': sub}]
  n = 0
  for name, root in roots():
    n += 1
    visits = collections.Counter()
    def traverse(all_paths, value):
      if daglish.is_memoizable(value):
        visits[id(value)] += 1
        got = {daglish.path_str(p) for p in all_paths}
        want = {daglish.path_str(p) for p, v in all_paths_of(root) if v is value}
        if got != want:
          bad(f'{name}: all-paths of a {type(value).__name__} are {sorted(got)}, it is reached by {sorted(want)}')
      return (yield)
    all_paths_of = all_paths
    try:
      rebuilt = daglish_legacy.memoized_traverse(traverse, root)
    except Exception as e:   # pylint: disable=broad-except
      bad(f'{name}: memoized_traverse raised {type(e).__name__}: {str(e)[:80]}')
      continue
    if any(c != 1 for c in visits.values()):
      bad(f'{name}: the legacy memoized traversal visited an object {max(visits.values())} times (exactly once expected)')
    if canon.canon(rebuilt) != canon.canon(root):
      bad(f'{name}: the identity traversal through daglish_legacy.memoized_traverse lost the sharing structure')
  return n, n, viols, [dict(scenario='daglish_legacy.memoized_traverse, shared (empty) containers')]


def late_registration_case(_=None):
  """A node type that is registered *after* registries have already looked it up (and treated it
  as a leaf) is a registered node type from then on: every registry that falls back to the default
  registry must report every path inside its values, exactly once, each path sound."""
  viols = []
  def bad(what):
    viols.append(dict(kind='late', spec='late', what=what, sig='late-registration', store='', op=''))
  Box = type('Box', (), {'__init__': lambda self, items: setattr(self, 'items', list(items)),
                         '__getitem__': lambda self, i: self.items[i]})
  root = {'a': Box([1, [2, 3]]), 'b': [Box([()])]}
  fallback_regs = [daglish.NodeTraverserRegistry(use_fallback=True) for _ in range(2)]
  def paths(reg):
    kw = {} if reg is None else {'registry': reg}
    return sorted(daglish.path_str(p) for _, p in daglish.iterate(root, memoized=False, **kw))
  before = [paths(r) for r in [None] + fallback_regs[:1]]      # first registry looks Box up now
  if any(any('.items' in p or '[0][' in p and 'Box' in p for p in b) for b in before):
    bad('an unregistered type was traversed')
  daglish.register_node_traverser(
      Box, flatten_fn=lambda b: (tuple(b.items), None),
      unflatten_fn=lambda values, _: Box(values),
      path_elements_fn=lambda b: tuple(daglish.Index(i) for i in range(len(b.items))))
  want = paths(None)
  if len(want) <= len(before[0]):
    bad('registration in the default registry had no effect on the default traversal')
  for n_, reg in enumerate(fallback_regs):
    got = paths(reg)
    if got != want:
      missing = sorted(set(want) - set(got))
      bad(f'fallback registry #{n_} ({"looked the type up before" if n_ == 0 else "created before"} '
          f'its registration) does not traverse values of the registered type: missing paths '
          f'{missing[:6]}')
    for v, p in daglish.iterate(root, memoized=False, registry=reg):
      if daglish.follow_path(root, p) is not v and not isinstance(v, (int, tuple)):
        bad('unsound path through a late-registered node type')
    fn = lambda v, s: s.map_children(v) if s.is_traversable(v) else v
    rebuilt = fn(root, daglish.MemoizedTraversal(fn, root, registry=reg).initial_state())
    if rebuilt['a'] is root['a'] or not isinstance(rebuilt['a'], Box) or rebuilt['a'].items != [1, [2, 3]]:
      bad(f'identity traversal through fallback registry #{n_} did not rebuild the registered node')
  return 3, 3, viols, [dict(scenario='node type registered after a fallback registry looked it up')]


def replay(case):
  if case['kind'] == 'late':
    r = late_registration_case()
  elif case['kind'] == 'legacy':
    r = legacy_memoized_case()
  elif case['kind'] == 'temps':
    r = temp_leaves_case()
  elif case['kind'] == 'cycle':
    r = cycle_case()
  elif case['kind'] == 'special':
    r = special_cases()
  elif case['kind'] in ('pool', 'gaps'):
    r = check_structure((case['kind'], case['spec']))
  else:
    r = check_structure(('shape', tuple((k, tuple(s)) for k, s in case['spec'])))
  return r[2][0]['what'] if r[2] else None


def run(tier='quick', seed=0, nproc=16):
  n = 3 if tier == 'quick' else 4
  jobs = [('shape', s) for s in dags.shapes_upto(n, kinds='CLTD')]
  jobs += [('pool', name) for name, _ in pool.make_pool()]
  jobs += [('gaps', name) for name in gap_roots()]
  res = common.pmap(check_structure, gen.shuffled(jobs), nproc)
  res.append(common.guard(cycle_case))
  res.append(common.guard(special_cases))
  res.append(common.guard(temp_leaves_case))
  res.append(common.guard(late_registration_case))
  res.append(common.guard(legacy_memoized_case))
  return common.merge(
      res, 'layerb.prop_C08',
      rule='every DAG shape <= %d nodes over Config/list/tuple/dict + pool configurations '
           '(positional Buildable arguments, also with gaps in the positions; defaultdict, named tuples, empty containers): '
           'un-memoized traversal = independently computed path multiset, each path followed with '
           '`is`; memoized traversal = every memoizable object once; get_all_paths / '
           'collect_paths_by_id = exact path sets; identity traversal preserves canonical form; '
           'cycles raise ValueError; a node type registered after a fallback registry looked it up' % n,
      exhaustive=True, bound=f'DAGs <= {n} nodes + pool')
