"""Shared plumbing of the layer-B property modules."""
import multiprocessing as mp


def pmap(fn, items, nproc):
  if nproc <= 1 or len(items) <= 1:
    return [fn(x) for x in items]
  ctx = mp.get_context('fork')
  with ctx.Pool(min(nproc, len(items))) as pool:
    return pool.map(fn, items, chunksize=1)


def merge(results, harness, keyfn=None, rule='', exhaustive=True, bound=''):
  """results: list of (evals, nontrivial, viols, samples) from workers."""
  viols = []
  for r in results:
    for v in r[2]:
      viols.append(dict(what=f"{v.get('sig', '')} {v.get('store', '')} {v.get('op', '')}: {v['what']}",
                        harness=harness, case=v, key=keyfn(v) if keyfn else None))
  samples = [s for r in results for s in r[3]][:6]
  return dict(evaluations=sum(r[0] for r in results),
              distinct_nontrivial=sum(r[1] for r in results),
              rule=rule, samples=samples or ['-'], exhaustive=exhaustive, bound=bound,
              violations=viols)
