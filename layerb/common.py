"""Shared plumbing of the layer-B property modules."""
import multiprocessing as mp


def guard(fn, *args):
  """Runs one harness scenario / worker.  An exception escaping the *harness code* on the tree
  under test (the scenarios run to completion on the unchanged tree) is reported as a violation
  of the scenario instead of crashing the checker."""
  import traceback
  try:
    return fn(*args)
  except (KeyboardInterrupt, SystemExit):
    raise
  except BaseException as e:   # pylint: disable=broad-except
    frames = traceback.extract_tb(e.__traceback__)[-3:]
    where = ' <- '.join(f'{f.filename.split("/")[-1]}:{f.lineno}' for f in reversed(frames))
    name = getattr(fn, '__name__', str(fn))
    return (1, 1, [dict(what=f'harness scenario {name} did not run to completion on this tree: '
                             f'{type(e).__name__}: {str(e)[:200]} ({where}); it does on the unchanged tree',
                        sig='harness-exception', store=name, op='', crashed=name,
                        item=repr(args)[:400])], [])


def _guarded(args):
  fn, item = args
  return guard(fn, item)


def replay_crashed(module, case):
  """Replay of a `crashed` case: re-run the quick tier of the module, look for the same scenario."""
  r = module.run(tier='quick', seed=0, nproc=8)
  for v in r.get('violations', []):
    if v['case'].get('crashed') == case.get('crashed'):
      return v['case']['what']
  return None


def pmap(fn, items, nproc):
  if nproc <= 1 or len(items) <= 1:
    return [guard(fn, x) for x in items]
  ctx = mp.get_context('fork')
  with ctx.Pool(min(nproc, len(items))) as pool:
    return pool.map(_guarded, [(fn, x) for x in items], chunksize=1)


def merge(results, harness, keyfn=None, rule='', exhaustive=True, bound=''):
  """results: list of (evals, nontrivial, viols, samples) from workers."""
  viols = []
  for r in results:
    for v in r[2]:
      viols.append(dict(what=f"{v.get('sig', '')} {v.get('store', '')} {v.get('op', '')}: {v['what']}",
                        harness=harness, case=v, key=keyfn(v) if keyfn else None))
  samples = [s for r in results for s in r[3]][:6]
  return dict(evaluations=sum(r[0] for r in results),
              distinct_nontrivial=sum(r[1] for r in results),
              rule=rule, samples=samples or ['-'], exhaustive=exhaustive, bound=bound,
              violations=viols)
