"""C14, bounded part: tags select exactly the tagged arguments and survive transformations."""
import copy
import itertools
import fiddle as fdl
from fiddle import selectors
from fiddle._src import tagging
from fiddle._src import config as config_lib
from fiddle.experimental import serialization
from layerb import canon, common, pool, gen

TAGS = [pool.TagA, pool.TagA1, pool.TagA2, pool.TagB]


def reachable_buildables(root):
  _, keep = canon.mutable_ids(root)
  return [x for x in keep if isinstance(x, config_lib.Buildable)]


def snapshot(root):
  """Independent walk: (node index, key) -> (value id/None, tags) for every argument key."""
  out = {}
  for n, b in enumerate(reachable_buildables(root)):
    keys = set(b.__arguments__) | {k for k, ts in b.__argument_tags__.items() if ts}
    for k in keys:
      v = b.__arguments__.get(k, fdl.NO_VALUE)
      out[(n, k)] = (v, frozenset(b.__argument_tags__.get(k, ())))
  return out


def check_set_tagged(args):
  name, tag_i, api = args
  tag = TAGS[tag_i]
  factory = dict(pool.make_pool())[name]
  viols = []
  def bad(what):
    viols.append(dict(config=name, tag=tag_i, api=api, what=what, sig=name, store=tag.__name__, op=api))
  root = factory()
  before = snapshot(root)
  nodes_before = reachable_buildables(root)
  all_tags = set()
  for (_, _), (_, ts) in before.items():
    all_tags |= ts
  # TaggedValues standing alone in containers are Buildables with a 'value' argument: included
  lt = tagging.list_tags(root)
  if set(lt) != all_tags:
    bad(f'list_tags returned {sorted(map(str, lt))}, union of tag sets is {sorted(map(str, all_tags))}')
  marker = ['MARK']
  try:
    if api == 'set_tagged':
      fdl.set_tagged(root, tag=tag, value=marker)
    else:
      selectors.select(root, tag=tag).replace(marker, deepcopy=False)
  except Exception as e:   # pylint: disable=broad-except
    bad(f'{api} raised {type(e).__name__}: {str(e)[:100]}')
    return 1, 1, viols, []
  after = snapshot(root)
  # nodes still reachable (a replaced subtree may drop out)
  still = {id(b) for b in reachable_buildables(root)}
  for n, b in enumerate(nodes_before):
    if id(b) not in still:
      continue
    keys = {k for (m, k) in before if m == n}
    for k in keys:
      v0, ts = before[(n, k)]
      hit = any(issubclass(t, tag) for t in ts)
      v1 = b.__arguments__.get(k, fdl.NO_VALUE)
      if hit and v1 is not marker:
        bad(f'argument {k!r} tagged {sorted(map(str, ts))} was not set (value {v1!r})')
      if not hit and v1 is not v0:
        bad(f'argument {k!r} (tags {sorted(map(str, ts))}) changed from {v0!r} to {v1!r}')
      if frozenset(b.__argument_tags__.get(k, ())) != ts:
        bad(f'tag set of {k!r} changed')
    extra = set(b.__arguments__) - keys
    if extra:
      bad(f'new arguments appeared: {sorted(map(repr, extra))}')
  # the same with a new value that is == to (but not identical with) a value already stored in
  # one of the tagged arguments: "holds v" is about the object handed in, not about equality
  root2 = factory()
  hits = []
  for b in reachable_buildables(root2):
    for k, ts in b.__argument_tags__.items():
      if any(issubclass(t, tag) for t in ts) and k in b.__arguments__:
        hits.append((b, k))
  for b0, k0 in hits[:2]:
    v0 = b0.__arguments__[k0]
    if isinstance(v0, bool) or v0 is None or isinstance(v0, str):
      continue
    eqv = float(v0) if isinstance(v0, int) else copy.deepcopy(v0)
    if eqv is v0 or not (eqv == v0):
      continue
    root3 = factory()
    try:
      if api == 'set_tagged':
        fdl.set_tagged(root3, tag=tag, value=eqv)
      else:
        selectors.select(root3, tag=tag).replace(eqv, deepcopy=False)
    except Exception as e:   # pylint: disable=broad-except
      bad(f'{api} with an equal-but-distinct value raised {type(e).__name__}')
      continue
    for b in reachable_buildables(root3):
      if b is eqv or (isinstance(eqv, config_lib.Buildable) and b in reachable_buildables(eqv)):
        continue
      for k, ts in b.__argument_tags__.items():
        if any(issubclass(t, tag) for t in ts):
          v1 = b.__arguments__.get(k, fdl.NO_VALUE)
          if v1 is not eqv:
            bad(f'{api}(value={eqv!r}): argument {k!r} tagged {sorted(map(str, ts))} holds {v1!r} '
                f'(type {type(v1).__name__}), not the value passed in (equal values are not the same '
                f'object / type)')
  return 1, 1, viols, ([dict(config=name, tag=tag.__name__, api=api)] if name == 'tags' and tag_i == 0 else [])


def check_survival(name):
  factory = dict(pool.make_pool())[name]
  viols = []
  def bad(what):
    viols.append(dict(config=name, what=what, sig=name, store='survival', op='', survival=True))
  root = factory()
  def tagmap(r):
    return sorted((n, repr(k), tuple(sorted(map(str, ts))))
                  for n, b in enumerate(reachable_buildables(r))
                  for k, ts in b.__argument_tags__.items() if ts)
  want = tagmap(root)
  ops = {'copy.copy': copy.copy, 'deepcopy': copy.deepcopy,
         'cast': lambda c: fdl.cast(type(c), c),
         'json': lambda c: serialization.load_json(serialization.dump_json(c))}
  for opname, op in ops.items():
    try:
      got = tagmap(op(root))
    except Exception as e:   # pylint: disable=broad-except
      if opname == 'json':
        continue      # serialization may be loud (C09), never silent
      bad(f'{opname} raised {type(e).__name__}')
      continue
    if got != want:
      bad(f'tags did not survive {opname}: {got} vs {want}')
  # tags of a copy are the copy's own: tag edits on (every Buildable of) a deep copy, or on the top
  # level of a shallow one, leave every tag of the original as it was ("no other tag has changed")
  for opname, op in ops.items():
    if opname == 'json':
      continue
    fresh_root = factory()
    want2 = tagmap(fresh_root)
    try:
      cp = op(fresh_root)
    except Exception:   # pylint: disable=broad-except
      continue
    targets = reachable_buildables(cp) if opname == 'deepcopy' else (
        [cp] if isinstance(cp, config_lib.Buildable) else [])
    for b in targets:
      for k in [k for k in list(b.__argument_tags__) if isinstance(k, str)] + \
          [k for k in b.__arguments__ if isinstance(k, str)][:1]:
        try:
          fdl.add_tag(b, k, pool.TagB)
          fdl.remove_tag(b, k, pool.TagB)
          fdl.add_tag(b, k, pool.TagA2)
          fdl.clear_tags(b, k)
        except Exception:   # pylint: disable=broad-except
          pass
    if tagmap(fresh_root) != want2:
      bad(f'editing the tags of a {opname} copy changed the tags of the original: '
          f'{tagmap(fresh_root)} vs {want2}')
  return len(ops), 1, viols, []


def check_tag_ops(args):
  """add/remove/set/clear sequences against a dict model."""
  kinds, hasdef = args
  sig = gen.SigSpec(kinds, hasdef)
  viols = []
  evals = 0
  keys = [sig.names[i] if k != gen.PO else i for i, k in enumerate(sig.kinds) if k in (gen.PO, gen.PK, gen.KO)]
  if not keys:
    return 0, 0, [], []
  opsx = []
  for key in keys[:2]:
    opsx += [('add', key, pool.TagA), ('add', key, pool.TagB), ('remove', key, pool.TagA),
             ('clear', key, None), ('set', key, (pool.TagB, pool.TagA1))]
  for seq in itertools.product(opsx, repeat=2):
    cfg = fdl.Config(gen.make_fn(sig))
    model = {}
    ok = True
    for op, key, t in seq:
      evals += 1
      mk = key
      try:
        if op == 'add':
          fdl.add_tag(cfg, key, t); model.setdefault(mk, set()).add(t)
        elif op == 'remove':
          if t in model.get(mk, set()):
            fdl.remove_tag(cfg, key, t); model[mk].discard(t)
          else:
            try:
              fdl.remove_tag(cfg, key, t)
              ok = False
            except ValueError:
              pass
        elif op == 'clear':
          fdl.clear_tags(cfg, key); model[mk] = set()
        else:
          fdl.set_tags(cfg, key, t); model[mk] = set(t)
      except Exception as e:   # pylint: disable=broad-except
        viols.append(dict(kinds=kinds, hasdef=hasdef, what=f'{op}({key!r}) raised {type(e).__name__}: {e}',
                          sig=sig.label, store=str(seq), op=op, tagops=True))
        ok = False
        break
      for kk in keys:
        got = set(fdl.get_tags(cfg, kk))
        if got != model.get(kk, set()):
          viols.append(dict(kinds=kinds, hasdef=hasdef, what=f'after {seq}: tags of {kk!r} are {got}, '
                            f'model {model.get(kk, set())}', sig=sig.label, store=str(seq), op=op, tagops=True))
          ok = False
      if not ok:
        break
      if cfg.__arguments__:
        viols.append(dict(kinds=kinds, hasdef=hasdef, what='tag operation changed the arguments',
                          sig=sig.label, store=str(seq), op=op, tagops=True))
  # tagged parameters that have no value yet (names and positional-only indices): set_tagged and
  # select(tag=...).replace both give every one of them the value
  for api in ('set_tagged', 'replace'):
    evals += 1
    cfg = fdl.Config(gen.make_fn(sig))
    for key in keys:
      fdl.add_tag(cfg, key, pool.TagA1)
    marker = ['M']
    try:
      if api == 'set_tagged':
        fdl.set_tagged(cfg, tag=pool.TagA, value=marker)
      else:
        selectors.select(cfg, tag=pool.TagA).replace(marker, deepcopy=False)
    except Exception as e:   # pylint: disable=broad-except
      viols.append(dict(kinds=kinds, hasdef=hasdef, what=f'{api} on tagged parameters without values raised '
                        f'{type(e).__name__}: {str(e)[:80]}', sig=sig.label, store=api, op=api, tagops=True))
      continue
    for key in keys:
      if cfg.__arguments__.get(key) is not marker:
        viols.append(dict(kinds=kinds, hasdef=hasdef,
                          what=f'{api}: parameter {key!r} is tagged and had no value; afterwards it holds '
                               f'{cfg.__arguments__.get(key, fdl.NO_VALUE)!r}, not the value passed in',
                          sig=sig.label, store=api, op=api, tagops=True))
        break
  return evals, evals, viols, []


def tagged_value_build(_=None):
  viols = []
  def bad(what):
    viols.append(dict(config='tv', what=what, sig='TaggedValue', store='', op='build', tv=True))
  if fdl.build(fdl.Config(pool.fb, pool.TagA.new(5))) != ('fb', 5, 1):
    bad('a TaggedValue with a value did not build to its value')
  if fdl.build([pool.TagA.new(7)]) != [7]:
    bad('a TaggedValue inside a container did not build to its value')
  for cfg in (fdl.Config(pool.fb, x=[pool.TagA.new()]), [pool.TagB.new()]):
    try:
      fdl.build(cfg)
      bad('a TaggedValue that was never given a value built without error')
    except Exception:   # pylint: disable=broad-except
      pass
  c = fdl.Config(pool.fb, pool.TagA.new())
  try:
    r = fdl.build(c)
    if r != ('fb', 0, 1):
      bad(f'unset tagged argument built {r}')
  except Exception:   # pylint: disable=broad-except
    pass
  return 5, 5, viols, []


def annotation_tags_case(_=None):
  """Tags attached by annotation (functions, __init__ of plain classes, dataclass fields incl.
  inherited ones): expected from the source text of the pool callables, not from the library."""
  viols = []
  def bad(what, name):
    viols.append(dict(config=name, what=what, sig='annotation-tags', store=name, op='', annotation=True))
  expected = [
      ('function', pool.annotated, {'w': {pool.TagA}, 'z': set()}),
      ('class with annotated __init__', pool.AnnotatedInit, {'w': {pool.TagA}, 'z': {pool.TagB}}),
      ('dataclass', pool.AnnotatedDC, {'w': {pool.TagA1}}),
      ('dataclass subclass inheriting the field', pool.AnnotatedDCChild, {'w': {pool.TagA1}}),
  ]
  n = 0
  for name, fn, want in expected:
    for cls in (fdl.Config, fdl.Partial):
      n += 1
      cfg = cls(fn)
      for arg, tags in want.items():
        got = set(fdl.get_tags(cfg, arg))
        if got != tags:
          bad(f'{cls.__name__}({fn.__name__}): tags of {arg!r} are {sorted(map(str, got))}, the annotation '
              f'says {sorted(map(str, tags))}', name)
      if set(tagging.list_tags(cfg)) != set().union(*want.values()):
        bad(f'{cls.__name__}({fn.__name__}): list_tags returned {sorted(map(str, tagging.list_tags(cfg)))}', name)
      for arg, tags in want.items():
        for t in tags:
          c2 = cls(fn)
          marker = ['V']
          fdl.set_tagged(c2, tag=t, value=marker)
          if c2.__arguments__.get(arg) is not marker:
            bad(f'{cls.__name__}({fn.__name__}): set_tagged({t.__name__}) did not set the annotated argument {arg!r}', name)
      # survive copying
      for opname, op in (('copy', copy.copy), ('deepcopy', copy.deepcopy)):
        cp = op(cfg)
        for arg, tags in want.items():
          if set(fdl.get_tags(cp, arg)) != tags:
            bad(f'{cls.__name__}({fn.__name__}): annotation tags of {arg!r} did not survive {opname}', name)
  # an annotated parameter that is also given a tagged value / more tags: the tag sets add up
  for cls in (fdl.Config, fdl.Partial):
    for how, mk in [
        ('Tag.new as constructor argument', lambda: cls(pool.annotated, w=pool.TagB.new(5))),
        ('TaggedValue with two tags as constructor argument',
         lambda: cls(pool.AnnotatedInit, w=fdl.TaggedValue([pool.TagB, pool.TagA2], default=5))),
        ('positional Tag.new', lambda: cls(pool.annotated, pool.TagB.new(5))),
        ('Tag.new assigned later', lambda: (lambda c: (setattr(c, 'w', pool.TagB.new(5)), c)[1])(cls(pool.annotated))),
        ('add_tag later', lambda: (lambda c: (fdl.add_tag(c, 'w', pool.TagB), c)[1])(cls(pool.annotated))),
    ]:
      n += 1
      try:
        cfg = mk()
      except Exception as e:   # pylint: disable=broad-except
        bad(f'{cls.__name__}, {how}: raised {type(e).__name__}: {str(e)[:80]}', how)
        continue
      got = set(fdl.get_tags(cfg, 'w'))
      if not {pool.TagA, pool.TagB} <= got:
        bad(f'{cls.__name__}, {how}: tags of the annotated parameter are {sorted(t.__name__ for t in got)}; the '
            f'annotation tag TagA and the explicitly attached TagB must both be there', how)
      c2 = copy.deepcopy(cfg)
      marker = ['V']
      fdl.set_tagged(c2, tag=pool.TagB, value=marker)
      if c2.__arguments__.get('w', c2.__arguments__.get(0)) is not marker:
        bad(f'{cls.__name__}, {how}: set_tagged(TagB) did not reach the argument', how)
  return n, n, viols, [dict(scenario='tags attached by annotation')]


def diff_tags_case(_=None):
  """Tags survive diff application: apply_diff(build_diff(old, new), copy of old) carries exactly the
  tags of `new`, also when one argument gains or loses several tags in the same diff."""
  from fiddle._src import diffing
  viols = []
  def bad(what, name):
    viols.append(dict(what=what, sig='diff-tags', store=name, op='', config=name, difftags=True))
  def tagmap(r):
    return sorted((n, repr(k), tuple(sorted(t.__name__ for t in ts)))
                  for n, b in enumerate(reachable_buildables(r))
                  for k, ts in b.__argument_tags__.items() if ts)
  def base():
    return fdl.Config(pool.fk, fdl.Config(pool.fb, 1, 2), extra=3, sub=[fdl.Config(pool.fb, 4, 5)])
  edits = {
      'one argument gains two tags': lambda c: [fdl.add_tag(c.x, 'y', pool.TagA), fdl.add_tag(c.x, 'y', pool.TagB)],
      'one argument gains three tags': lambda c: fdl.set_tags(c.x, 'x', [pool.TagA, pool.TagB, pool.TagA2]),
      'a **kwargs argument gains two tags': lambda c: [fdl.add_tag(c, 'extra', pool.TagB), fdl.add_tag(c, 'extra', pool.TagA1)],
      'nested in a list, two tags each on two arguments': lambda c: [fdl.set_tags(c.sub[0], 'x', [pool.TagA, pool.TagB]),
                                                                     fdl.set_tags(c.sub[0], 'y', [pool.TagA1, pool.TagB])],
      'tagged value with two tags replaces a value': lambda c: setattr(c.x, 'x', fdl.TaggedValue([pool.TagA, pool.TagB], default=7)),
  }
  n = 0
  for name, edit in edits.items():
    for direction in ('gain', 'lose'):
      n += 1
      old, new = base(), base()
      edit(new if direction == 'gain' else old)
      try:
        diff = diffing.build_diff(old, new)
        patched = copy.deepcopy(old)
        diffing.apply_diff(diff, patched)
      except Exception as e:   # pylint: disable=broad-except
        bad(f'{name} ({direction}): build_diff/apply_diff raised {type(e).__name__}: {str(e)[:100]}', name)
        continue
      if tagmap(patched) != tagmap(new):
        bad(f'{name} ({direction}): after apply_diff(build_diff(old, new), old) the tags are {tagmap(patched)}, '
            f'those of new are {tagmap(new)}', name)
      if sorted(t.__name__ for t in tagging.list_tags(patched)) != sorted(t.__name__ for t in tagging.list_tags(new)):
        bad(f'{name} ({direction}): list_tags differs after diff application', name)
  return n, n, viols, [dict(scenario='several tags added to / removed from one argument by one diff', cases=n)]


def replay(case):
  if case.get('difftags'):
    r = diff_tags_case()
    m = [v for v in r[2] if v['store'] == case.get('store')]
    return m[0]['what'] if m else None
  if case.get('annotation'):
    r = annotation_tags_case()
    m = [v for v in r[2] if v['store'] == case.get('store')]
    return m[0]['what'] if m else None
  if case.get('tv'):
    r = tagged_value_build()
  elif case.get('tagops'):
    r = check_tag_ops((tuple(case['kinds']), tuple(case['hasdef'])))
  elif case.get('survival'):
    r = check_survival(case['config'])
  else:
    r = check_set_tagged((case['config'], case['tag'], case['api']))
  return r[2][0]['what'] if r[2] else None


def run(tier='quick', seed=0, nproc=16):
  names = [n for n, _ in pool.make_pool()]
  jobs = [(n, t, api) for n in names for t in range(len(TAGS)) for api in ('set_tagged', 'select.replace')]
  res = common.pmap(check_set_tagged, gen.shuffled(jobs), nproc)
  res += common.pmap(check_survival, names, nproc)
  res += common.pmap(check_tag_ops, [(s.kinds, s.hasdef) for s in gen.all_sigs(2 if tier == 'quick' else 3)], nproc)
  res.append(common.guard(tagged_value_build))
  res.append(common.guard(annotation_tags_case))
  res.append(common.guard(diff_tags_case))
  return common.merge(
      res, 'layerb.prop_C14',
      rule='pool configurations (tags on keyword, positional and **kwargs arguments, tag class '
           'hierarchy 3 deep, shared tagged nodes, unset tagged arguments, TaggedValues in containers) '
           'x tag x {set_tagged, select(tag).replace}: independent walk decides which arguments must '
           'change; list_tags = union; tags survive copy/deepcopy/cast/JSON; all add/remove/set/clear '
           'sequences of length 2 vs a dict model on every signature; TaggedValue build',
      exhaustive=True, bound='pool + signatures <= %d' % (2 if tier == 'quick' else 3))
