"""C05, bounded part: a failing callable surfaces faithfully and leaves no residue
(crash points: every Buildable node of every small DAG x exception-class shapes)."""
import fiddle as fdl
from layerb import gen, dags, canon, common
from layerb.prop_C02 import expected


class PlainError(Exception):
  pass


class InitArgsError(Exception):
  def __init__(self, code, detail, *, extra=None):
    super().__init__(f'code={code} detail={detail}')
    self.code, self.detail, self.extra = code, detail, extra


class StrOverrideError(Exception):
  def __str__(self):
    return 'custom-str-message'


class SlotsError(Exception):
  __slots__ = ('payload',)

  def __init__(self, payload):
    super().__init__(payload)
    self.payload = payload


class NoSubclassMeta(type):
  def __new__(mcs, name, bases, ns):
    if any(isinstance(b, NoSubclassMeta) for b in bases):
      raise TypeError('this exception class cannot be subclassed')
    return super().__new__(mcs, name, bases, ns)


class FinalError(Exception, metaclass=NoSubclassMeta):
  pass


class MyBaseException(BaseException):
  pass


EXC_SHAPES = {
    'plain': lambda: PlainError('boom'),
    'value': lambda: ValueError('bad value'),
    'key': lambda: KeyError('missing-key'),
    'initargs': lambda: InitArgsError(7, 'seven', extra=[1]),
    'stroverride': lambda: StrOverrideError('hidden'),
    'slots': lambda: SlotsError('slotted'),
    'final': lambda: FinalError('final'),
    'base': lambda: MyBaseException('base-exc'),
    'kbd': lambda: KeyboardInterrupt(),
    'noargs': lambda: RuntimeError(),
    # the classes fiddle itself raises / looks for while calling a Buildable
    'typeerror': lambda: TypeError('unsupported operand inside the callable'),
    'typeerror-sub': lambda: TypeSubError('derived from TypeError'),
    'attributeerror': lambda: AttributeError('no such attribute inside the callable'),
    'valueerror-forbidden': lambda: ValueError('It is forbidden to call `fdl.build` inside another `fdl.build` call.'),
    # classes the interpreter treats specially (generators / coroutines / interpreter exit) and
    # classes whose constructors are implemented in C with their own argument conventions
    'stopiter': lambda: StopIteration('done'),
    'stopiter-sub': lambda: StopWithValue('payload'),
    'stopasync': lambda: StopAsyncIteration('adone'),
    'genexit': lambda: GeneratorExit('ge'),
    'sysexit': lambda: SystemExit(3),
    'oserror': lambda: OSError(2, 'No such file or directory', 'data.bin'),
    'unicode': lambda: UnicodeDecodeError('utf-8', b'\xff', 0, 1, 'invalid start byte'),
    'group': lambda: ExceptionGroup('several', [ValueError(1), KeyError('k')]),
}


class StopWithValue(StopIteration):
  pass


class TypeSubError(TypeError):
  pass



class BadRepr:
  def __repr__(self):
    raise RuntimeError('repr exploded')


def path_strings(shape, node):
  """All path strings (daglish syntax) that lead from the root to `node`."""
  out = set()
  for p in dags.paths_to(shape)[node]:
    s = ''
    for kind, slot in p:
      s += {'C': f'.p{slot}', 'L': f'[{slot}]', 'T': f'[{slot}]', 'D': f"['k{slot}']"}[kind]
    out.add(s)
  return out


def _can_be_proxied(exc):
  """Independent of fiddle: can a subclass of type(exc) with its own two-argument __init__ be
  created and instantiated with (exception, message)?"""
  try:
    sub = type('Probe', (type(exc),), {'__init__': lambda self, a, b: None})
    sub(exc, 'message')
    return True
  except Exception:   # pylint: disable=broad-except
    return False


def check_case(args):
  shape, fail_node, exc_name, bad_repr = args
  viols = []
  def bad(what):
    viols.append(dict(shape=[[k, list(s)] for k, s in shape], fail_node=fail_node, exc=exc_name,
                      bad_repr=bad_repr, what=what, sig=dags.label(shape),
                      store=f'fail=n{fail_node}', op=exc_name))
  leaf = (lambda i, s: BadRepr()) if bad_repr else (lambda i, s: i * 10 + s)
  root, objs = dags.build_shape(shape, leaf=leaf)
  before = canon.canon(root, leaf=(lambda x: type(x).__name__) if bad_repr else None)
  fname = f'n{fail_node}'
  original = EXC_SHAPES[exc_name]()
  gen.Call.fail = {fname: lambda: original}
  gen.Call.attempts.clear()
  gen.Call.log.clear()
  escaped = None
  try:
    fdl.build(root)
    bad('the callable raised but fdl.build returned normally')
  except BaseException as e:   # pylint: disable=broad-except
    escaped = e
  finally:
    gen.Call.fail = {}
  if escaped is not None:
    if not isinstance(escaped, type(original)):
      bad(f'escaping exception is {type(escaped).__name__}, not an instance of '
          f'{type(original).__name__}')
    else:
      try:
        msg, omsg = str(escaped), str(original)
      except Exception as e2:   # pylint: disable=broad-except
        msg, omsg = None, None
        bad(f'str() of the escaping exception raised {type(e2).__name__}')
      if (msg is not None and isinstance(original, Exception) and not bad_repr
          and _can_be_proxied(original) and 'Fiddle context' not in msg):
        bad(f'the escaping {type(escaped).__name__} names no path at all (no Fiddle context in its message '
            f'{msg[:80]!r}) although a subclass instance of its class can be made')
      if msg is not None and escaped is not original:
        if not msg.startswith(omsg):
          bad(f'message {msg[:60]!r} does not begin with the original message {omsg!r}')
        if 'Fiddle context' in msg:
          ok = any(f'<root>{p} ' in msg for p in path_strings(shape, fail_node))
          if not ok:
            bad(f'message names no path leading to the failing node: {msg[-200:]!r}; '
                f'valid paths {sorted(path_strings(shape, fail_node))}')
    if gen.Call.attempts and gen.Call.attempts[-1] != fname:
      bad(f'a callable ({gen.Call.attempts[-1]}) was invoked after the failing one')
    if gen.Call.attempts.count(fname) != 1:
      bad(f'the failing callable was invoked {gen.Call.attempts.count(fname)} times')
  after = canon.canon(root, leaf=(lambda x: type(x).__name__) if bad_repr else None)
  if after != before:
    bad('the configuration was modified by the failed build')
  # the next build in this thread works normally (twice: repeated failures leave nothing)
  for attempt in range(2):
    gen.Call.log.clear()
    try:
      built = fdl.build(root)
      if not bad_repr and canon.built_canon(built) != canon.built_canon(expected(shape)):
        bad('the build after a failed build produced a different graph')
    except BaseException as e:   # pylint: disable=broad-except
      bad(f'fdl.build after a failed build raised {type(e).__name__}: {str(e)[:80]}')
      break
    if attempt == 0:
      gen.Call.fail = {fname: EXC_SHAPES[exc_name]}
      try:
        fdl.build(root)
      except BaseException:   # pylint: disable=broad-except
        pass
      gen.Call.fail = {}
  return 1, 1, viols, ([dict(shape=dags.label(shape), fail=fname, exc=exc_name)]
                       if fail_node and exc_name == 'initargs' else [])


def nested_build_case(_=None):
  """fdl.build from inside a callable that is being built is rejected; afterwards builds work."""
  viols = []
  inner = fdl.Config(dags.node_fn(1), 1)
  outer = fdl.Config(dags.node_fn(0), fdl.Config(dags.node_fn(2), 2))
  seen = {}
  def hook():
    try:
      fdl.build(inner)
      seen['nested'] = 'returned'
    except Exception as e:   # pylint: disable=broad-except
      seen['nested'] = type(e).__name__
  gen.Call.hook = {'n2': hook}
  try:
    fdl.build(outer)
  except Exception as e:   # pylint: disable=broad-except
    seen['outer'] = type(e).__name__
  finally:
    gen.Call.hook = {}
  if seen.get('nested') == 'returned':
    viols.append(dict(what='fdl.build inside a callable being built was not rejected',
                      shape=[], sig='nested-build', store='', op='', scenario='nested'))
  try:
    fdl.build(outer)
  except Exception as e:   # pylint: disable=broad-except
    viols.append(dict(what=f'build after a rejected nested build raised {type(e).__name__}',
                      shape=[], sig='nested-build', store='', op='', scenario='nested'))
  # every way of starting the outer build arms the check: fdl.build, a built Partial being called,
  # an `auto_unconfig` function called as plain python, auto_config's as_buildable + build
  from fiddle.experimental import auto_config
  def nester(x=0):
    return fdl.build(fdl.Config(dags.node_fn(1), x))
  def mk():
    return fdl.Config(dags.node_fn(0), fdl.Config(nester, 3), fdl.Config(dags.node_fn(2), 4))
  @auto_config.auto_unconfig
  def experiment():
    return mk()
  @auto_config.auto_config
  def experiment2():
    return dags.node_fn(0)(nester(3), dags.node_fn(2)(4))
  starters = {
      'fdl.build': lambda: fdl.build(mk()),
      'auto_unconfig function called directly': experiment,
      'auto_config.as_buildable + build': lambda: fdl.build(experiment2.as_buildable()),
      'Partial built, then called': lambda: fdl.build(fdl.Partial(dags.node_fn(0), fdl.Config(nester, 3))),
  }
  n_extra = 0
  for name, start in starters.items():
    n_extra += 1
    try:
      r = start()
      viols.append(dict(what=f'{name}: an fdl.build issued from inside a callable that was being built was '
                             f'not rejected (returned {str(r)[:60]})',
                        shape=[], sig='nested-build', store=name, op='', scenario='nested'))
    except ValueError as e:
      if 'forbidden' not in str(e).lower():
        viols.append(dict(what=f'{name}: nested build raised ValueError without the explanation: {str(e)[:80]}',
                          shape=[], sig='nested-build', store=name, op='', scenario='nested'))
    except Exception as e:   # pylint: disable=broad-except
      viols.append(dict(what=f'{name}: nested build raised {type(e).__name__}: {str(e)[:80]}',
                        shape=[], sig='nested-build', store=name, op='', scenario='nested'))
    try:
      fdl.build(fdl.Config(dags.node_fn(1), 1))
    except Exception as e:   # pylint: disable=broad-except
      viols.append(dict(what=f'{name}: a build after the rejected nested build raised {type(e).__name__}',
                        shape=[], sig='nested-build', store=name, op='', scenario='nested'))
  return 1 + n_extra, 1 + n_extra, viols, [dict(scenario='nested build', observed=seen)]


class BadStrCallable:
  """A callable instance without __qualname__ whose str()/repr() raise: building the
  diagnostic message itself fails."""

  def __init__(self, exc_factory):
    self.exc_factory = exc_factory
    self.broken = False

  def __call__(self, x=0):
    self.broken = True        # half-finished call: from now on repr() fails
    raise self.exc_factory()

  def __repr__(self):
    if self.broken:
      raise KeyError('repr of the callable exploded')
    return 'BadStrCallable()'


def diagnostic_failure_case(_=None):
  viols = []
  n = 0
  for name, factory in EXC_SHAPES.items():
    if name in ('base', 'kbd'):
      continue
    n += 1
    original = factory()
    cfg = fdl.Config(dags.node_fn(0), [fdl.Config(BadStrCallable(lambda o=original: o), 1)])
    try:
      fdl.build(cfg)
      viols.append(dict(what='failing callable (message formatting fails) but build returned',
                        shape=[], sig='diagnostic-failure', store=name, op='', scenario='diag'))
    except BaseException as e:   # pylint: disable=broad-except
      if not isinstance(e, type(original)):
        viols.append(dict(what=f'formatting the diagnostic failed and {type(e).__name__}({e}) '
                               f'escaped instead of the original {type(original).__name__}',
                          shape=[], sig='diagnostic-failure', store=name, op='', scenario='diag'))
    try:
      fdl.build(fdl.Config(dags.node_fn(1), 1))
    except BaseException as e:   # pylint: disable=broad-except
      viols.append(dict(what=f'build after a diagnostic failure raised {type(e).__name__}',
                        shape=[], sig='diagnostic-failure', store=name, op='', scenario='diag'))
  return n, n, viols, [dict(scenario='diagnostic formatting fails', classes=n)]


def _raise_instance(exc_cls, msg='boom'):
  raise exc_cls(msg)


def _make_exc_class(base=Exception):
  class Boom(base):       # every call makes a *distinct* class with the same module and qualname
    pass
  return Boom


def same_named_classes_case(_=None):
  """Distinct exception classes that share module and qualified name (class factories, reloaded
  modules), failing one after the other in one process: each escaped exception must still be an
  instance of *its own* original class, carry the original message and chain to the original."""
  viols = []
  n = 0
  for base in (Exception, ValueError, KeyError):
    classes = [_make_exc_class(base) for _ in range(3)]
    for rnd in range(2):
      for i, cls in enumerate(classes):
        n += 1
        cfg = fdl.Config(dags.node_fn(0), [fdl.Config(_raise_instance, cls, f'm{i}')])
        try:
          fdl.build(cfg)
          viols.append(dict(what='a raising callable did not make build fail', shape=[],
                            sig='same-named', store=base.__name__, op='', scenario='same-named'))
        except BaseException as e:   # pylint: disable=broad-except
          if not isinstance(e, cls):
            viols.append(dict(
                what=f'failure #{i} (round {rnd}) raised an instance of class #{i} named '
                     f'{cls.__qualname__}, but the escaped exception {type(e).__mro__[:3]} is not an '
                     f'instance of that class (an `except` for it would miss it)',
                shape=[], sig='same-named', store=base.__name__, op='', scenario='same-named'))
          elif f'm{i}' not in str(e):
            viols.append(dict(what=f'escaped exception lost the original message: {e}', shape=[],
                              sig='same-named', store=base.__name__, op='', scenario='same-named'))
  return n, n, viols, [dict(scenario='distinct exception classes with equal module/qualname', cases=n)]


def _mutate_then_fail(sizes, table=None, *rest):
  """Consumes its container arguments in place, then fails."""
  sizes.sort()
  while len(sizes) > 1:
    sizes.pop()
  if table is not None:
    table.setdefault('seen', []).append(1)
    table.pop('keep', None)
  raise ValueError('bad sizes')


def mutating_callable_case(_=None):
  """A callable that edits its (container) arguments in place and then raises: the configuration
  — also the parts shared with other Buildables — is what it was, so a second build fails the same
  way and a healthy build afterwards is unaffected."""
  import copy
  from layerb import canon
  viols = []
  n = 0
  def bad(what, name):
    viols.append(dict(what=what, shape=[], sig='mutating-callable', store=name, op='', scenario='mutating'))
  def cases():
    shared = [4, 8, 0, 2]
    yield 'list argument', fdl.Config(_mutate_then_fail, [4, 8, 0, 2])
    yield 'dict argument', fdl.Config(_mutate_then_fail, [1], {'keep': 1, 'other': [2]})
    yield 'list shared with another Buildable', fdl.Config(
        dags.node_fn(0), fdl.Config(_mutate_then_fail, shared), fdl.Config(dags.node_fn(1), shared))
    yield 'nested containers', fdl.Config(_mutate_then_fail, [3, 1, 2], {'keep': [1], 'k2': {'a': ()}}, (1, [2]))
    yield 'inside a Partial argument', fdl.Config(dags.node_fn(0), [fdl.Config(_mutate_then_fail, [9, 8, 7])])
  for name, cfg in cases():
    n += 1
    before = canon.canon(cfg)
    snap = copy.deepcopy(cfg)
    msgs = []
    for attempt in range(2):
      try:
        fdl.build(cfg)
        bad(f'{name}: build #{attempt + 1} did not fail', name)
      except ValueError as e:
        msgs.append(str(e).split('\n')[0])
      except BaseException as e:   # pylint: disable=broad-except
        bad(f'{name}: build #{attempt + 1} raised {type(e).__name__} instead of the original ValueError', name)
      if canon.canon(cfg) != before or cfg != snap:
        bad(f'{name}: the configuration was modified by failed build #{attempt + 1} (in-place edits of the '
            f'callable reached the configured containers)', name)
        break
    if len(set(msgs)) > 1:
      bad(f'{name}: the same failing build reports different errors: {msgs}', name)
    try:
      fdl.build(fdl.Config(dags.node_fn(2), [1, 2]))
    except BaseException as e:   # pylint: disable=broad-except
      bad(f'{name}: a healthy build afterwards raised {type(e).__name__}', name)
  return n, n, viols, [dict(scenario='callable mutating its container arguments, then raising', cases=n)]


class _Cached:
  """A callable that remembers the exception it was told about and raises it again."""
  stash = {}

  @staticmethod
  def fail(x=0):
    raise KeyError('first failure')

  @staticmethod
  def again(x=0):
    raise _Cached.stash['exc']


def redecorated_case(_=None):
  """An exception that already went through Fiddle's decoration once (it escaped an earlier failed
  fdl.build, or a failed pyref import) and is raised again by another callable: the build that fails
  now reports the path of the Buildable that failed now, with the original class and message."""
  from layerb import pool as _pool
  viols = []
  def bad(what, name):
    viols.append(dict(what=what, shape=[], sig='redecorated', store=name, op='', scenario=name))
  first = fdl.Config(_pool.fk, inner=[0, {'x': fdl.Config(_Cached.fail, 1)}])
  try:
    fdl.build(first)
    return 1, 0, [], []
  except KeyError as e:
    _Cached.stash['exc'] = e
    first_msg = str(e)
  if "inner[1]['x']" not in first_msg:
    bad(f'the first failure does not name its path: {first_msg[:120]}', 'first')
  n = 0
  for name, mk, want in [
      ('re-raised at another path', lambda: fdl.Config(_pool.fk, other=(fdl.Config(_Cached.again, 2),)), '.other[0]'),
      ('re-raised at the root', lambda: fdl.Config(_Cached.again, 2), '<root>'),
      ('re-raised inside a Partial argument', lambda: fdl.Partial(_pool.fk, z=fdl.Config(_Cached.again)), '.z'),
  ]:
    n += 1
    try:
      fdl.build(mk())
      bad('the build did not fail', name)
    except KeyError as e:
      msg = str(e)
      if 'first failure' not in msg:
        bad(f'the original message is lost: {msg[:120]}', name)
      tail = msg.split("inner[1]['x']")[-1] if want == '<root>' else msg
      if want not in tail:
        bad(f'an exception decorated once before is re-raised by the Buildable at {want}; the message of the '
            f'failing build does not name that path: {msg[:200]}', name)
    except Exception as e:   # pylint: disable=broad-except
      bad(f'the exception class changed to {type(e).__name__}', name)
  # a pyref that cannot be imported, hit while a build is running
  from fiddle._src.experimental import serialization as ser
  def loader(doc=None):
    return ser.load_json(doc)
  good = ser.dump_json(fdl.Config(_pool.fk, 1))
  broken = good.replace('layerb.pool', 'layerb.no_such_module_for_c05')
  if broken != good:
    n += 1
    try:
      fdl.build(fdl.Config(_pool.fk, sub={'k': fdl.Config(loader, broken)}))
      bad('the build did not fail', 'pyref')
    except Exception as e:   # pylint: disable=broad-except
      if ".sub['k']" not in str(e):
        bad(f'a failed pyref import inside a callable being built: the message does not name the failing '
            f'Buildable .sub[\'k\']: {str(e)[:200]}', 'pyref')
  return n, n, viols, [dict(scenario='exception decorated before, raised again', cases=n)]


def replay(case):
  if case.get('scenario') == 'mutating':
    r = mutating_callable_case()
    m = [v for v in r[2] if v['store'] == case.get('store')]
    return m[0]['what'] if m else None
  if case.get('scenario') == 'same-named':
    r = same_named_classes_case()
  elif case.get('scenario') == 'diag':
    r = diagnostic_failure_case()
  elif case.get('scenario') == 'nested':
    r = nested_build_case()
  elif case.get('sig') == 'redecorated':
    r = redecorated_case()
    m = [v for v in r[2] if v['store'] == case.get('store')]
    return m[0]['what'] if m else None
  else:
    shape = tuple((k, tuple(s)) for k, s in case['shape'])
    r = check_case((shape, case['fail_node'], case['exc'], case['bad_repr']))
  return r[2][0]['what'] if r[2] else None


def run(tier='quick', seed=0, nproc=16):
  n = 3 if tier == 'quick' else 4
  jobs = []
  for shape in dags.shapes_upto(n, kinds='CLD', root_kinds='CLD'):
    cnodes = [i for i, (k, _) in enumerate(shape) if k == 'C']
    for f in cnodes:
      excs = list(EXC_SHAPES) if (len(shape) <= 2 or tier != 'quick') else ['plain', 'initargs', 'base']
      for ex in excs:
        jobs.append((shape, f, ex, False))
      jobs.append((shape, f, 'plain', True))
  jobs = gen.shuffled(jobs)
  res = common.pmap(check_case, jobs, nproc)
  res.append(common.guard(nested_build_case))
  res.append(common.guard(diagnostic_failure_case))
  res.append(common.guard(same_named_classes_case))
  res.append(common.guard(mutating_callable_case))
  res.append(common.guard(redecorated_case))
  return common.merge(
      res, 'layerb.prop_C05',
      rule='crash points: every Buildable node of every DAG shape (<= %d nodes, Config/list/dict) as '
           'the failing node x exception-class shapes (custom __init__, __str__ override, slots, '
           'non-subclassable, BaseException subclasses, KeyboardInterrupt) x failure while '
           'formatting the diagnostic (repr raising) x repeated failures, then follow-up builds; '
           'nested build rejected; distinct exception classes sharing module and qualified name; callables '
           'that edit their container arguments in place before failing; every '
           'case is distinct' % n,
      exhaustive=True, bound=f'DAGs <= {n} nodes')
