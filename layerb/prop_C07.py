"""C07, bounded part: copies are faithful and independent (copy, deepcopy, pickle, cast)."""
import copy
import itertools
import pickle
import fiddle as fdl
from fiddle._src import config as config_lib
from layerb import canon, common, pool, gen


def _built(cfg):
  try:
    b = fdl.build(cfg)
    return repr(b() if callable(b) and isinstance(cfg, fdl.Partial) and False else b)
  except Exception as e:   # pylint: disable=broad-except
    return f'raises {type(e).__name__}'


def all_buildables(root):
  _, keep = canon.mutable_ids(root)
  return [x for x in keep if isinstance(x, config_lib.Buildable)]


DEEP = {
    'deepcopy': copy.deepcopy,
    'pickle': lambda c: pickle.loads(pickle.dumps(c)),
    'deepcopy_with': lambda c: fdl.deepcopy_with(c),
}


def _cast(c):
  target = fdl.Partial if isinstance(c, fdl.Config) else fdl.Config
  return fdl.cast(target, c)


SHALLOW = {
    'copy.copy': copy.copy,
    'copy_with': lambda c: fdl.copy_with(c),
    'cast': _cast,
    'cast-same-type': lambda c: fdl.cast(type(c), c),
}


def check_case(args):
  name, copier, edit_names = args
  factory = dict(pool.make_pool())[name]
  edits = dict(pool.edits())
  viols = []
  def bad(what):
    viols.append(dict(config=name, copier=copier, edits=list(edit_names), what=what,
                      sig=name, store=copier, op='+'.join(edit_names)))
  orig = factory()
  c0 = canon.canon(orig, with_history=True)
  b0 = _built(orig)
  try:
    cp = (DEEP.get(copier) or SHALLOW[copier])(orig)
  except Exception as e:   # pylint: disable=broad-except
    if copier == 'pickle':
      return 1, 0, [], []        # not every leaf is picklable; pickle may be loud
    bad(f'{copier} raised {type(e).__name__}: {str(e)[:100]}')
    return 1, 1, viols, []
  if canon.canon(orig, with_history=True) != c0:
    bad(f'{copier} modified the original')
  if copier in DEEP:
    if canon.canon(cp) != canon.canon(orig):
      bad(f'{copier}: the copy differs from the original in callables/arguments/tags/sharing')
    ids_o, keep_o = canon.mutable_ids(orig)
    ids_c, keep_c = canon.mutable_ids(cp)
    shared = set(ids_o) & set(ids_c)
    if shared:
      bad(f'{copier}: copy shares mutable objects with the original: '
          f'{sorted(ids_o[i] for i in shared)}')
  else:
    if cp is orig:
      bad(f'{copier} returned the same object')
    want = canon.canon(orig)
    got = canon.canon(cp)
    if copier not in ('cast',) and got != want:
      bad(f'{copier}: the copy differs from the original')
    for k, v in orig.__arguments__.items():
      if k not in cp.__arguments__ or cp.__arguments__[k] is not v:
        bad(f'{copier}: argument value {k!r} is not shared with the original')
    for part in ('__arguments__', '__argument_tags__', '__argument_history__'):
      if getattr(cp, part) is getattr(orig, part):
        bad(f'{copier}: {part} is the same object as the original\'s')
    for k, ts in orig.__argument_tags__.items():
      if k in cp.__argument_tags__ and cp.__argument_tags__[k] is ts:
        bad(f'{copier}: tag set of {k!r} is shared with the original')
    for k, hs in orig.__argument_history__.items():
      if k in cp.__argument_history__ and cp.__argument_history__[k] is hs:
        bad(f'{copier}: history list of {k!r} is shared with the original')
  # edits on the copy (on every Buildable of a deep copy, on the top level of a shallow one)
  targets = all_buildables(cp) if copier in DEEP else [cp]
  for en in edit_names:
    for t in targets:
      try:
        edits[en](t)
      except Exception:   # pylint: disable=broad-except
        pass
  if canon.canon(orig, with_history=True) != c0:
    bad(f'editing the {copier} copy ({"+".join(edit_names)}) changed what the original reports')
  if _built(orig) != b0:
    bad(f'editing the {copier} copy changed what the original builds')
  return 1, 1, viols, ([dict(config=name, copier=copier, edits=list(edit_names))]
                       if name == 'tags' and copier == 'cast' and len(edit_names) == 2 else [])


def deepcopy_with_shared_case(_=None):
  """fdl.deepcopy_with(cfg, name=new) where the current value of `name` (a Buildable, list, dict,
  tagged sub-config) is also reachable from elsewhere in cfg: the result shares no mutable object
  with the original, and equals deepcopy-then-assign."""
  import copy
  from fiddle import experimental  # noqa: F401  pylint: disable=unused-import
  viols = []
  def bad(what, name):
    viols.append(dict(config=name, copier='deepcopy_with', edits=[], what=what, sig='deepcopy_with-shared',
                      store=name, op='', scenario='deepcopy_with-shared'))
  def shared_config():
    tok = fdl.Config(pool.fb, 100, [1, 2])
    enc = fdl.Config(pool.fk, tok, deep={'t': tok})
    return fdl.Config(pool.fk2, tok, enc), 'x'
  def shared_list():
    l = [1, [2]]
    return fdl.Config(pool.fk2, l, [l], also=(l,)), 'x'
  def shared_dict():
    d = {'k': [0]}
    return fdl.Partial(pool.fk2, d, fdl.Config(pool.fb, d)), 'x'
  def shared_kwarg():
    sub = fdl.Config(pool.fb, [3])
    return fdl.Config(pool.fk, 1, extra=sub, holder=[sub]), 'extra'
  n = 0
  for mk in (shared_config, shared_list, shared_dict, shared_kwarg):
    n += 1
    name = mk.__name__
    orig, arg = mk()
    c0 = canon.canon(orig, with_history=True)
    try:
      cp = fdl.deepcopy_with(orig, **{arg: 'replaced'})
    except Exception as e:   # pylint: disable=broad-except
      bad(f'deepcopy_with raised {type(e).__name__}: {str(e)[:100]}', name)
      continue
    if canon.canon(orig, with_history=True) != c0:
      bad('deepcopy_with modified the original', name)
    ref = copy.deepcopy(orig)
    setattr(ref, arg, 'replaced')
    if canon.canon(cp) != canon.canon(ref):
      bad('deepcopy_with(cfg, name=v) differs from deepcopy followed by the assignment', name)
    ids_o, _ = canon.mutable_ids(orig)
    ids_c, _ = canon.mutable_ids(cp)
    shared = set(ids_o) & set(ids_c)
    if shared:
      bad(f'the argument replaced by deepcopy_with is also referenced elsewhere in the configuration; the copy '
          f'shares mutable objects with the original: {sorted(ids_o[i] for i in shared)[:4]}', name)
    for t in all_buildables(cp):
      for en, ed in pool.edits():
        try:
          ed(t)
        except Exception:   # pylint: disable=broad-except
          pass
    if canon.canon(orig, with_history=True) != c0:
      bad('editing the deepcopy_with copy changed what the original reports', name)
  return n, n, viols, [dict(scenario='deepcopy_with replacing an argument whose value is shared elsewhere', cases=n)]


def replay(case):
  if case.get('scenario') == 'deepcopy_with-shared':
    r = deepcopy_with_shared_case()
    m = [v for v in r[2] if v['store'] == case.get('store')]
    return m[0]['what'] if m else None
  r = check_case((case['config'], case['copier'], tuple(case['edits'])))
  return r[2][0]['what'] if r[2] else None


def run(tier='quick', seed=0, nproc=16):
  names = [n for n, _ in pool.make_pool()]
  enames = [n for n, _ in pool.edits()]
  seqs = [()] + [(e,) for e in enames] + list(itertools.permutations(enames, 2))
  if tier != 'quick':
    seqs += list(itertools.permutations(enames, 3))
  jobs = [(n, c, s) for n in names for c in list(DEEP) + list(SHALLOW) for s in seqs]
  res = common.pmap(check_case, gen.shuffled(jobs), nproc)
  res.append(common.guard(deepcopy_with_shared_case))
  return common.merge(
      res, 'layerb.prop_C07',
      rule='every configuration of the pool (positional/keyword/**kwargs arguments, tags incl. '
           'positional ones, shared nodes and containers, all Buildable types) x copier (deepcopy, '
           'pickle, deepcopy_with, copy.copy, copy_with, cast to the other and to the same type) x every edit sequence of length <= '
           f'{2 if tier == "quick" else 3} applied to the copy; canonical form + identity sets + build of '
           'the original before/after',
      exhaustive=True, bound='pool of %d configurations, edit sequences <= %d' % (len(names), 2 if tier == 'quick' else 3))
