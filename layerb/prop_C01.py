"""C01, bounded part: build == direct call with the configured arguments."""
from layerb import gen, c01, common


def run(tier='quick', seed=0, nproc=16):
  n = 4 if tier == 'quick' else 6
  jobs = gen.shuffled([(s.kinds, s.hasdef, 2 if tier == 'quick' else 3) for s in gen.all_sigs(n)])
  res = common.pmap(c01.check_sig, jobs, nproc)
  res.append(common.guard(c01.callable_kinds_case))
  res.append(common.guard(c01.nested_containers_case))
  res.append(common.guard(c01.equal_leaves_case))
  res.append(common.guard(c01.kwargs_order_case))
  res.append(common.guard(c01.posonly_name_in_kwargs_case))
  return common.merge(
      res, 'layerb.c01', keyfn=lambda v: v.get('fkey'),
      rule='exhaustive: signature shape (<=%d params, every default pattern) x every subset of '
           'parameters set x varargs x extra kwargs x {Config, Partial}; recording callable; oracle = '
           'expected binding from the reference model, cross-checked by a real direct call; '
           'non-trivial = non-empty store; the same function configured as bound method / plain function / '
           'classmethod / staticmethod / callable instance / partial, in every order of two; nested Buildables '
           'inside lists, tuples, dicts, named tuples, defaultdicts' % n,
      exhaustive=True, bound=f'signatures <={n} params')
