"""Module used as default_module of FiddleFlag in the C18 check."""
import fiddle as fdl
from layerb import pool


def base(x=0, tag='base'):
  return fdl.Config(pool.fc, x, q=[tag], r={'log': 'base'})


def base2():
  return fdl.Config(pool.fb, 1, 2)


def append_log(cfg, what='f'):
  cfg.q = list(cfg.q) + [what]


def set_r(cfg, value=1):
  cfg.r = value


def replace_cfg(cfg, marker='new'):
  new = fdl.Config(pool.fc, marker, q=list(cfg.q) + ['replaced'], r=cfg.r)
  return new


def with_list(layers=(), tag='l'):
  return fdl.Config(pool.fc, layers, q=tag)      # keeps the very object it was given


def set_layers(cfg, layers):
  cfg.p = layers


def widen(cfg, factor=2):
  cfg.p[:] = [v * factor for v in cfg.p]          # in-place edit of the stored list
