"""Module used as default_module of FiddleFlag in the C18 check."""
import fiddle as fdl
from layerb import pool


def base(x=0, tag='base'):
  return fdl.Config(pool.fc, x, q=[tag], r={'log': 'base'})


def base2():
  return fdl.Config(pool.fb, 1, 2)


def append_log(cfg, what='f'):
  cfg.q = list(cfg.q) + [what]


def set_r(cfg, value=1):
  cfg.r = value


def replace_cfg(cfg, marker='new'):
  new = fdl.Config(pool.fc, marker, q=list(cfg.q) + ['replaced'], r=cfg.r)
  return new
