"""C03 bounded stand-in / replay harness: every edit operation on every small signature and
store against the reference model of layerb.refmodel (exhaustive up to the bound)."""
import copy
import fiddle as fdl
from layerb import gen, ops as O
from layerb.refmodel import RefConfig, ModelError


def step(cfg, model, op):
  """Applies op to both; returns None if they agree, else a description of the difference."""
  before = O.observe(cfg)
  m2 = model.copy()
  try:
    exp = op.apply_model(m2)
    exp_raises = False
  except ModelError as e:
    exp_raises, exp = True, str(e)
  try:
    got = op.apply_real(cfg)
    got_raises = False
  except Exception as e:   # pylint: disable=broad-except
    got_raises, got = True, f'{type(e).__name__}: {str(e)[:80]}'
  after = O.observe(cfg)
  if exp_raises:
    if not got_raises:
      return f'model rejects ({exp}) but the operation succeeded; now reports {after}'
    if after != before:
      return f'operation raised ({got}) but changed the reported arguments {before} -> {after}'
    return None
  if got_raises:
    return f'valid edit raised {got}; model expects {O.observe_model(m2)}'
  if op.kind in ('getattr', 'getitem') and got != exp:
    return f'read returned {got!r}, model says {exp!r}'
  want = O.observe_model(m2)
  if after != want:
    return f'reports {after}, model predicts {want}'
  model.named, model.var, model.extra = m2.named, m2.var, m2.extra
  return None


def run_case(sig, store, op_seq):
  """Replays one case from scratch; returns (violation-or-None, index of failing op)."""
  cfg = gen.make_config(sig, store)
  model = RefConfig(sig, store)
  # the starting point itself must agree
  if O.observe(cfg) != O.observe_model(model):
    return f'initial state reports {O.observe(cfg)}, model {O.observe_model(model)}', -1
  for i, op in enumerate(op_seq):
    v = step(cfg, model, op)
    if v is not None:
      return v, i
  return None, None


def check_sig(args):
  """Worker: all stores x all single ops (x second op for depth 2) for one signature."""
  kinds, hasdef, tier, depth, max_var = args
  sig = gen.SigSpec(kinds, hasdef)
  evals = 0
  nontrivial = set()
  viols = []
  samples = []
  for store in gen.all_stores(sig, max_var=max_var, max_extra=1):
    L = sig.npos + sum(1 for k in store if isinstance(k, int) and sig.vps is not None and k >= sig.vps)
    first_ops = O.all_ops(sig, L, tier)
    for op in first_ops:
      evals += 1
      v, idx = run_case(sig, store, [op])
      if v is not None:
        viols.append(dict(kinds=kinds, hasdef=hasdef, store=_enc_store(store), ops=[op.to_json()],
                          what=v, sig=sig.label, op=repr(op)))
        continue
      if op.kind not in ('getattr', 'getitem'):
        nontrivial.add((sig.label, tuple(sorted(map(str, store))), repr(op)))
      if len(samples) < 2 and op.kind == 'setitem' and isinstance(op.key, slice):
        samples.append(dict(sig=sig.label, store=_enc_store(store), ops=[repr(op)]))
      if depth >= 2 and op.kind not in ('getattr', 'getitem') and _simple(op):
        # second operation from the state reached by the first (hidden state: key order,
        # history, tags differ from a freshly made store)
        cfg = gen.make_config(sig, store)
        model = RefConfig(sig, store)
        if step(cfg, model, op) is not None:
          continue
        L2 = len(model.view())
        for op2 in second_ops(sig, L2):
          evals += 1
          c2, m2 = copy.copy(cfg), model.copy()
          v = step(c2, m2, op2)
          if v is not None:
            viols.append(dict(kinds=kinds, hasdef=hasdef, store=_enc_store(store),
                              ops=[op.to_json(), op2.to_json()], what=v, sig=sig.label,
                              op=f'{op!r}; {op2!r}'))
            if len(viols) > 200:
              return evals, len(nontrivial), viols, samples
  return evals, len(nontrivial), viols, samples


def _simple(op):
  """Ops used for two-step sequences: by name, by index, and a few unit-step slices."""
  if isinstance(op.key, slice):
    k = op.key
    if k.step is not None:
      return False
    ends = (None, O.V, 0, -1)
    if k.start not in ends or k.stop not in ends:
      return False
    if op.kind == 'setitem' and len(op.value) > 2:
      return False
  return True


_second = {}


def second_ops(sig, L):
  key = (sig.kinds, sig.hasdef, L)
  if key not in _second:
    _second[key] = [o for o in O.all_ops(sig, L, 'quick', names=True) if _simple(o)]
  return _second[key]


def _enc_store(store):
  return [[k, v] for k, v in store.items()]


def dec_store(enc):
  return {k: v for k, v in enc}


def _f_mutable(a, layers=[1, 2, 3], /, opts={'x': 1}, *rest, table={'k': [0]}, names={'n'}, plain=5, **kw):   # pylint: disable=dangerous-default-value
  return (a, layers, opts, rest, table, names, plain, kw)


def mutable_defaults_case(_=None):
  """Reading a parameter that was never assigned (by name, by index) returns its default and
  changes nothing the configuration reports, whatever the default is (list, dict, set); deleting
  it afterwards is still the error it was."""
  import inspect
  viols = []
  def bad(what, name):
    viols.append(dict(kinds=[], hasdef=[], store=[], ops=[], what=what, sig='mutable-defaults', op=name,
                      mutable_defaults=True))
  params = inspect.signature(_f_mutable).parameters
  reads = [('cfg[1]', lambda c: c[1], 'layers'), ('cfg.opts', lambda c: c.opts, 'opts'),
           ('cfg.table', lambda c: c.table, 'table'), ('cfg.names', lambda c: c.names, 'names'),
           ('cfg.plain', lambda c: c.plain, 'plain'), ('cfg[:]', lambda c: c[:], None),
           ("getattr(cfg, 'table')", lambda c: getattr(c, 'table'), 'table')]
  n = 0
  for cls in (fdl.Config, fdl.Partial):
    for label, read, pname in reads:
      n += 1
      cfg = cls(_f_mutable, 1)
      fresh = cls(_f_mutable, 1)
      before = (O.observe(cfg), dict(cfg.__arguments__), fdl.ordered_arguments(cfg))
      try:
        got = read(cfg)
      except Exception as e:   # pylint: disable=broad-except
        bad(f'{cls.__name__}: reading {label} raised {type(e).__name__}: {str(e)[:60]}', label)
        continue
      if pname is not None and got != params[pname].default:
        bad(f'{cls.__name__}: {label} returned {got!r}, the default is {params[pname].default!r}', label)
      after = (O.observe(cfg), dict(cfg.__arguments__), fdl.ordered_arguments(cfg))
      if after != before:
        bad(f'{cls.__name__}: reading {label} changed the reported arguments {before[1]} -> {after[1]}', label)
      if cfg != fresh:
        bad(f'{cls.__name__}: a configuration that was only read ({label}) no longer equals a fresh one', label)
      if pname is not None and pname in ('opts', 'table', 'names', 'plain'):
        try:
          delattr(cfg, pname)
          bad(f'{cls.__name__}: del cfg.{pname} of a never-assigned parameter (after reading it) did not raise', label)
        except AttributeError:
          pass
        except Exception as e:   # pylint: disable=broad-except
          bad(f'{cls.__name__}: del cfg.{pname} raised {type(e).__name__}', label)
  return n, n, viols, [dict(scenario='reads of never-assigned parameters with mutable defaults', cases=n)]


def explicit_none_case(_=None):
  """None stored explicitly in a slot whose parameter has another default (or none) is a value like
  any other: the positional view, reads by index / name, ordered_arguments and build all report it."""
  from layerb import pool
  viols = []
  def bad(what, name):
    viols.append(dict(kinds=[], hasdef=[], store=[], ops=[], what=what, sig='explicit-none', op=name,
                      explicit_none=True))
  n = 0
  def required(a, b, /, c, *rest, k):
    return (a, b, c, rest, k)
  for cls in (fdl.Config, fdl.Partial):
    for name, mk, view, args in [
        ('constructor', lambda: cls(pool.fnone, None, None, None, None, 5, k=None, extra=None),
         [None, None, None, None, 5], {0: None, 1: None, 'c': None, 3: None, 4: 5, 'k': None, 'extra': None}),
        ('index assignment', lambda: (lambda c: (c.__setitem__(2, None), c.__setitem__(0, None), c)[2])(cls(pool.fnone, 7, 8, 9)),
         [None, 8, None], {0: None, 1: 8, 'c': None}),
        ('negative index / slice', lambda: (lambda c: (c.__setitem__(-1, None), c.__setitem__(slice(0, 2), [None, None]), c)[2])(cls(pool.fnone, 7, 8, 9)),
         [None, None, None], {0: None, 1: None, 'c': None}),
        ('by name', lambda: (lambda c: (setattr(c, 'c', None), setattr(c, 'k', None), c)[2])(cls(pool.fnone, 7)),
         [7, 'two', None], {0: 7, 'c': None, 'k': None}),
        ('required parameters', lambda: cls(required, None, None, None, None, k=None),
         [None, None, None, None], {0: None, 1: None, 'c': None, 3: None, 'k': None}),
    ]:
      n += 1
      try:
        cfg = mk()
      except Exception as e:   # pylint: disable=broad-except
        bad(f'{cls.__name__}, {name}: raised {type(e).__name__}: {str(e)[:80]}', name)
        continue
      got_view = list(cfg[:])
      if got_view != view:
        bad(f'{cls.__name__}, {name}: cfg[:] == {got_view}, the stored values are {view}', name)
      for i, want in enumerate(view):
        if cfg[i] is not want and cfg[i] != want:
          bad(f'{cls.__name__}, {name}: cfg[{i}] == {cfg[i]!r}, stored {want!r}', name)
      oa = dict(fdl.ordered_arguments(cfg))
      if oa != args:
        bad(f'{cls.__name__}, {name}: ordered_arguments reports {oa}, the stored arguments are {args}', name)
      for k, v in args.items():
        if isinstance(k, str) and getattr(cfg, k) is not v:
          bad(f'{cls.__name__}, {name}: cfg.{k} == {getattr(cfg, k)!r}, stored {v!r}', name)
      if cls is fdl.Config and cfg.__fn_or_cls__ is pool.fnone:
        built = fdl.build(cfg)
        pos = [args[i] for i in sorted(i for i in args if isinstance(i, int))]
        want = pool.fnone(*view, *pos[len(view):] if False else (), **{k: v for k, v in args.items() if isinstance(k, str) and k != 'c'})
        if built != want:
          bad(f'{cls.__name__}, {name}: build passes {built}, the direct call with the stored values gives {want}', name)
  return n, n, viols, [dict(scenario='None stored explicitly', cases=n)]


def replay(case):
  if case.get('explicit_none'):
    r = explicit_none_case()
    m = [v for v in r[2] if v['op'] == case.get('op')]
    return (m[0]['what'], 0) if m else (None, None)
  if case.get('mutable_defaults'):
    r = mutable_defaults_case()
    m = [v for v in r[2] if v['op'] == case.get('op')]
    return (m[0]['what'], 0) if m else (None, None)
  sig = gen.SigSpec(tuple(case['kinds']), tuple(case['hasdef']))
  opseq = [O.Op.from_json(j) for j in case['ops']]
  return run_case(sig, dec_store(case['store']), opseq)
