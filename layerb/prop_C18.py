"""C18, bounded part: printed paths are valid override paths; flag directives apply in order."""
import ast
import copy
import itertools
import fiddle as fdl
from absl import flags
from fiddle import printing
from fiddle._src import daglish
from fiddle._src.absl_flags import flags as fflags
from fiddle._src.absl_flags import utils as futils
from layerb import canon, common, pool, gen, flagmod


def f_annotated(name: str = 'n', note='x', path: str = '', both: str = '', *, count: int = 0, label: 'str' = ''):
  return (name, note, path, both, count, label)


def configs():
  P = {}
  # parameters annotated `str` holding strings whose repr needs escapes or either quote kind
  P['annotated-str-escapes'] = lambda: fdl.Config(
      f_annotated, name='first line\nsecond line', note='tab\there', path='C:\\ckpt\\run',
      both='it\'s "quoted"', count=3, label='\\d+\t\x00')
  P['annotated-str-plain'] = lambda: fdl.Config(
      pool.fc, fdl.Config(f_annotated, name='run-1', path="it's", both='"q"', label="'"),
      q={'s': fdl.Config(f_annotated, name='123', path='None', both='[1]', label=' padded ')})
  P['flat'] = lambda: fdl.Config(pool.fb, 1, y='two')
  P['nested'] = lambda: fdl.Config(pool.fc, fdl.Config(pool.fb, 1.5), q=None, r=True)
  P['dict-str-keys'] = lambda: fdl.Config(pool.fc, {'a': 1, 'b_c': 'x'}, q={'k': fdl.Config(pool.fb, 2)})
  P['dict-int-keys'] = lambda: fdl.Config(pool.fc, {0: 'zero', 7: 'seven'}, q={3: {4: 5}})
  P['lists'] = lambda: fdl.Config(pool.fc, [1, 'two', [3, None]], q=[fdl.Config(pool.fb, 1)], r=[])
  P['kwargs'] = lambda: fdl.Config(pool.fd, extra=1, other='s')
  P['deep'] = lambda: fdl.Config(pool.fc, fdl.Config(pool.fc, fdl.Config(pool.fb, 1, y=[{'z': 2}])), q='q')
  P['partial'] = lambda: fdl.Partial(pool.fc, 'p', q={'x': [1, 2]})
  P['bytes-negative'] = lambda: fdl.Config(pool.fb, -5, y=b'by')
  P['numeric-string-keys'] = lambda: fdl.Config(pool.fc, {'3': fdl.Config(pool.fb, 1), 3: fdl.Config(pool.fb, 2), '10': fdl.Config(pool.fb, 3)}, q={'007': 'a', 7: 'b'})
  def shared_subconfig():
    sh = fdl.Config(pool.fb, 1, y='s')
    return fdl.Config(pool.fc, sh, q=sh, r={'k': [sh, 7]})
  P['shared-sub-config'] = shared_subconfig       # every path to the shared node lists its leaves
  def shared_container():
    l = [1, {'z': 2}]
    return fdl.Config(pool.fc, l, q=fdl.Config(pool.fb, l), r=[l])
  P['shared-container'] = shared_container
  P['tuple-holder'] = lambda: fdl.Config(pool.fc, 'p', q=(1, 2))   # leaves inside tuples: not override targets
  return P


NEW_VALUES = [123, 'new-string', None, [1, 'x'], {'k': 1}, -2.5, True]


def expected_leaves(cfg):
  """Independent enumeration of (path, value) leaves (arguments that are not traversable)."""
  out = []
  def go(x, path, in_tuple):
    if isinstance(x, fdl.Buildable):
      items = [(daglish.Attr(k) if isinstance(k, str) else daglish.Index(k), v)
               for k, v in fdl.ordered_arguments(x).items()]
    elif isinstance(x, dict):
      items = [(daglish.Key(k), v) for k, v in x.items()]
    elif isinstance(x, (list, tuple)):
      items = [(daglish.Index(i), v) for i, v in enumerate(x)]
      in_tuple = in_tuple or isinstance(x, tuple)
    else:
      out.append((path, x, in_tuple))
      return
    if not items and path:
      out.append((path, x, in_tuple))
    for el, v in items:
      go(v, path + (el,), in_tuple)
  go(cfg, (), False)
  return out


def check_config(name):
  viols = []
  def bad(what, vk='other'):
    viols.append(dict(config=name, what=what, sig=name, store='', op='', vkind=vk))
  cfg = configs()[name]()
  flat = printing.as_dict_flattened(cfg)
  exp = expected_leaves(cfg)
  def norm(ps):
    return ps[1:] if ps.startswith('.') else ps
  listed = {}
  for pstr in flat:
    try:
      listed[pstr] = futils.parse_path(pstr)
    except Exception as e:   # pylint: disable=broad-except
      bad(f'printed path {pstr!r} cannot be parsed by the override parser: {type(e).__name__}: {e}', 'parse')
  # every fine-grained leaf is covered by exactly one listed path (a printer may list a whole
  # container without Buildables as one leaf)
  exp_paths = {}
  for pth, v, in_t in exp:
    covers = [ps for ps, lp in listed.items()
              if [e.code for e in pth[:len(lp)]] == [e.code for e in lp]]
    if len(covers) != 1:
      bad(f'leaf {daglish.path_str(pth)} is listed {len(covers)} times ({covers})', 'coverage')
  for pstr, lp in listed.items():
    in_tuple = False
    w = cfg
    try:
      for el in lp:
        in_tuple = in_tuple or isinstance(w, tuple)
        w = el.follow(w)
      exp_paths[pstr] = (tuple(lp), w, in_tuple)
    except Exception as e:   # pylint: disable=broad-except
      bad(f'printed path {pstr!r} does not resolve: {type(e).__name__}', 'resolve')
  n = 0
  for pstr, val in flat.items():
    if pstr not in exp_paths:
      continue
    p, v, in_tuple = exp_paths[pstr]
    try:
      parsed = futils.parse_path(pstr)
      got = daglish.follow_path(cfg, parsed)
      if got is not v and got != v:
        bad(f'path {pstr!r} resolves to {got!r}, listed value {val!r}', 'resolve')
    except Exception as e:   # pylint: disable=broad-except
      bad(f'printed path {pstr!r} cannot be parsed/followed: {type(e).__name__}: {e}', 'parse')
      continue
    if in_tuple:
      continue
    for nv in NEW_VALUES:
      n += 1
      target = copy.deepcopy(cfg)
      want = copy.deepcopy(cfg)
      *parents, last = p
      w = want
      for el in parents:
        w = el.follow(w)
      if isinstance(last, daglish.Attr):
        setattr(w, last.name, nv)
      elif isinstance(last, daglish.Key):
        w[last.key] = nv
      else:
        w[last.index] = nv
      try:
        futils.set_value(target, f'{pstr}={nv!r}')
      except Exception as e:   # pylint: disable=broad-except
        bad(f'override {pstr}={nv!r} raised {type(e).__name__}: {e}',
            'set:' + type(last).__name__)
        break
      if canon.canon(target) != canon.canon(want):
        bad(f'override {pstr}={nv!r} did not set exactly that leaf', 'set-wrong')
        break
  # writing a printed leaf back as path=repr(value): onto the configuration itself (nothing changes)
  # and onto a copy whose leaf was first overwritten with something else (the leaf comes back)
  for pstr, val in flat.items():
    if pstr not in exp_paths:
      continue
    p, v, in_tuple = exp_paths[pstr]
    if in_tuple or isinstance(v, fdl.Buildable) or v is fdl.NO_VALUE:
      continue
    try:
      if ast.literal_eval(repr(v)) != v or type(ast.literal_eval(repr(v))) is not type(v):
        continue
    except Exception:   # pylint: disable=broad-except
      continue          # not a Python literal: outside the quantifier
    n += 1
    for prepare in ('as-is', 'overwritten-first'):
      target = copy.deepcopy(cfg)
      try:
        if prepare == 'overwritten-first':
          futils.set_value(target, f'{pstr}=None')
        futils.set_value(target, f'{pstr}={v!r}')
      except Exception as e:   # pylint: disable=broad-except
        bad(f'writing the printed leaf back, {pstr}={v!r}, raised {type(e).__name__}: {e}', 'write-back')
        break
      if isinstance(v, (list, dict, set)):
        # a container written back is a new object (sharing with other places ends): compare values
        same = printing.as_dict_flattened(target) == flat
      else:
        same = canon.canon(target) == canon.canon(cfg)
      if not same:
        got = None
        try:
          got = daglish.follow_path(target, p)
        except Exception:   # pylint: disable=broad-except
          pass
        bad(f'writing the printed leaf back as {pstr}={v!r} ({prepare}) does not reproduce the configuration: '
            f'the leaf is now {got!r}', 'write-back')
        break
  # as_str_flattened: one line per leaf, `path = value`
  lines = [l for l in printing.as_str_flattened(cfg, include_types=False).splitlines() if '<[unset' not in l]
  got_paths = sorted(l.split(' = ', 1)[0] for l in lines)
  if got_paths != sorted(flat):
    bad(f'as_str_flattened lists {got_paths}, as_dict_flattened {sorted(flat)}', 'str-lines')
  return max(n, 1), max(n, 1), viols, ([dict(config=name, paths=sorted(flat)[:5])] if name == 'deep' else [])


def make_flag():
  return fflags.FiddleFlag(name='cfg%d' % id(object()), default_module=flagmod, default=None,
                           parser=flags.ArgumentParser(), serializer=None, help_string='x')


def manual(directives):
  cfg = None
  for d in directives:
    cmd, expr = d.split(':', 1)
    if cmd == 'config':
      ce = futils.CallExpression.parse(expr)
      cfg = getattr(flagmod, ce.func_name)(*ce.args, **ce.kwargs)
    elif cmd == 'set':
      path, val = expr.split('=', 1)
      *parents, last = futils.parse_path(path)
      w = cfg
      for el in parents:
        w = el.follow(w)
      import ast
      v = ast.literal_eval(val)
      if isinstance(last, daglish.Attr):
        setattr(w, last.name, v)
      else:
        w[last.key] = v
    else:
      ce = futils.CallExpression.parse(expr)
      r = getattr(flagmod, ce.func_name)(cfg, *ce.args, **ce.kwargs)
      cfg = r if r is not None else cfg
  return cfg


OVERRIDES = ['set:p=1', "set:r='R'", "set:q=['reset']", 'fiddler:append_log', "fiddler:append_log('g')",
             'fiddler:set_r(value=7)', "fiddler:replace_cfg('m')", "set:r.log='x'"]


def check_directives(seq):
  viols = []
  directives = ['config:base(x=3)'] + list(seq)
  def bad(what):
    viols.append(dict(directives=directives, what=what, sig='flags', store=str(list(seq)), op='', flags=True))
  try:
    want = manual(directives)
    want_err = None
  except Exception as e:   # pylint: disable=broad-except
    want, want_err = None, type(e).__name__
  # all at once, and one parse() call per directive (lazy evaluation of .value in between)
  for mode in ('once', 'incremental'):
    f = make_flag()
    try:
      if mode == 'once':
        f.parse(directives)
        got = f.value
      else:
        got = None
        for d in directives:
          f.parse([d])
          got = f.value
      if want_err:
        bad(f'({mode}) sequential application fails with {want_err} but the flag produced a value')
      elif canon.canon(got) != canon.canon(want):
        bad(f'({mode}) flag value differs from applying the directives strictly in order')
    except Exception as e:   # pylint: disable=broad-except
      if not want_err:
        bad(f'({mode}) flag raised {type(e).__name__}: {e}')
  return 1, 1, viols, ([dict(directives=directives)] if len(seq) == 3 and seq[0].startswith('fiddler:replace') else [])


def misc_cases(_=None):
  viols = []
  def bad(what):
    viols.append(dict(what=what, sig='misc', store='', op='', misc=True))
  n = 0
  # first directive must be a base config; second base config rejected; malformed rejected
  for ds in (['set:p=1'], ['fiddler:append_log'], ['config:base', 'config:base2'], ['bogus:1'], ['config:base', 'nocolon']):
    n += 1
    f = make_flag()
    try:
      f.parse(ds)
      f.value
      bad(f'directives {ds} were accepted')
    except ValueError:
      pass
    except Exception as e:   # pylint: disable=broad-except
      bad(f'directives {ds}: {type(e).__name__} instead of ValueError')
  # config_str / serializer round trip
  for name, fac in list(pool.make_pool())[:8] + list(configs().items()):
    n += 1
    cfg = fac()
    try:
      s = futils.ZlibJSONSerializer().serialize(cfg)
    except Exception:   # pylint: disable=broad-except
      continue
    f = make_flag()
    f.parse([f'config_str:{s}'])
    if canon.canon(f.value) != canon.canon(cfg):
      bad(f'config_str round trip of {name} is not equal to the original')
    ser = fflags.FiddleFlagSerializer()
    f2 = make_flag()
    f2.parse([ser.serialize(cfg)])
    if canon.canon(f2.value) != canon.canon(cfg):
      bad(f'FiddleFlagSerializer round trip of {name} differs')
  # the short command-line form `--fdl.PATH=VALUE` is the override `PATH=VALUE`, verbatim, for every
  # printed path (first components starting with any letter, indices, keys) and every value text
  from fiddle._src.absl_flags import legacy_flags
  from fiddle import printing
  paths = set()
  for name, fac in configs().items():
    try:
      paths |= set(printing.as_dict_flattened(fac()))
    except Exception:   # pylint: disable=broad-except
      pass
  paths |= {'decoder.dim', 'layers[0].dim', 'dx', 'lr', 'f', 'fdl', 'l.d.f', "d['f']", 'x', 'seed', "options['mode']"}
  for path in sorted(paths):
    for value in ('1', "'d.f=l'", '[1, 2]', '-0.5', 'None'):
      n += 1
      for prefix, flag in (('--fdl.', '--fdl_set='), ('--fdl_tag.', '--fdl_tags_set=')):
        got = legacy_flags.rewrite_fdl_args(['prog', f'{prefix}{path}={value}', '--other=1'])
        want = ['prog', f'{flag}{path}={value}', '--other=1']
        if got != want:
          bad(f'short-form flag {prefix}{path}={value} was rewritten to {got[1]!r}, not to the override '
              f'{want[1]!r} (the path/value text must be passed on verbatim)')
          break
  # mutable literal arguments: every directive gets its own freshly evaluated objects, so an
  # in-place edit made through one flag (or one directive) is never seen by another
  n += 1
  text = 'config:with_list(layers=[16, 32])'
  try:
    f1, f2 = make_flag(), make_flag()
    f1.parse([text]); f2.parse([text])
    v1, v2 = f1.value, f2.value
    f1.parse(['set:p[0]=7'])
    if list(f1.value.p) != [7, 32]:
      bad(f'set:p[0]=7 gave {f1.value.p}')
    if list(f2.value.p) != [16, 32]:
      bad(f'an override applied to one flag changed an independent flag built from the same text: {f2.value.p}')
    f3 = make_flag()
    f3.parse([text])
    if list(f3.value.p) != [16, 32]:
      bad(f'a flag parsed after an override of another flag starts with {f3.value.p} instead of [16, 32]')
  except Exception as e:   # pylint: disable=broad-except
    bad(f'flags built from {text!r} with one override: {type(e).__name__}: {e}')
  n += 1
  try:
    f4 = make_flag()
    f4.parse(['config:with_list(layers=[0])', 'fiddler:set_layers(layers=[1, 2])', 'fiddler:widen(factor=10)',
              'set:p[1]=5', 'fiddler:set_layers(layers=[1, 2])', 'fiddler:widen(factor=2)'])
    if list(f4.value.p) != [2, 4]:
      bad(f'directives applied in order give p == [2, 4]; the flag produced {f4.value.p} (a literal '
          'argument of an earlier directive was reused)')
  except Exception as e:   # pylint: disable=broad-except
    bad(f'a valid directive sequence (config, fiddlers, set in order) raised {type(e).__name__}: {e}')
  # call expressions with literal arguments
  for src, fn, args, kwargs in [("f", 'f', (), {}), ("f()", 'f', (), {}), ("a.b.f(1, 'x', k=[1, {'z': None}])", 'a.b.f', (1, 'x'), {'k': [1, {'z': None}]}),
                                ("f(-1.5, (1, 2), t=True)", 'f', (-1.5, (1, 2)), {'t': True})]:
    n += 1
    ce = futils.CallExpression.parse(src)
    if (ce.func_name, tuple(ce.args), dict(ce.kwargs)) != (fn, args, kwargs):
      bad(f'CallExpression.parse({src!r}) = {ce.func_name, ce.args, ce.kwargs}')
  return n, n, viols, []


def replay(case):
  if case.get('misc'):
    r = misc_cases()
  elif case.get('flags'):
    r = check_directives(tuple(case['directives'][1:]))
  else:
    r = check_config(case['config'])
  return r[2][0]['what'] if r[2] else None


def run(tier='quick', seed=0, nproc=16):
  res = common.pmap(check_config, list(configs()), nproc)
  k = 3 if tier == 'quick' else 4
  seqs = []
  for n in range(0, k + 1):
    seqs += list(itertools.permutations(OVERRIDES, n)) if n <= 2 else gen.shuffled(list(itertools.permutations(OVERRIDES, n)))[:300]
  # the same directive text more than once (every occurrence counts, in its place)
  seqs += [('set:p=1', 'set:p=2', 'set:p=1'), ('fiddler:append_log', 'fiddler:append_log'),
           ("fiddler:append_log('g')", 'set:p=1', "fiddler:append_log('g')", 'set:p=1'),
           ("set:r='R'", 'fiddler:set_r(value=7)', "set:r='R'"),
           ('set:p=1', "fiddler:replace_cfg('m')", 'set:p=1'), ('set:p=1', 'set:p=1')]
  res += common.pmap(check_directives, seqs, nproc)
  res.append(common.guard(misc_cases))
  return common.merge(
      res, 'layerb.prop_C18', keyfn=lambda v: (f"{v.get('config')}:{v.get('vkind')}" if v.get('config') else None),
      rule='configurations in the property domain (quote-free string / int dict keys, literal leaves, '
           'lists, nested Buildables, **kwargs): every leaf of as_dict_flattened vs an independent leaf '
           'enumeration, path parsed by the override parser and followed, path=repr(v) written back for '
           '%d new values and compared with a direct edit; directive sequences (config/set/fiddler, '
           'immutable fiddlers) of length <= %d vs strictly sequential application, parsed at once and '
           'incrementally; base-config rules; config_str and serializer round trips; call expressions; '
           'mutable literal arguments are fresh per directive and per flag; short-form --fdl.PATH=VALUE '
           'rewriting is verbatim for every printed path'
           % (len(NEW_VALUES), k),
      exhaustive=False, bound='10 configurations; directive sequences <= %d' % k)
