"""C20, bounded part: meaning-preserving transformations preserve what is built."""
import copy
import types
import dataclasses
import typing
import fiddle as fdl
from fiddle._src import materialize, tagging, mutate_buildable
from fiddle._src.experimental import visualize, transform, serialization
from fiddle._src.experimental import dataclasses as fdl_dc
from layerb import canon, common, pool, gen


def _const(v):
  """Immutable constants (incl. tuples of constants): identity carries no meaning."""
  if isinstance(v, tuple):
    return all(_const(x) for x in v)
  return isinstance(v, (int, float, str, bytes, bool, type(None), complex))


def norm_built(x, seen=None, behav=False):
  """Structural form of a built object (values, types, sharing by first-visit label).
  functools.partial objects are compared by behaviour: the result (or exception class) of
  calling them without further arguments."""
  import functools
  labels = {}
  def go(v):
    if _const(v):
      return ('const', repr(v))
    if isinstance(v, functools.partial):
      if id(v) in labels:
        return ('ref', labels[id(v)])
      labels[id(v)] = len(labels)
      try:
        return ('partial-call', getattr(v.func, '__name__', repr(v.func)), go(v()))
      except Exception as e:   # pylint: disable=broad-except
        return ('partial-raises', getattr(v.func, '__name__', repr(v.func)), type(e).__name__)
    if behav and isinstance(v, (types.FunctionType, types.MethodType, type)):
      # compared like a functools.partial without bound arguments: by what calling it gives
      try:
        return ('partial-call', getattr(v, '__name__', repr(v)), go(v()))
      except Exception as e:   # pylint: disable=broad-except
        return ('partial-raises', getattr(v, '__name__', repr(v)), type(e).__name__)
    if isinstance(v, (list, dict, set, tuple)) or (hasattr(v, '__dict__') and not isinstance(v, type)
                                                    and not callable(v)):
      if id(v) in labels:
        return ('ref', labels[id(v)])
      labels[id(v)] = len(labels)
      if isinstance(v, dict):
        return ('dict', type(v).__name__, tuple((repr(k), go(x)) for k, x in v.items()))
      if isinstance(v, (list, tuple, set)):
        return (type(v).__name__, tuple(go(x) for x in (sorted(v, key=repr) if isinstance(v, set) else v)))
      return ('obj', type(v).__name__, tuple((k, go(x)) for k, x in sorted(vars(v).items())))
    return ('leaf', type(v).__name__, repr(v))
  return go(x)


def built(cfg, behav=False):
  try:
    return ('ok', norm_built(fdl.build(cfg), behav=behav))
  except Exception as e:   # pylint: disable=broad-except
    return ('raises', type(e).__name__)


def g_posonly(a=1, b=2, /, c=3, *, k=4):
  return ('g', a, b, c, k)


SHARED_DEFAULT = [1, 2]


def g_variadic(*steps, **hparams):
  return ('g_variadic', steps, tuple(sorted(hparams.items())))


def g_mutable(x=SHARED_DEFAULT, y=SHARED_DEFAULT):
  return ('gm', x, y)


class Registry:
  def __init__(self, name='r', hooks=[]):   # pylint: disable=dangerous-default-value
    self.name, self.hooks = name, hooks


class Trainer:
  def __init__(self, callbacks=None):
    self.callbacks = callbacks


def shared_equal_to_default():
  hooks = []        # equal to Registry's default, but shared with the Trainer
  return fdl.Config(pool.fc, fdl.Config(Registry, hooks=hooks), q=fdl.Config(Trainer, callbacks=hooks))


def extra_pool():
  P = dict(pool.make_pool())
  P['shared-value-equal-to-mutable-default'] = shared_equal_to_default
  P['posonly-defaults'] = lambda: fdl.Config(g_posonly)
  P['posonly-partly'] = lambda: fdl.Config(g_posonly, 9, k=7)
  P['mutable-defaults'] = lambda: fdl.Config(pool.fc, fdl.Config(g_mutable), q=fdl.Partial(g_mutable))
  P['dataclass-factory'] = lambda: fdl.Config(pool.fc, fdl.Config(pool.DC), q=[fdl.Config(pool.DC, m=2)])
  P['partials-in-containers'] = lambda: fdl.Config(pool.fc, [fdl.Partial(pool.fb), fdl.Partial(pool.fb, 1)],
                                                   q={'p': fdl.Partial(pool.Cls)}, r=(fdl.Partial(pool.fc),))
  # named tuples of literals keep their type (only plain tuples are "tuples of literals")
  P['namedtuples-of-literals'] = lambda: fdl.Config(pool.fc, pool.Pt(3, 4), q=[pool.Pt(1), (pool.Pt(5, 6), 'a')],
                                                    r={'shape': pool.Pt(7, (8, 9))})
  # Partials that are configured, but only through *args, **kwargs or positional-only parameters
  def partials_configured_outside_named_parameters():
    va = fdl.Partial(g_variadic, 'tokenize', 'pad')
    return fdl.Config(pool.fc, [fdl.Partial(g_variadic, width=128, depth=2), fdl.Partial(g_posonly, 9)],
                      q={'v': va, 'plain': fdl.Partial(pool.fk)}, r=(fdl.Partial(g_posonly, 1, 2),))
  P['partials-configured-through-varargs-kwargs-posonly'] = partials_configured_outside_named_parameters
  P['interned-tuples'] = lambda: fdl.Config(pool.fc, (1, 2), q=[(1, 2), ((3,), 'a')], r=((), (None,)))
  P['unset-tagged-in-container'] = lambda: fdl.Config(pool.fc, 1, q=[pool.TagA.new(), pool.TagB.new(5)])
  def tagged_shared_payload():
    # tagged values that stay nodes (inside containers) whose payload is shared with other places
    sub = fdl.Config(pool.Cls, 'shared-sub')
    lst = [1, 2]
    return fdl.Config(pool.fc, [pool.TagA.new(sub), pool.TagB.new(lst)], q=sub,
                      r={'again': pool.TagA1.new(sub), 'l': lst, 't': (pool.TagB.new(lst),)})
  P['tagged-values-with-shared-payload'] = tagged_shared_payload
  return P


TRANSFORMS = {
    'materialize_defaults': ('inplace', materialize.materialize_defaults, True),
    'with_defaults_trimmed': ('pure', visualize.with_defaults_trimmed, True),
    'unintern_tuples_of_literals': ('pure', transform.unintern_tuples_of_literals, False),
    'replace_unconfigured_partials': ('pure', transform.replace_unconfigured_partials_with_callables, False),
    'clear_argument_history': ('pure', lambda c: mutate_buildable.clear_argument_history(c) if hasattr(mutate_buildable, 'clear_argument_history') else __import__('fiddle._src.experimental.serialization', fromlist=['x']).clear_argument_history(c), False),
    'materialize_tags': ('pure', tagging.materialize_tags, False),
}


def _clear_history(c):
  from fiddle._src.experimental import serialization as ser
  for mod in (mutate_buildable, ser, transform, visualize):
    if hasattr(mod, 'clear_argument_history'):
      return mod.clear_argument_history(c)
  raise LookupError('clear_argument_history not found')


TRANSFORMS['clear_argument_history'] = ('pure', _clear_history, False)


def check_case(args):
  name, tname = args
  mode, fn, keeps_eq = TRANSFORMS[tname]
  viols = []
  def bad(what):
    viols.append(dict(config=name, transform=tname, what=what, sig=name, store=tname, op=''))
  cfg = extra_pool()[name]()
  b0 = built(cfg)
  orig = copy.deepcopy(cfg)
  try:
    ser0 = serialization.dump_json(cfg)
    serializable = True
  except Exception:   # pylint: disable=broad-except
    serializable = False
  try:
    if mode == 'inplace':
      fn(cfg)
      out = cfg
    else:
      out = fn(cfg)
  except Exception as e:   # pylint: disable=broad-except
    bad(f'{tname} raised {type(e).__name__}: {str(e)[:100]}')
    return 1, 1, viols, []
  b1 = built(out)
  if tname == 'materialize_tags' and b0[0] == 'raises':
    pass      # an unfilled TaggedValue fails before and (still) after
  elif tname == 'replace_unconfigured_partials':
    # an unconfigured Partial builds functools.partial(f) and is replaced by f itself: the
    # callable behaves the same but is not a partial object; require the same outcome only
    if b1[0] != b0[0]:
      bad(f'build outcome changed from {b0} to {b1}')
    else:
      bb0, bb1 = built(orig, behav=True), built(out, behav=True)
      if bb0 != bb1:
        bad(f'the built callables behave differently after {tname} (bound arguments lost?): '
            f'{str(bb0)[:200]} -> {str(bb1)[:200]}')
  elif b1 != b0:
    bad(f'{tname} changed what is built: {str(b0)[:150]} -> {str(b1)[:150]}')
  if keeps_eq:
    try:
      if not (out == orig and orig == out):
        bad(f'{tname}: result is not == to the original')
    except Exception as e:   # pylint: disable=broad-except
      bad(f'== raised {type(e).__name__}')
  if tname == 'materialize_defaults':
    snap = canon.canon(out)
    materialize.materialize_defaults(out)
    if canon.canon(out) != snap:
      bad('materialize_defaults is not idempotent')
    for b in canon.mutable_ids(out)[1]:
      if isinstance(b, fdl.Buildable):
        for i, p in enumerate(b.__signature_info__.parameters.values()):
          if dataclasses.is_dataclass(b.__fn_or_cls__) and any(
              f.name == p.name and f.default_factory is not dataclasses.MISSING
              for f in dataclasses.fields(b.__fn_or_cls__)):
            continue      # a default_factory field has no default *value*
          if p.default is not p.empty and p.kind not in (p.VAR_POSITIONAL, p.VAR_KEYWORD):
            key = i if p.kind == p.POSITIONAL_ONLY else p.name
            if key not in b.__arguments__:
              bad(f'after materialize_defaults parameter {p.name!r} (default {p.default!r}) is not set')
  if serializable:
    try:
      serialization.dump_json(out)
    except Exception as e:   # pylint: disable=broad-except
      bad(f'{tname} made a serializable configuration unserializable ({type(e).__name__})')
  return 1, 1, viols, ([dict(config=name, transform=tname)] if name == 'posonly-partly' else [])


@dataclasses.dataclass
class Inner:
  a: int = 1
  b: typing.List[int] = dataclasses.field(default_factory=list)


@dataclasses.dataclass
class Outer:
  inner: Inner
  items: typing.List[Inner] = dataclasses.field(default_factory=list)
  name: str = 'n'


from fiddle.experimental import auto_config as _ac   # noqa: E402


@_ac.auto_config(experimental_always_inline=False)
def ac_object(x, y=2):
  return pool.Cls(pool.fb(x, y), v=[pool.fb(y)])


@_ac.auto_config(experimental_always_inline=False)
def ac_partial(x):
  import functools
  return functools.partial(pool.fb, x)


@_ac.auto_config(experimental_always_inline=False)
def ac_nested(x):
  return pool.fc(ac_object(x), q=[ac_object(x, 3)])


@_ac.auto_config(experimental_always_inline=False)
def ac_shared(x):
  inner = pool.Cls(x)
  return pool.fc(inner, q=[inner])


@_ac.auto_config(experimental_always_inline=False)
def ac_chain(f):
  import functools
  base = functools.partial(pool.fb2, f)
  train = functools.partial(base, y=1)
  evaluate = functools.partial(base, y=100)
  return pool.fc(base, q=[train, evaluate])


def inline_case(_=None):
  """auto_config.inline on a Config of an auto_config function (at the root, nested, inside
  containers, with shared arguments, returning objects / partials / nested auto_config results):
  either it refuses and leaves the configuration as it was, or what is built stays the same."""
  viols = []
  def bad(what, name):
    viols.append(dict(config=name, transform='inline', what=what, sig=name, store='inline', op='', inline=True))
  shared_arg = [1, 2]
  cases = {
      'object at the root': (lambda: fdl.Config(ac_object, 1), lambda r: r),
      'object nested': (lambda: fdl.Config(pool.fc, fdl.Config(ac_object, 1, y=5), q=7), lambda r: r.p),
      'object in containers': (lambda: fdl.Config(pool.fc, [fdl.Config(ac_object, 4)], q={'k': (fdl.Config(ac_object, 5),)}),
                               lambda r: r.p[0]),
      'partial at the root': (lambda: fdl.Config(ac_partial, 3), lambda r: r),
      'partial nested': (lambda: fdl.Config(pool.fc, fdl.Config(ac_partial, 3)), lambda r: r.p),
      'partial in a list': (lambda: fdl.Config(pool.fc, [fdl.Config(ac_partial, 4)]), lambda r: r.p[0]),
      'nested auto_config calls': (lambda: fdl.Config(pool.fc, fdl.Config(ac_nested, 2)), lambda r: r.p),
      'result with internal sharing': (lambda: fdl.Config(pool.fc, fdl.Config(ac_shared, 9)), lambda r: r.p),
      'argument shared with another node': (lambda: fdl.Config(pool.fc, fdl.Config(ac_object, shared_arg), q=shared_arg),
                                            lambda r: r.p),
      'a named partial specialised twice': (lambda: fdl.Config(ac_chain, 3), lambda r: r),
      'a named partial specialised twice, nested': (lambda: fdl.Config(pool.fc, [fdl.Config(ac_chain, 4)]), lambda r: r.p[0]),
      'inlined node referenced twice': (lambda: (lambda n: fdl.Config(pool.fc, n, q=[n]))(fdl.Config(ac_object, 6)),
                                        lambda r: r.p),
  }
  n = 0
  for name, (mk, pick) in cases.items():
    n += 1
    root = mk()
    b0 = built(mk(), behav=True)
    try:
      ser0 = serialization.dump_json(root)
      serializable = True
    except Exception:   # pylint: disable=broad-except
      serializable = False
    try:
      _ac.inline(pick(root))
      outcome = 'inlined'
    except Exception as e:   # pylint: disable=broad-except
      outcome = f'refused: {type(e).__name__}'
    b1 = built(root, behav=True)
    if b1 != b0:
      bad(f'{name}: after auto_config.inline [{outcome}] the configuration builds something else: '
          f'{str(b0)[:160]} -> {str(b1)[:160]}', name)
    if outcome == 'inlined' and type(pick(root)) is not type(pick(mk())) and b1 == b0:
      pass
  return n, n, viols, [dict(scenario='auto_config.inline', cases=n)]


def dataclass_case(_=None):
  viols = []
  for x in (Inner(), Outer(Inner(2, [1]), [Inner(3), Inner(4, [5])], 'nm'),
            [Outer(Inner()), {'k': Inner(9)}]):
    try:
      cfg = fdl_dc.convert_dataclasses_to_configs(x)
      b = fdl.build(cfg)
      if b != x:
        viols.append(dict(config='dataclasses', transform='convert_dataclasses_to_configs',
                          what=f'convert_dataclasses_to_configs({x!r}) builds {b!r}', sig='dc', store='', op='',
                          dc=True))
    except Exception as e:   # pylint: disable=broad-except
      viols.append(dict(config='dataclasses', transform='convert_dataclasses_to_configs',
                        what=f'raised {type(e).__name__}: {e}', sig='dc', store='', op='', dc=True))
  return 3, 3, viols, []


def replay(case):
  if case.get('inline'):
    r = inline_case()
    m = [v for v in r[2] if v['config'] == case.get('config')]
    return m[0]['what'] if m else None
  if case.get('dc'):
    r = dataclass_case()
  else:
    r = check_case((case['config'], case['transform']))
  return r[2][0]['what'] if r[2] else None


def run(tier='quick', seed=0, nproc=16):
  jobs = [(n, t) for n in extra_pool() for t in TRANSFORMS]
  res = common.pmap(check_case, gen.shuffled(jobs), nproc)
  res.append(common.guard(dataclass_case))
  res.append(common.guard(inline_case))
  return common.merge(
      res, 'layerb.prop_C20',
      rule='every transformation (materialize_defaults, with_defaults_trimmed, '
           'unintern_tuples_of_literals, replace_unconfigured_partials_with_callables, '
           'clear_argument_history, materialize_tags, convert_dataclasses_to_configs) x every pool '
           'configuration incl. positional-only defaults, shared mutable defaults, dataclass default '
           'factories, unset tagged values in containers, Partials in containers, interned tuples: '
           'structural form of build(t(cfg)) = build(cfg); == kept where claimed; idempotence; every '
           'defaulted parameter set; serializability kept',
      exhaustive=True, bound='%d configurations x %d transformations' % (len(extra_pool()), len(TRANSFORMS)))
