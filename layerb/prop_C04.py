"""C04, bounded part: built Partial behaves like functools.partial; ArgFactory arguments are
fresh per call; containers without ArgFactory are passed through uncopied."""
import functools
import itertools
import fiddle as fdl
from layerb import gen, common, pool

COUNTER = itertools.count()


class Fresh:
  """Object with identity, created by factories."""

  def __init__(self, *a, **k):
    self.serial = next(COUNTER)
    self.a, self.k = a, k


class _TagF(fdl.Tag):
  """tag used on factories."""


def target(a=None, b=None, *, c=None):
  return dict(a=a, b=b, c=c)


def posonly_target(a, b=2, /, c=3, *args, k=None):
  return dict(a=a, b=b, c=c, args=args, k=k)


def ids(x, acc=None):
  acc = [] if acc is None else acc
  if isinstance(x, (list, tuple)):
    acc.append(id(x)) if isinstance(x, list) else None
    for v in x:
      ids(v, acc)
  elif isinstance(x, dict):
    acc.append(id(x))
    for v in x.values():
      ids(v, acc)
  elif isinstance(x, Fresh):
    acc.append(id(x))
  return acc


class NeverEqual:
  """A value that is not equal to itself (like float('nan'))."""

  def __eq__(self, other):
    return False

  def __hash__(self):
    return 1


NAN = float('nan')
NEQ = NeverEqual()


def _has_wrapper(x):
  """True if a raw (unevaluated) arg-factory wrapper object is reachable in x."""
  if isinstance(x, (list, tuple)):
    return any(_has_wrapper(v) for v in x)
  if isinstance(x, dict):
    return any(_has_wrapper(v) for v in x.values())
  return type(x).__name__ in ('_BuiltArgFactory', 'ArgFactory')


def scenarios():
  S = {}
  # a container without ArgFactory sitting next to one inside the same argument must be passed
  # through uncopied, whatever its elements compare like
  S['sibling-container-nan'] = (lambda: fdl.Partial(target, a=[fdl.ArgFactory(Fresh), [NAN, 1]]),
                                {'a': 'fresh-first-same-second'})
  S['sibling-container-neq'] = (lambda: fdl.Partial(target, a={'f': fdl.ArgFactory(Fresh), 'plain': [NEQ]}),
                                {'a': 'fresh-f-same-plain'})
  # nested factories bound by position (positional-only parameter, *args element)
  S['posonly-nested-factory'] = (lambda: fdl.Partial(posonly_target, [fdl.ArgFactory(Fresh)], 5), {'a': 'fresh'})
  S['posonly-dict-factory'] = (lambda: fdl.Partial(posonly_target, {'k': (fdl.ArgFactory(Fresh),)}), {'a': 'fresh'})
  S['varargs-nested-factory'] = (lambda: fdl.Partial(posonly_target, 1, 2, 3, [fdl.ArgFactory(Fresh)], 9),
                                 {'args': 'fresh'})
  # (config factory, predicate describing which argument slots must be fresh per call)
  # several sibling containers each holding factories (every one of them is evaluated per call)
  S['sibling-lists-with-factories'] = (
      lambda: fdl.Partial(target, a=[[fdl.ArgFactory(Fresh)], [fdl.ArgFactory(Fresh)], [fdl.ArgFactory(Fresh)]]),
      {'a': 'fresh'})
  S['sibling-dicts-with-factories'] = (
      lambda: fdl.Partial(target, a={'x': {'f': fdl.ArgFactory(Fresh)}, 'y': {'g': (fdl.ArgFactory(Fresh),)}}),
      {'a': 'fresh'})
  S['factory-then-container-with-factory'] = (
      lambda: fdl.Partial(target, a=(fdl.ArgFactory(Fresh), [fdl.ArgFactory(Fresh)], {'k': [fdl.ArgFactory(Fresh)]})),
      {'a': 'fresh'})
  S['sibling-containers-in-varargs'] = (
      lambda: fdl.Partial(posonly_target, 1, 2, 3, [[fdl.ArgFactory(Fresh)], [fdl.ArgFactory(Fresh)]]),
      {'args': 'fresh'})
  # ArgFactories that sit only inside containers passed to another ArgFactory
  S['factory-in-container-inside-factory'] = (
      lambda: fdl.Partial(target, a=fdl.ArgFactory(target, a=[fdl.ArgFactory(Fresh), 1],
                                                   b={'s': (fdl.ArgFactory(Fresh), 0)})),
      {'a': 'fresh-deep'})
  S['factory-in-container-inside-positional-factory'] = (
      lambda: fdl.Partial(target, fdl.ArgFactory(target, [fdl.ArgFactory(Fresh)])),
      {'a': 'fresh-deep'})
  import collections as _co
  _Pair = _co.namedtuple('_Pair', ['fresh', 'fixed'])
  S['factory-in-namedtuple-argument'] = (
      lambda: fdl.Partial(target, a=_Pair(fdl.ArgFactory(Fresh), 1)), {'a': 'fresh'})
  S['factory-in-defaultdict-argument'] = (
      lambda: fdl.Partial(target, a=_co.defaultdict(list, k=[fdl.ArgFactory(Fresh)])), {'a': 'fresh'})
  S['factory-in-namedtuple-inside-factory'] = (
      lambda: fdl.Partial(target, a=fdl.ArgFactory(target, a=_Pair(fdl.ArgFactory(Fresh), 0))), {'a': 'fresh-deep'})
  S['plain-list-next-to-factory-shared-with-another-argument'] = (
      lambda: (lambda sh: fdl.Partial(target, a=[fdl.ArgFactory(Fresh), sh], b=sh, c={'k': (sh,)}))([1, 2]),
      {'a': 'fresh-first-plain-rest-identical-to-b', 'b': 'same-object'})
  S['two-equal-factories-in-one-list'] = (
      lambda: fdl.Partial(target, a=[fdl.ArgFactory(Fresh), fdl.ArgFactory(Fresh)],
                          b={'x': fdl.ArgFactory(Fresh), 'y': (fdl.ArgFactory(Fresh),)}), {'a': 'fresh-all-distinct', 'b': 'fresh'})
  S['tagged-factory-inside-containers'] = (
      lambda: fdl.Partial(target, a=[_TagF.new(fdl.ArgFactory(Fresh))], b={'k': (_TagF.new(fdl.ArgFactory(list)),)}),
      {'a': 'fresh', 'b': 'fresh'})
  S['factory-direct'] = (lambda: fdl.Partial(target, a=fdl.ArgFactory(Fresh)), {'a': 'fresh'})
  S['factory-in-list'] = (lambda: fdl.Partial(target, a=[fdl.ArgFactory(Fresh), 1]), {'a': 'fresh'})
  S['factory-in-tuple'] = (lambda: fdl.Partial(target, a=(fdl.ArgFactory(Fresh), 1)), {'a': 'fresh'})
  S['factory-in-dict'] = (lambda: fdl.Partial(target, a={'k': fdl.ArgFactory(Fresh)}), {'a': 'fresh'})
  S['factory-nested-deep'] = (lambda: fdl.Partial(target, a=[{'k': (fdl.ArgFactory(Fresh),)}]), {'a': 'fresh'})
  S['factory-of-factory'] = (lambda: fdl.Partial(target, a=fdl.ArgFactory(Fresh, fdl.ArgFactory(Fresh))), {'a': 'fresh'})
  S['config-inside-factory'] = (lambda: fdl.Partial(target, a=fdl.ArgFactory(Fresh, fdl.Config(Fresh))), {'a': 'fresh-outer-shared-inner'})
  S['config-arg'] = (lambda: fdl.Partial(target, a=fdl.Config(Fresh)), {'a': 'shared'})
  S['plain-containers'] = (lambda: fdl.Partial(target, a=[1, {'k': [2]}], b={'x': (1, [2])}), {'a': 'same-object', 'b': 'same-object'})
  S['mixed'] = (lambda: fdl.Partial(target, a=[fdl.ArgFactory(Fresh)], b=[1, 2], c=fdl.Config(Fresh)),
                {'a': 'fresh', 'b': 'same-object', 'c': 'shared'})
  S['partial-in-partial'] = (lambda: fdl.Partial(target, a=fdl.Partial(target, a=fdl.ArgFactory(Fresh))), {'a': 'shared'})
  S['positional-factory'] = (lambda: fdl.Partial(posonly_target, fdl.ArgFactory(Fresh), 5), {'a': 'fresh'})
  S['varargs-factory'] = (lambda: fdl.Partial(posonly_target, 1, 2, 3, fdl.ArgFactory(Fresh), 9), {'args': 'fresh'})
  return S


def check_scenario(name):
  viols = []
  def bad(what):
    viols.append(dict(scenario=name, what=what, sig=name, store='', op=''))
  factory, expect = scenarios()[name]
  cfg = factory()
  built = fdl.build(cfg)
  if not isinstance(built, functools.partial):
    bad(f'fdl.build(Partial) returned {type(built).__name__}, not functools.partial')
  outs = [built() for _ in range(3)]
  # values of the stored containers at build time (for pass-through identity)
  for slot, mode in expect.items():
    vals = [o[slot] for o in outs]
    idsets = [set(ids(v)) for v in vals]
    if mode == 'fresh':
      if any(_has_wrapper(v) for v in vals):
        bad(f'slot {slot}: the ArgFactory was not evaluated (raw factory wrapper passed through)')
      for i, j in itertools.combinations(range(3), 2):
        if idsets[i] & idsets[j]:
          bad(f'slot {slot}: an ArgFactory argument (or its container) was reused between calls')
          break
      if not all(idsets):
        bad(f'slot {slot}: no fresh object produced')
    elif mode == 'fresh-deep':
      # the slot holds the dict returned by `target`; everything reachable in it is fresh per call
      def deep(x, acc):
        if isinstance(x, dict):
          for v in x.values():
            deep(v, acc)
        elif isinstance(x, (list, tuple)):
          for v in x:
            deep(v, acc)
        else:
          acc.append(x)
        return acc
      leaves = [deep(v, []) for v in vals]
      if any(type(l).__name__ in ('_BuiltArgFactory', 'ArgFactory') for ls in leaves for l in ls):
        bad(f'slot {slot}: an ArgFactory nested in a container inside another ArgFactory was not '
            f'evaluated (raw factory wrapper passed through)')
      fr = [[id(l) for l in ls if isinstance(l, Fresh)] for ls in leaves]
      if not all(fr) or set(fr[0]) & set(fr[1]) or set(fr[1]) & set(fr[2]):
        bad(f'slot {slot}: nested ArgFactory results were not fresh per call')
    elif mode == 'fresh-first-plain-rest-identical-to-b':
      if any(_has_wrapper(v) for v in vals):
        bad(f'slot {slot}: the ArgFactory was not evaluated')
      if vals[0][0] is vals[1][0]:
        bad(f'slot {slot}[0]: ArgFactory result reused between calls')
      for o in outs:
        if o[slot][1] is not o['b'] or o['c']['k'][0] is not o['b']:
          bad(f'slot {slot}[1]: a list without ArgFactory that is also passed as argument b arrives as a '
              f'different object (copied) when it sits next to an ArgFactory')
          break
      if not (outs[0]['b'] is outs[1]['b'] is outs[2]['b']):
        bad('slot b: a plain list was copied between calls')
    elif mode == 'fresh-all-distinct':
      for o in outs:
        got = [id(x) for x in o[slot]]
        if len(set(got)) != len(got):
          bad(f'slot {slot}: two distinct ArgFactory nodes of the same callable received one object in a call')
          break
      if set(map(id, outs[0][slot])) & set(map(id, outs[1][slot])):
        bad(f'slot {slot}: ArgFactory results reused between calls')
    elif mode == 'shared':
      if not (vals[0] is vals[1] is vals[2]):
        bad(f'slot {slot}: a nested Config/Partial was rebuilt per call instead of once at build time')
    elif mode == 'same-object':
      if not (vals[0] is vals[1] is vals[2]):
        bad(f'slot {slot}: a container without ArgFactory was copied per call')
      if ids(vals[0]) != ids(vals[1]):
        bad(f'slot {slot}: nested containers without ArgFactory were copied per call')
    elif mode == 'fresh-first-same-second':
      if vals[0][0] is vals[1][0]:
        bad(f'slot {slot}: ArgFactory result reused between calls')
      if not (vals[0][1] is vals[1][1] is vals[2][1]):
        bad(f'slot {slot}: a container without ArgFactory (next to a factory) was copied per call')
    elif mode == 'fresh-f-same-plain':
      if vals[0]['f'] is vals[1]['f']:
        bad(f'slot {slot}: ArgFactory result reused between calls')
      if not (vals[0]['plain'] is vals[1]['plain'] is vals[2]['plain']):
        bad(f'slot {slot}: a container without ArgFactory (next to a factory) was copied per call')
    elif mode == 'fresh-outer-shared-inner':
      if vals[0] is vals[1]:
        bad(f'slot {slot}: ArgFactory result reused')
      if vals[0].a[0] is not vals[1].a[0]:
        bad(f'slot {slot}: a Config inside an ArgFactory was rebuilt per call')
  # call-time keywords override configured ones
  okey = 'k' if 'posonly' in name or name in ('positional-factory', 'varargs-factory', 'varargs-nested-factory',
                                          'sibling-containers-in-varargs') else 'c'
  o = built(**{okey: 'override'})
  if o[okey] != 'override':
    bad('call-time keyword did not override the configured argument')
  if 'a' in expect and 'args' not in expect and 'posonly' not in name and name not in ('positional-factory',):
    o2 = built(a='A!')
    if o2['a'] != 'A!':
      bad('call-time keyword did not override a configured (factory) argument')
  # a second build shares nothing with the first (fresh partial)
  b2 = fdl.build(cfg)
  if b2 is built:
    bad('two builds returned the same partial object')
  return 1, 1, viols, [dict(scenario=name)] if name == 'mixed' else []


def check_sig(args):
  """Built Partial vs a hand-written functools.partial over the same arguments."""
  kinds, hasdef = args
  from layerb.refmodel import RefConfig
  sig = gen.SigSpec(kinds, hasdef)
  viols = []
  evals = 0
  fn = gen.make_fn(sig)
  for store in gen.all_stores(sig, max_var=1, max_extra=1):
    model = RefConfig(sig, store)
    cfg = gen.make_config(sig, store, cls=fdl.Partial)
    try:
      built = fdl.build(cfg)
    except TypeError:
      continue       # a positional gap without default cannot be expressed (C01)
    # reference: functools.partial with PO / *args positionally, everything else by keyword
    ref_args, ref_kw = [], {}
    ok = True
    if model.var:
      for i in range(sig.npos):
        nm = sig.names[i]
        if nm in model.named:
          ref_args.append(model.named[nm])
        elif sig.hasdef[i]:
          ref_args.append(sig.defaults[i])
        else:
          ok = False
      ref_args += model.var
    else:
      last = max([i for i in range(sig.npos) if sig.kinds[i] == gen.PO and sig.names[i] in model.named], default=-1)
      for i in range(last + 1):
        nm = sig.names[i]
        ref_args.append(model.named[nm] if nm in model.named else sig.defaults[i] if sig.hasdef[i] else None)
        if nm not in model.named and not sig.hasdef[i]:
          ok = False
      for i in range(last + 1, sig.n):
        nm = sig.names[i]
        if nm in model.named:
          ref_kw[nm] = model.named[nm]
    for i, nm in enumerate(sig.names):
      if sig.kinds[i] == gen.KO and nm in model.named:
        ref_kw[nm] = model.named[nm]
    ref_kw.update(model.extra)
    if not ok:
      continue
    ref = functools.partial(fn, *ref_args, **ref_kw)
    overrides = [{}]
    for i, nm in enumerate(sig.names):
      if sig.kinds[i] in (gen.PK, gen.KO) and not (sig.kinds[i] == gen.PK and model.var):
        overrides.append({nm: 'OVR'})
    for ov in overrides:
      evals += 1
      def run(p):
        try:
          r = p(**ov)
          return ('ok', [(k, tuple(v) if isinstance(v, (list, tuple)) else tuple(sorted(v.items())) if isinstance(v, dict) else v) for k, v in r.bound])
        except Exception as e:   # pylint: disable=broad-except
          return ('raises', type(e).__name__)
      a, b = run(built), run(ref)
      if a != b:
        viols.append(dict(kinds=kinds, hasdef=hasdef, store=[[k, v] for k, v in store.items()],
                          what=f'built partial called with {ov} gives {a}, functools.partial reference {b}',
                          sig=sig.label, op=str(ov), sigcase=True))
  return evals, evals, viols, []


def replay(case):
  if case.get('sigcase'):
    r = check_sig((tuple(case['kinds']), tuple(case['hasdef'])))
  else:
    r = check_scenario(case['scenario'])
  return r[2][0]['what'] if r[2] else None


def run(tier='quick', seed=0, nproc=16):
  res = common.pmap(check_scenario, list(scenarios()), nproc)
  n = 3 if tier == 'quick' else 5
  res += common.pmap(check_sig, [(s.kinds, s.hasdef) for s in gen.all_sigs(n)], nproc)
  return common.merge(
      res, 'layerb.prop_C04',
      rule='Partial/ArgFactory/Config nestings (ArgFactory direct, in list/tuple/dict, nested deep, '
           'ArgFactory of ArgFactory, Config inside ArgFactory, Partial inside Partial, positional and '
           'variadic factories) x 3 calls of the built callable: identity sets per call (fresh / shared '
           '/ passed through uncopied), keyword overrides; every (signature <= %d, store) as Partial vs '
           'a hand-written functools.partial reference under every single keyword override' % n,
      exhaustive=True, bound=f'{len(scenarios())} nestings; signatures <= {n} params')
