"""C16, bounded part: argument history is a faithful, ordered log of edits."""
import copy
import os
import fiddle as fdl
from fiddle._src import history, tagging, mutate_buildable
from fiddle._src import materialize
from layerb import gen, ops as O, common, pool
from layerb.c03 import second_ops, _simple

ABSENT = object()
THIS_FILE = os.path.basename(__file__)


def entries(cfg):
  return {k: list(v) for k, v in cfg.__argument_history__.items()}


def all_seq(cfg):
  return [e.sequence_id for v in cfg.__argument_history__.values() for e in v]


def check_hist_state(cfg, what_for):
  """History invariant: last NEW_VALUE entry = current value / DELETED; last UPDATE_TAGS entry =
  current tag set; sequence ids strictly increasing per key and unique."""
  probs = []
  for k, es in cfg.__argument_history__.items():
    if k == '__fn_or_cls__':
      continue
    ids = [e.sequence_id for e in es]
    if any(a >= b for a, b in zip(ids, ids[1:])):
      probs.append(f'{what_for}: sequence ids of {k!r} are not strictly increasing: {ids}')
    nv = [e for e in es if e.kind == history.ChangeKind.NEW_VALUE]
    if k in cfg.__arguments__:
      if not nv or nv[-1].new_value is not cfg.__arguments__[k]:
        probs.append(f'{what_for}: history of {k!r} does not end with its current value '
                     f'{cfg.__arguments__[k]!r} (last: {nv[-1].new_value if nv else None!r})')
    elif nv and nv[-1].new_value is not history.DELETED:
      probs.append(f'{what_for}: {k!r} is unset but its history ends with {nv[-1].new_value!r}')
    ut = [e for e in es if e.kind == history.ChangeKind.UPDATE_TAGS]
    cur = frozenset(cfg.__argument_tags__.get(k, ()))
    if ut and frozenset(ut[-1].new_value) != cur:
      probs.append(f'{what_for}: history of {k!r} ends with tag set {set(ut[-1].new_value)} but the '
                   f'current tag set is {set(cur)}')
    if not ut and cur:
      probs.append(f'{what_for}: {k!r} has tags {set(cur)} but no UPDATE_TAGS entry')
  # history and tags are filed under canonical argument keys only (index for positional-only and
  # *args values, name otherwise): an entry under any other key belongs to no parameter
  params = list(cfg.__signature_info__.parameters.values())
  vps = cfg.__signature_info__.var_positional_start
  for where, keys in (('history', cfg.__argument_history__), ('tags', cfg.__argument_tags__)):
    for k in keys:
      if k == '__fn_or_cls__':
        continue
      if isinstance(k, int):
        ok = (k < len(params) and params[k].kind == params[k].POSITIONAL_ONLY) or \
            (vps is not None and k >= vps)
      else:
        byname = cfg.__signature_info__.parameters.get(k)
        ok = byname is None or byname.kind not in (byname.POSITIONAL_ONLY, byname.VAR_POSITIONAL)
      if not ok:
        probs.append(f'{what_for}: {where} has an entry under {k!r}, which is not the canonical key '
                     f'of any argument (vkind=stray-key)')
  for k in cfg.__arguments__:
    if k not in cfg.__argument_history__ or not cfg.__argument_history__[k]:
      probs.append(f'{what_for}: {k!r} is set but has no history entry')
  allids = all_seq(cfg)
  if len(set(allids)) != len(allids):
    probs.append(f'{what_for}: duplicate sequence ids')
  return probs


def check_sig(args):
  kinds, hasdef = args
  sig = gen.SigSpec(kinds, hasdef)
  evals, viols, nontriv = 0, [], 0
  def bad(store, ops_, what):
    viols.append(dict(kinds=kinds, hasdef=hasdef, store=[[k, v] for k, v in store.items()],
                      ops=[o.to_json() for o in ops_], what=what, sig=sig.label,
                      op='; '.join(map(repr, ops_))))
  for store in gen.all_stores(sig, max_var=2, max_extra=1):
    L = sig.npos + sum(1 for k in store if isinstance(k, int) and sig.vps is not None and k >= sig.vps)
    for op in O.all_ops(sig, L, 'quick'):
      if op.kind in ('getattr', 'getitem'):
        continue
      if isinstance(op.key, slice) and op.key.step not in (None, -1, 2):
        continue
      cfg = gen.make_config(sig, store)
      for p in check_hist_state(cfg, 'initial'):
        bad(store, [], p)
      before_args = dict(cfg.__arguments__)
      before_hist = entries(cfg)
      max_before = max(all_seq(cfg), default=-1)
      evals += 1
      try:
        op.apply_real(cfg)
      except Exception:   # pylint: disable=broad-except
        pass
      after_hist = entries(cfg)
      for p in check_hist_state(cfg, 'after'):
        bad(store, [op], p)
      keys = set(before_args) | set(cfg.__arguments__) | set(after_hist)
      for k in keys:
        if k == '__fn_or_cls__':
          continue
        new = after_hist.get(k, [])[len(before_hist.get(k, [])):]
        if after_hist.get(k, [])[:len(before_hist.get(k, []))] != before_hist.get(k, []):
          bad(store, [op], f'existing history entries of {k!r} were rewritten')
        nv = [e for e in new if e.kind == history.ChangeKind.NEW_VALUE]
        changed = before_args.get(k, ABSENT) is not cfg.__arguments__.get(k, ABSENT)
        if changed and len(nv) != 1:
          bad(store, [op], f'stored value of {k!r} changed but {len(nv)} entries were appended')
        if not changed and len(nv) > 1:
          bad(store, [op], f'stored value of {k!r} did not change but {len(nv)} entries were appended')
        for e in new:
          if e.sequence_id <= max_before:
            bad(store, [op], f'new entry of {k!r} has sequence id {e.sequence_id} <= {max_before}')
          if e.param_name != k:
            bad(store, [op], f'entry filed under {k!r} names parameter {e.param_name!r}')
          if not e.location.filename.endswith(('ops.py',)):
            bad(store, [op], f'direct edit attributed to {e.location.filename}:{e.location.line_number}, '
                             'not to the caller')
        nontriv += bool(new)
      # suspended tracking: no entries at all
      cfg2 = gen.make_config(sig, store)
      h0 = entries(cfg2)
      with history.suspend_tracking():
        try:
          op.apply_real(cfg2)
        except Exception:   # pylint: disable=broad-except
          pass
      if entries(cfg2) != h0:
        bad(store, [op], 'an edit made while tracking was suspended added history entries')
      if not history.tracking_enabled():
        bad(store, [op], 'tracking stayed disabled after the suspend block')
  return evals, nontriv, viols, []


def api_cases(_=None):
  """Tag edits, update_callable, materialize_defaults, copy_with, assign, nested suspension."""
  viols = []
  n = 0
  def bad(what, name, kind='other'):
    # `api` (the fiddle function; scenario names are `<function>@<variant>`) keys the finding
    viols.append(dict(what=what, sig='api', store=name, op='', api=name.split('@')[0], scenario=name,
                      vkind=kind, kinds=[], hasdef=[]))
  def fresh():
    return fdl.Config(pool.fa, 1, 2, 3, 4, k=5)
  here = THIS_FILE
  def new_entries(cfg, before):
    out = []
    for k, es in cfg.__argument_history__.items():
      out += es[len(before.get(k, [])):]
    return out
  edits = {
      'add_tag': lambda c: fdl.add_tag(c, 'k', pool.TagA),
      'set_tags': lambda c: fdl.set_tags(c, 'c', {pool.TagA, pool.TagB}),
      'remove_tag': lambda c: (fdl.add_tag(c, 'k', pool.TagA), fdl.remove_tag(c, 'k', pool.TagA)),
      'clear_tags': lambda c: (fdl.add_tag(c, 'k', pool.TagA), fdl.clear_tags(c, 'k')),
      # the same tag edits addressed by position (index 2 is the positional-or-keyword `c`,
      # index 0 the positional-only `a`, index 4 the second *args value)
      'add_tag@index': lambda c: (fdl.add_tag(c, 2, pool.TagA), fdl.add_tag(c, 0, pool.TagB),
                                  fdl.add_tag(c, 4, pool.TagA)),
      'set_tags@index': lambda c: fdl.set_tags(c, 2, {pool.TagA, pool.TagB}),
      'set_tags@index-po': lambda c: fdl.set_tags(c, 0, {pool.TagA}),
      'remove_tag@index': lambda c: (fdl.add_tag(c, 2, pool.TagA), fdl.remove_tag(c, 2, pool.TagA)),
      'clear_tags@index': lambda c: (fdl.add_tag(c, 'c', pool.TagA), fdl.clear_tags(c, 2)),
      # update_callable dropping arguments the new callable does not accept: each dropped argument
      # is an edit of that argument (its history ends with the deletion marker)
      'tagged-value assign': lambda c: (fdl.add_tag(c, 'k', pool.TagA), setattr(c, 'k', pool.TagB.new(9))),
      'assign': lambda c: fdl.assign(c, c='C', k='K'),
      'materialize_defaults': lambda c: (c.__delitem__(1), delattr(c, 'k'), materialize.materialize_defaults(c)),
      'setattr': lambda c: setattr(c, 'c', 7),
      'setitem': lambda c: c.__setitem__(0, 'z'),
      'slice': lambda c: c.__setitem__(slice(fdl.VARARGS, None), ['p', 'q', 'r']),
      'delitem': lambda c: c.__delitem__(3),
  }
  for name, fn in edits.items():
    n += 1
    c = fresh()
    b = entries(c)
    mx = max(all_seq(c))
    try:
      fn(c)
    except Exception as e:   # pylint: disable=broad-except
      bad(f'{name} raised {type(e).__name__}: {e}', name)
      continue
    for p in check_hist_state(c, name):
      bad(p, name)
    ne = new_entries(c, b)
    if not ne:
      bad(f'{name} added no history entry', name)
    ids = [e.sequence_id for e in ne]
    if any(i <= mx for i in ids) or len(set(ids)) != len(ids):
      bad(f'{name}: sequence ids {ids} are not fresh/unique', name)
    for e in ne:
      if not e.location.filename.endswith(here):
        bad(f'{name}: edit attributed to {os.path.basename(e.location.filename)}:'
            f'{e.location.line_number} instead of the caller ({here})', name,
            'location:' + os.path.basename(e.location.filename))
        break
    # suspended
    c2 = fresh()
    b2 = entries(c2)
    with history.suspend_tracking():
      with history.suspend_tracking():
        pass
      try:
        fn(c2)
      except Exception:   # pylint: disable=broad-except
        pass
    if entries(c2) != b2:
      bad(f'{name}: entries were added while tracking was suspended (after a nested block)', name)
    if not history.tracking_enabled():
      bad(f'{name}: tracking not restored', name)
  # update_callable (documented as unsupported with positional arguments: keyword-only config)
  n += 1
  c = fdl.Config(pool.fb, x=1)
  mx = max(all_seq(c))
  fdl.update_callable(c, pool.fb2)
  es = c.__argument_history__['__fn_or_cls__']
  if es[-1].new_value is not pool.fb2 or es[-1].sequence_id <= mx:
    bad('update_callable did not append the new callable to the history', 'update_callable')
  # update_callable dropping the arguments the new callable does not accept: an edit of each
  n += 1
  c = fdl.Config(pool.fk, x=1, lr=0.1, mode='m')
  fdl.add_tag(c, 'lr', pool.TagA)
  mx = max(all_seq(c))
  fdl.update_callable(c, pool.fb, drop_invalid_args=True)
  if set(c.__arguments__) != {'x'}:
    bad(f'update_callable(drop_invalid_args=True) left the arguments {sorted(c.__arguments__)}', 'update_callable@drop')
  for p_ in check_hist_state(c, 'update_callable@drop'):
    bad(p_, 'update_callable@drop')
  for k in ('lr', 'mode'):
    es = c.__argument_history__.get(k, [])
    if not es or es[-1].new_value is not history.DELETED or es[-1].sequence_id <= mx:
      bad(f'update_callable dropped {k!r} without a deletion entry in its history', 'update_callable@drop')
  # copy_with: the copy's history ends with the new value, original untouched
  n += 1
  c = fresh()
  b = entries(c)
  cp = fdl.copy_with(c, c='NEW')
  if entries(c) != b:
    bad('copy_with changed the history of the original', 'copy_with')
  for p in check_hist_state(cp, 'copy_with'):
    bad(p, 'copy_with')
  # edits made through copy_with / deepcopy_with / constructor arguments are the caller's edits
  for name, mk in (('copy_with', lambda c0: fdl.copy_with(c0, c='NEW', k='K2')),
                   ('deepcopy_with', lambda c0: fdl.deepcopy_with(c0, c='NEW', k='K2')),
                   ('constructor', lambda c0: fdl.Config(pool.fa, 1, 2, c='NEW', k='K2')),
                   ('Partial constructor', lambda c0: fdl.Partial(pool.fa, 1, 2, c='NEW', k='K2'))):
    n += 1
    c0 = fresh()
    try:
      cp = mk(c0)
    except Exception as e:   # pylint: disable=broad-except
      bad(f'{name} raised {type(e).__name__}: {e}', name)
      continue
    for key in ('c', 'k'):
      es = cp.__argument_history__.get(key, [])
      if not es or es[-1].new_value != ('NEW' if key == 'c' else 'K2'):
        bad(f'{name}: the history of {key!r} does not end with the value passed in', name)
      elif not es[-1].location.filename.endswith(here):
        bad(f'{name}: edit attributed to {os.path.basename(es[-1].location.filename)}:'
            f'{es[-1].location.line_number} instead of the caller ({here})', name,
            'location:' + os.path.basename(es[-1].location.filename))
  # exception inside a suspend block restores the flag
  n += 1
  try:
    with history.suspend_tracking():
      raise KeyError('x')
  except KeyError:
    pass
  if not history.tracking_enabled():
    bad('tracking stayed disabled after an exception inside suspend_tracking', 'suspend-exception')
    history.set_tracking(True)
  # a block entered while tracking is off leaves it off
  n += 1
  history.set_tracking(False)
  with history.suspend_tracking():
    pass
  if history.tracking_enabled():
    bad('suspend_tracking re-enabled tracking that was disabled before the block', 'suspend-restore')
  history.set_tracking(True)
  # uniqueness across configurations
  n += 1
  a, b2 = fresh(), fresh()
  ia, ib = set(all_seq(a)), set(all_seq(b2))
  if ia & ib:
    bad('two configurations share sequence ids', 'unique')
  return n, n, viols, [dict(apis=list(edits))]


def thread_cases(_=None):
  """Threads editing distinct configurations: a suspension in one thread is that thread's own;
  sequence numbers stay unique and increasing across threads."""
  import threading
  viols = []
  def bad(what, name):
    viols.append(dict(what=what, sig='api', store=name, op='', api=name, scenario=name, vkind='threads',
                      kinds=[], hasdef=[]))
  def fresh():
    return fdl.Config(pool.fa, 1, 2, 3, 4, k=5)
  # (1) another thread sits inside suspend_tracking() while this thread edits its own config
  inside, release = threading.Event(), threading.Event()
  other_cfg = fresh()
  def suspender():
    with history.suspend_tracking():
      inside.set()
      release.wait(10)
      other_cfg.k = 'untracked'
  t = threading.Thread(target=suspender)
  t.start()
  inside.wait(10)
  mine = fresh()
  b = entries(mine)
  try:
    for v in (1, 2, 3):
      mine.c = v
    fdl.add_tag(mine, 'k', pool.TagA)
    del mine.k
  finally:
    release.set()
    t.join()
  new = [e.new_value for e in mine.__argument_history__.get('c', [])[len(b.get('c', [])):]]
  if new != [1, 2, 3]:
    bad(f'edits made on a thread with tracking enabled, while another thread was inside '
        f'suspend_tracking(), were logged as {new} instead of [1, 2, 3]', 'suspend-other-thread')
  for p_ in check_hist_state(mine, 'threads'):
    bad(p_, 'suspend-other-thread')
  if [e.new_value for e in other_cfg.__argument_history__.get('k', [])][-1:] == ['untracked']:
    bad('an edit inside suspend_tracking() was logged', 'suspend-other-thread')
  if not history.tracking_enabled():
    bad('tracking is disabled in the main thread after another thread suspended it', 'suspend-other-thread')
    history.set_tracking(True)
  # (2) concurrent editors of distinct configurations
  cfgs = [fresh() for _ in range(6)]
  start = threading.Barrier(len(cfgs))
  def editor(c, i):
    start.wait(10)
    for j in range(40):
      c.c = (i, j)
      if j % 7 == 0:
        with history.suspend_tracking():
          c.k = ('hidden', i, j)
  ts = [threading.Thread(target=editor, args=(c, i)) for i, c in enumerate(cfgs)]
  for t_ in ts:
    t_.start()
  for t_ in ts:
    t_.join()
  allids = [i for c in cfgs for i in all_seq(c)]
  if len(set(allids)) != len(allids):
    bad('sequence numbers are not unique across threads', 'concurrent-editors')
  for i, c in enumerate(cfgs):
    got = [e.new_value for e in c.__argument_history__.get('c', []) if isinstance(e.new_value, tuple)]
    if got != [(i, j) for j in range(40)]:
      bad(f'thread {i}: history of its own configuration is {got[:5]}..., not its 40 edits in order',
          'concurrent-editors')
    ids = [e.sequence_id for e in c.__argument_history__.get('c', [])]
    if any(a >= b_ for a, b_ in zip(ids, ids[1:])):
      bad(f'thread {i}: sequence ids not increasing in program order', 'concurrent-editors')
    if any(isinstance(e.new_value, tuple) and e.new_value[:1] == ('hidden',)
           for e in c.__argument_history__.get('k', [])):
      bad(f'thread {i}: an edit made under suspend_tracking() was logged', 'concurrent-editors')
  # (3) the same with the interpreter switching threads as often as it can, and every kind of edit
  import sys
  old_interval = sys.getswitchinterval()
  sys.setswitchinterval(1e-6)
  try:
    for round_ in range(3):
      cfgs = [fresh() for _ in range(8)]
      start = threading.Barrier(len(cfgs))
      def editor2(c, i):
        start.wait(10)
        for j in range(150):
          c.c = (i, j)
          if j % 5 == 0:
            fdl.add_tag(c, 'k', pool.TagA)
            fdl.remove_tag(c, 'k', pool.TagA)
          if j % 11 == 0:
            del c.c
            fdl.assign(c, c=(i, j), k=j)
      ts = [threading.Thread(target=editor2, args=(c, i)) for i, c in enumerate(cfgs)]
      for t_ in ts:
        t_.start()
      for t_ in ts:
        t_.join()
      owner = {}
      for i, c in enumerate(cfgs):
        for sid in all_seq(c):
          if sid in owner:
            bad(f'round {round_}: with 8 threads editing 8 distinct configurations, sequence number {sid} was '
                f'handed out twice (configurations {owner[sid]} and {i})', 'concurrent-editors-fast-switching')
            break
          owner[sid] = i
        ids = [e.sequence_id for e in c.__argument_history__.get('c', [])]
        if any(a >= b_ for a, b_ in zip(ids, ids[1:])):
          bad(f'round {round_}, thread {i}: sequence ids not increasing in program order',
              'concurrent-editors-fast-switching')
      if viols:
        break
  finally:
    sys.setswitchinterval(old_interval)
  return 3, 3, viols, [dict(scenario='threads: suspension is per thread; concurrent editors')]


def replay(case):
  if case.get('vkind') == 'threads':
    r = thread_cases()
    m = [v for v in r[2] if v['scenario'] == case.get('scenario')]
    return m[0]['what'] if m else None
  if case.get('api'):
    r = api_cases()
    m = [v for v in r[2] if v['api'] == case['api'] and
         v.get('scenario') == case.get('scenario', v.get('scenario')) and
         v.get('vkind') == case.get('vkind', v.get('vkind'))]
    return m[0]['what'] if m else None
  r = check_sig((tuple(case['kinds']), tuple(case['hasdef'])))
  m = [v for v in r[2] if v['store'] == case['store'] and v['ops'] == case['ops']]
  return m[0]['what'] if m else None


def run(tier='quick', seed=0, nproc=16):
  n = 3 if tier == 'quick' else 4
  res = common.pmap(check_sig, gen.shuffled([(s.kinds, s.hasdef) for s in gen.all_sigs(n)]), nproc)
  res.append(common.guard(api_cases))
  res.append(common.guard(thread_cases))
  return common.merge(
      res, 'layerb.prop_C16', keyfn=lambda v: f"api:{v['api']}:{v.get('vkind')}" if v.get('api') else None,
      rule='every mutating edit of C03 (by name, index, negative index, VARARGS, slices incl. *args '
           'shifts) on every (signature <= %d, store): history invariant (ends with current value / '
           'DELETED / current tags), exactly one entry per changed stored value, fresh increasing '
           'sequence ids, caller location, no entries under suspend_tracking (nested, exceptions); '
           'tag edits (by name and by index), update_callable, assign, materialize_defaults, copy_with; '
           'threads: suspension in one thread while another edits, 6 concurrent editors' % n,
      exhaustive=True, bound=f'signatures <= {n} params, single edits + listed API scenarios')
