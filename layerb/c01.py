"""C01 bounded stand-in / replay harness: fdl.build(cfg) binds exactly the configured
arguments (oracle: layerb.refmodel.expected_binding, cross-checked with a direct call)."""
import fiddle as fdl
from layerb import gen
from layerb.refmodel import RefConfig, expected_binding, direct_call


def norm(bound):
  return tuple((k, (tuple(v) if isinstance(v, (list, tuple)) else
                    (tuple(sorted(v.items())) if isinstance(v, dict) else v))) for k, v in bound)


def check_case(sig, store, cls=None):
  """Returns None or a description of the violation."""
  cfg = gen.make_config(sig, store, cls=cls)
  model = RefConfig(sig, store)
  # the configuration must report what was configured
  if cfg[:] != model.view():
    return f'cfg[:] = {cfg[:]} but configured {model.view()}'
  exp = expected_binding(model)
  # cross-check the oracle with a real direct call when python can express it
  fn = gen.make_fn(sig)
  try:
    direct = direct_call(model, fn)
  except TypeError:
    direct = None
  if (direct is None) != (exp is None) or (direct is not None and norm(direct.bound) != norm(exp)):
    return f'ORACLE DISAGREEMENT direct={direct} expected={exp}'
  try:
    got = fdl.build(cfg)
  except Exception as e:   # pylint: disable=broad-except
    if exp is None:
      return None
    return f'build raised {type(e).__name__}: {str(e)[:100]}; expected call {dict(exp)}'
  if cls is fdl.Partial:
    # a Partial may leave required parameters open; the call of the built partial decides
    try:
      got = got()
    except Exception as e:   # pylint: disable=broad-except
      if exp is None:
        return None
      return f'built partial raised {type(e).__name__}: {e}'
  if exp is None:
    return f'a required parameter is missing but the call went through: {got}'
  if not isinstance(got, gen.Call) or norm(got.bound) != norm(exp):
    return f'built {got}; the configured arguments are {dict(exp)}'
  return None


def check_sig(args):
  kinds, hasdef, max_var = args
  sig = gen.SigSpec(kinds, hasdef)
  evals, viols, nontrivial, samples = 0, [], 0, []
  for store in gen.all_stores(sig, max_var=max_var, max_extra=1):
    for cls in (fdl.Config, fdl.Partial):
      evals += 1
      v = check_case(sig, store, cls)
      if store:
        nontrivial += 1
      if v is not None:
        viols.append(dict(kinds=kinds, hasdef=hasdef, store=[[k, x] for k, x in store.items()],
                          cls=cls.__name__, what=v, sig=sig.label))
      elif len(samples) < 1 and len(store) >= 2:
        samples.append(dict(sig=sig.label, store=[[k, x] for k, x in store.items()], cls=cls.__name__))
  return evals, nontrivial, viols, samples


class _Scaler:
  """A class whose method is configured both as a bound method and as the plain function."""

  def __init__(self, factor):
    self.factor = factor

  def apply(self, x, bias=0):
    return ('apply', self.factor, x, bias)

  @classmethod
  def make(cls, factor, tag='t'):
    return ('make', cls.__name__, factor, tag)

  @staticmethod
  def plain(a, b=2):
    return ('plain', a, b)

  def __call__(self, y, z=1):
    return ('call', self.factor, y, z)

  def __eq__(self, other):
    return isinstance(other, _Scaler) and other.factor == self.factor

  __hash__ = object.__hash__


def callable_kinds_case(_=None):
  """The same underlying function configured through different callables in one process (bound
  method of two instances, the plain function taking `self`, classmethod, staticmethod, callable
  instance, functools.partial), in both orders: build == direct call for each of them."""
  import functools
  import itertools
  viols = []
  n = 0
  def variants():
    s1, s2 = _Scaler(3), _Scaler(5)
    return [
        ('bound method', s1.apply, (10,), {'bias': 1}),
        ('plain function of the method', _Scaler.apply, (s2, 10), {}),
        ('bound method of another instance', s2.apply, (7,), {}),
        ('classmethod', _Scaler.make, (4,), {'tag': 'u'}),
        ('staticmethod', _Scaler.plain, (1,), {}),
        ('callable instance', s1, (2,), {'z': 9}),
        ('unbound __call__', _Scaler.__call__, (s2, 2), {}),
        ('functools.partial of the method', functools.partial(_Scaler.apply, s1), (6,), {}),
    ]
  for order in itertools.permutations(range(len(variants())), 2):
    vs = variants()
    for i in order:
      name, fn, args, kwargs = vs[i]
      n += 1
      try:
        want = fn(*args, **kwargs)
      except Exception as e:   # pylint: disable=broad-except
        want = ('raises', type(e).__name__)
      try:
        cfg = fdl.Config(fn, *args, **kwargs)
        got = fdl.build(cfg)
      except Exception as e:   # pylint: disable=broad-except
        got = ('raises', type(e).__name__)
      if got != want:
        viols.append(dict(kinds=[], hasdef=[], store=name, cls='Config', sig='callable-kinds', scenario=name,
                          what=f'{name} (configured after {vs[order[0]][0] if i != order[0] else "nothing"}): '
                               f'build gives {got!r}, the direct call {want!r}'))
  return n, n, viols, [dict(scenario='callable kinds sharing one function', cases=n)]


def nested_containers_case(_=None):
  """Nested Buildables inside lists, tuples, dicts, named tuples (required fields, fields with
  defaults, one field), defaultdicts: build == direct call after replacing each nested Buildable."""
  import collections
  import typing
  from layerb import pool
  Point = collections.namedtuple('Point', ['x', 'y'])
  class Spec(typing.NamedTuple):
    head: typing.Any
    tail: str = 'default-tail'
  One = collections.namedtuple('One', ['only'])
  viols = []
  def inner(v):
    return fdl.Config(pool.fb, v)
  def direct(x):
    """The value with every nested Buildable replaced by a direct call."""
    if isinstance(x, fdl.Buildable):
      return pool.fb(*[direct(v) for k, v in x.__arguments__.items() if isinstance(k, int)],
                     **{k: direct(v) for k, v in x.__arguments__.items() if isinstance(k, str)})
    if isinstance(x, tuple) and hasattr(type(x), '_fields'):
      return type(x)(*[direct(v) for v in x])
    if isinstance(x, (list, tuple)):
      return type(x)(direct(v) for v in x)
    if isinstance(x, collections.defaultdict):
      return collections.defaultdict(x.default_factory, {k: direct(v) for k, v in x.items()})
    if isinstance(x, dict):
      return {k: direct(v) for k, v in x.items()}
    return x
  values = {
      'namedtuple, two required fields': lambda: Point(inner(1), [inner(2)]),
      'NamedTuple with a default': lambda: Spec(inner(3)),
      'NamedTuple all fields': lambda: Spec((inner(4),), 't'),
      'one-field namedtuple': lambda: One({'k': inner(5)}),
      'namedtuple inside containers': lambda: [Point(1, 2), {'p': Point(inner(6), One(inner(7)))}],
      'subclass of a namedtuple class': lambda: pool.Span(inner(12), [inner(13)]),
      'subclass of a NamedTuple class, in containers': lambda: {'s': [pool.LabelledPt(inner(14)), pool.Span(1, inner(15))]},
      'defaultdict': lambda: collections.defaultdict(list, a=[inner(8)]),
      'tuple / list / dict': lambda: ([inner(9), (inner(10),)], {'d': (1, [2, inner(11)])}),
  }
  n = 0
  for name, mk in values.items():
    n += 1
    v = mk()
    cfg = fdl.Config(pool.fc, v, q=[v] if not isinstance(v, dict) else None)
    want = pool.fc(direct(v), q=direct([v]) if not isinstance(v, dict) else None)
    try:
      got = fdl.build(cfg)
    except Exception as e:   # pylint: disable=broad-except
      got = ('raises', type(e).__name__, str(e)[:80])
    def typed(x):
      if isinstance(x, tuple) and hasattr(type(x), '_fields'):
        return (type(x).__name__, tuple(typed(y) for y in x))
      if isinstance(x, (list, tuple)):
        return (type(x).__name__, tuple(typed(y) for y in x))
      if isinstance(x, dict):
        return (type(x).__name__, tuple((k, typed(y)) for k, y in x.items()))
      return x
    if typed(got) != typed(want):
      viols.append(dict(kinds=[], hasdef=[], store=name, cls='Config', sig='nested-containers', scenario=name,
                        what=f'{name}: build gives {str(typed(got))[:160]}, the direct call {str(typed(want))[:160]}'))
  return n, n, viols, [dict(scenario='nested Buildables inside containers and named tuples', cases=n)]


def equal_leaves_case(_=None):
  """Leaves that compare equal but are different values (0.0 / -0.0, 0 / False / 0.0, tuples of
  such, IntEnum members, 1 / True): each argument receives exactly the configured object's value and
  type, wherever it sits (positional, keyword, *args, **kwargs, inside containers)."""
  import enum
  import math
  from layerb import pool
  class Level(enum.IntEnum):
    LOW = 0
    HIGH = 1
  groups = [
      [0.0, -0.0], [0, False, 0.0], [1, True, 1.0, Level.HIGH], [(0, 1), (False, True), (0.0, 1.0)],
      [(0, (1,)), (False, (True,))], [(Level.LOW, Level.HIGH), (0, 1)], ['', b''], [(), ((),)],
  ]
  def sig(x):
    if isinstance(x, float):
      return ('float', math.copysign(1.0, x), x)
    if isinstance(x, tuple):
      return (type(x).__name__, tuple(sig(y) for y in x))
    if isinstance(x, (list,)):
      return ('list', tuple(sig(y) for y in x))
    if isinstance(x, dict):
      return ('dict', tuple((k, sig(y)) for k, y in x.items()))
    return (type(x).__name__, repr(x))
  viols = []
  n = 0
  for g in groups:
    for order in (g, list(reversed(g))):
      n += 1
      cfg = fdl.Config(pool.fa, order[0], order[-1], c=list(order), k={'v': order}, extra=tuple(order))
      cfg[fdl.VARARGS:] = list(order)
      want = pool.fa(order[0], order[-1], list(order), *order, k={'v': order}, extra=tuple(order))
      try:
        got = fdl.build(cfg)
      except Exception as e:   # pylint: disable=broad-except
        got = ('raises', type(e).__name__)
      if sig(got) != sig(want):
        viols.append(dict(kinds=[], hasdef=[], store=repr(order), cls='Config', sig='equal-leaves', scenario=repr(order),
                          what=f'configured leaves {order!r}: build passes {str(sig(got))[:200]}, the direct call '
                               f'gets {str(sig(want))[:200]}'))
  return n, n, viols, [dict(scenario='equal-but-distinct leaf values', cases=n)]


def kwargs_order_case(_=None):
  """Arguments absorbed by **kwargs reach the callable in the order in which the configuration
  holds them (constructor order, later additions at the end), as `f(**mapping)` would pass them."""
  from layerb import pool
  viols = []
  def mk1():
    return fdl.Config(pool.fkord, 'files', tokenize=1, pack=2, batch=3)
  def mk2():
    c = fdl.Config(pool.fkord, zeta=1)
    c.alpha = 2
    c.mid = 3
    del c.zeta
    c.zeta = 4
    return c
  def mk3():
    return fdl.Partial(pool.fkord, 0, w=1, b=2, a=3)
  n = 0
  for name, mk in (('constructor order', mk1), ('edits after construction', mk2), ('Partial', mk3)):
    n += 1
    cfg = mk()
    stored = {k: v for k, v in cfg.__arguments__.items() if isinstance(k, str) and k != 'x'}
    want = pool.fkord(cfg.__arguments__.get('x', cfg.__arguments__.get(0, 0)), **stored)
    got = fdl.build(cfg)
    got = got() if isinstance(cfg, fdl.Partial) else got
    if got != want:
      viols.append(dict(kinds=[], hasdef=[], store=name, cls=type(cfg).__name__, sig='kwargs-order', scenario=name,
                        what=f'{name}: the callable received its **kwargs as {got[2]}, the configuration holds them '
                             f'in the order {tuple(stored.items())}'))
  return n, n, viols, [dict(scenario='order of **kwargs arguments', cases=n)]


def posonly_name_in_kwargs_case(_=None):
  """A keyword argument whose name is also the name of a positional-only parameter is legal in
  Python when the callable has **kwargs (`f(1, a=2)` for `def f(a, /, **kwargs)`): a configuration
  that accepts it must pass it on; refusing it at construction is fine."""
  viols = []
  def f1(a, /, **kwargs):
    return ('f1', a, tuple(sorted(kwargs.items())))
  def f2(a=0, b=1, /, c=2, **kw):
    return ('f2', a, b, c, tuple(sorted(kw.items())))
  n = 0
  for name, fn, args, kwargs in [('one positional-only', f1, (1,), {'a': 2}),
                                 ('two positional-only, one collides', f2, (5,), {'b': 7, 'z': 8}),
                                 ('positional-only left at its default', f2, (), {'a': 9, 'c': 3})]:
    for cls in (fdl.Config, fdl.Partial):
      n += 1
      want = fn(*args, **kwargs)
      try:
        cfg = cls(fn, *args, **kwargs)
      except TypeError:
        continue                      # refused loudly
      try:
        got = fdl.build(cfg)
        got = got() if cls is fdl.Partial else got
      except Exception as e:   # pylint: disable=broad-except
        got = ('raises', type(e).__name__)
      if got != want:
        viols.append(dict(kinds=[], hasdef=[], store=name, cls=cls.__name__, sig='posonly-name-in-kwargs',
                          scenario=f'{name}/{cls.__name__}', fkey='posonly-name-in-kwargs',
                          what=f'{cls.__name__}({fn.__name__}, *{args}, **{kwargs}) is accepted, stores '
                               f'{dict(cfg.__arguments__)}, but builds {got}; the direct call gives {want}'))
  return n, n, viols, [dict(scenario='keyword argument named like a positional-only parameter', cases=n)]


def replay(case):
  if case.get('sig') == 'posonly-name-in-kwargs':
    r = posonly_name_in_kwargs_case()
    m = [v for v in r[2] if v['scenario'] == case.get('scenario')]
    return m[0]['what'] if m else None
  if case.get('sig') == 'kwargs-order':
    r = kwargs_order_case()
    m = [v for v in r[2] if v['scenario'] == case.get('scenario')]
    return m[0]['what'] if m else None
  if case.get('sig') == 'equal-leaves':
    r = equal_leaves_case()
    m = [v for v in r[2] if v['scenario'] == case.get('scenario')]
    return m[0]['what'] if m else None
  if case.get('sig') == 'nested-containers':
    r = nested_containers_case()
    m = [v for v in r[2] if v['scenario'] == case.get('scenario')]
    return m[0]['what'] if m else None
  if case.get('sig') == 'callable-kinds':
    r = callable_kinds_case()
    m = [v for v in r[2] if v['scenario'] == case.get('scenario')]
    return m[0]['what'] if m else None
  sig = gen.SigSpec(tuple(case['kinds']), tuple(case['hasdef']))
  cls = getattr(fdl, case.get('cls', 'Config'))
  return check_case(sig, {k: v for k, v in case['store']}, cls)
