"""C01 bounded stand-in / replay harness: fdl.build(cfg) binds exactly the configured
arguments (oracle: layerb.refmodel.expected_binding, cross-checked with a direct call)."""
import fiddle as fdl
from layerb import gen
from layerb.refmodel import RefConfig, expected_binding, direct_call


def norm(bound):
  return tuple((k, (tuple(v) if isinstance(v, (list, tuple)) else
                    (tuple(sorted(v.items())) if isinstance(v, dict) else v))) for k, v in bound)


def check_case(sig, store, cls=None):
  """Returns None or a description of the violation."""
  cfg = gen.make_config(sig, store, cls=cls)
  model = RefConfig(sig, store)
  # the configuration must report what was configured
  if cfg[:] != model.view():
    return f'cfg[:] = {cfg[:]} but configured {model.view()}'
  exp = expected_binding(model)
  # cross-check the oracle with a real direct call when python can express it
  fn = gen.make_fn(sig)
  try:
    direct = direct_call(model, fn)
  except TypeError:
    direct = None
  if (direct is None) != (exp is None) or (direct is not None and norm(direct.bound) != norm(exp)):
    return f'ORACLE DISAGREEMENT direct={direct} expected={exp}'
  try:
    got = fdl.build(cfg)
  except Exception as e:   # pylint: disable=broad-except
    if exp is None:
      return None
    return f'build raised {type(e).__name__}: {str(e)[:100]}; expected call {dict(exp)}'
  if cls is fdl.Partial:
    # a Partial may leave required parameters open; the call of the built partial decides
    try:
      got = got()
    except Exception as e:   # pylint: disable=broad-except
      if exp is None:
        return None
      return f'built partial raised {type(e).__name__}: {e}'
  if exp is None:
    return f'a required parameter is missing but the call went through: {got}'
  if not isinstance(got, gen.Call) or norm(got.bound) != norm(exp):
    return f'built {got}; the configured arguments are {dict(exp)}'
  return None


def check_sig(args):
  kinds, hasdef, max_var = args
  sig = gen.SigSpec(kinds, hasdef)
  evals, viols, nontrivial, samples = 0, [], 0, []
  for store in gen.all_stores(sig, max_var=max_var, max_extra=1):
    for cls in (fdl.Config, fdl.Partial):
      evals += 1
      v = check_case(sig, store, cls)
      if store:
        nontrivial += 1
      if v is not None:
        viols.append(dict(kinds=kinds, hasdef=hasdef, store=[[k, x] for k, x in store.items()],
                          cls=cls.__name__, what=v, sig=sig.label))
      elif len(samples) < 1 and len(store) >= 2:
        samples.append(dict(sig=sig.label, store=[[k, x] for k, x in store.items()], cls=cls.__name__))
  return evals, nontrivial, viols, samples


def replay(case):
  sig = gen.SigSpec(tuple(case['kinds']), tuple(case['hasdef']))
  cls = getattr(fdl, case.get('cls', 'Config'))
  return check_case(sig, {k: v for k, v in case['store']}, cls)
