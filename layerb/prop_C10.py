"""C10, bounded part: applying build_diff(old, new) to old yields new."""
import copy
import itertools
import fiddle as fdl
from fiddle._src import diffing
from layerb import canon, common, pool, gen
from layerb.prop_C14 import reachable_buildables


def edits():
  """Edit functions new := edit(deepcopy(old))."""
  def value_change(c):
    for b in reachable_buildables(c):
      for k, v in list(b.__arguments__.items()):
        if isinstance(k, str) and not isinstance(v, (fdl.Buildable, list, dict, tuple)):
          setattr(b, k, ('changed', k))
          return
  def callable_swap(c):
    for b in reachable_buildables(c):
      if b.__fn_or_cls__ is pool.fb:
        fdl.update_callable(b, pool.fb2)
        return
      if b.__fn_or_cls__ is pool.Cls:
        fdl.update_callable(b, pool.SubCls)
        return
  def arg_add(c):
    for b in reachable_buildables(c):
      names = [p for p in ('y', 'q', 'v', 'k') if p not in b.__arguments__]
      for nm in names:
        try:
          setattr(b, nm, 'added')
          return
        except Exception:   # pylint: disable=broad-except
          pass
  def arg_remove(c):
    for b in reversed(reachable_buildables(c)):
      for k in list(b.__arguments__):
        if isinstance(k, str):
          delattr(b, k)
          return
  def tag_add(c):
    for b in reachable_buildables(c):
      for k in b.__arguments__:
        if isinstance(k, str):
          fdl.add_tag(b, k, pool.TagB)
          return
  def tag_remove(c):
    for b in reachable_buildables(c):
      for k, ts in b.__argument_tags__.items():
        if isinstance(k, str) and ts:
          fdl.remove_tag(b, k, next(iter(ts)))
          return
  def alias_create(c):
    bs = reachable_buildables(c)
    if len(bs) >= 2:
      root = bs[0]
      for k in root.__arguments__:
        if isinstance(k, str) and root.__arguments__[k] is not bs[-1]:
          setattr(root, k, bs[-1])
          return
  def alias_break(c):
    seen = {}
    for b in reachable_buildables(c):
      for k, v in b.__arguments__.items():
        if isinstance(v, fdl.Buildable) and isinstance(k, str):
          if id(v) in seen:
            setattr(b, k, copy.deepcopy(v))
            return
          seen[id(v)] = True
  def subtree_move(c):
    bs = reachable_buildables(c)
    for b in bs[1:]:
      for k, v in list(b.__arguments__.items()):
        if isinstance(k, str) and isinstance(v, (fdl.Buildable, list)):
          root = bs[0]
          for rk in root.__arguments__:
            if isinstance(rk, str) and root.__arguments__[rk] is not v and root is not b:
              delattr(b, k)
              setattr(root, rk, v)
              return
  def new_shared(c):
    bs = reachable_buildables(c)
    s = fdl.Config(pool.Cls, 'new-shared')
    n = 0
    for b in bs:
      for k in list(b.__arguments__):
        if isinstance(k, str) and n < 2:
          setattr(b, k, [s] if n else s)
          n += 1
  def list_change(c):
    for b in reachable_buildables(c):
      for k, v in b.__arguments__.items():
        if isinstance(v, list) and v:
          v[0] = 'list-changed'
          v.append(fdl.Config(pool.fb, 9))
          return
  def dict_change(c):
    for b in reachable_buildables(c):
      for k, v in b.__arguments__.items():
        if isinstance(v, dict):
          v['newkey'] = 1
          for kk in list(v):
            if kk != 'newkey':
              del v[kk]
              break
          return
  return [(f.__name__, f) for f in (value_change, callable_swap, arg_add, arg_remove, tag_add,
                                    tag_remove, alias_create, alias_break, subtree_move, new_shared,
                                    list_change, dict_change)]


def _int_keys(cfg):
  return any(isinstance(k, int) for b in reachable_buildables(cfg)
             for k in list(b.__arguments__) + [t for t, ts in b.__argument_tags__.items() if ts])


def _tuple_with_buildable(cfg):
  _, keep = canon.mutable_ids(cfg)
  def has(x):
    if isinstance(x, tuple):
      return any(isinstance(y, (fdl.Buildable, list, dict)) or has(y) for y in x)
    return False
  for b in keep:
    vals = (b.__arguments__.values() if isinstance(b, fdl.Buildable) else
            b.values() if isinstance(b, dict) else b if isinstance(b, list) else [])
    if any(has(v) for v in vals):
      return True
  return False


def check_pair(old, new, label):
  viols = []
  ik = _int_keys(old) or _int_keys(new)
  tw = _tuple_with_buildable(old)
  def bad(what):
    key = None
    if ik and 'attribute name must be string' in what:
      key = 'int-keys:record_buildable_diffs'
    elif ik and "'<' not supported between" in what:
      key = 'int-keys:record_tag_diffs'
    elif tw and "'tuple' object does not support item assignment" in what:
      key = 'modify-inside-tuple'
    viols.append(dict(label=label, what=what, sig=label[0], store=str(label[1:]), op='diff', fkey=key))
  c_new = canon.canon(new)
  try:
    diff = diffing.build_diff(old, new)
  except Exception as e:   # pylint: disable=broad-except
    bad(f'build_diff raised {type(e).__name__}: {str(e)[:100]}')
    return viols
  target = copy.deepcopy(old)
  memo_diff = repr(diff)
  try:
    diffing.apply_diff(diff, target)
  except Exception as e:   # pylint: disable=broad-except
    bad(f'apply_diff raised {type(e).__name__}: {str(e)[:100]}')
    return viols
  if canon.canon(target) != c_new:
    bad('apply_diff(build_diff(old, new), copy(old)) differs from new in callables/arguments/tags/sharing')
  if canon.canon(new) != c_new:
    bad('new was modified')
  if repr(diff) != memo_diff:
    bad('the diff was modified by apply_diff')
  return viols


def check_case(args):
  name, edit_names, shared = args
  factory = dict(pool.make_pool())[name]
  E = dict(edits())
  old = factory()
  if not isinstance(old, fdl.Buildable):
    return 0, 0, [], []
  if shared:
    new = copy.copy(old)          # new shares argument objects with old by identity
    new2 = new
  else:
    new = copy.deepcopy(old)
  c_old = canon.canon(old)
  try:
    for en in edit_names:
      E[en](new)
  except Exception:   # pylint: disable=broad-except
    return 0, 0, [], []
  if not shared and canon.canon(old) != c_old:
    return 0, 0, [], []
  viols = check_pair(old, new, (name, list(edit_names), shared))
  if not edit_names and not shared:
    # the diff between a configuration and its deep copy is empty
    try:
      d0 = diffing.build_diff(old, new)
      if tuple(d0.changes) or tuple(d0.new_shared_values):
        viols.append(dict(label=(name, [], False), sig=name, store='deepcopy', op='diff', fkey=None,
                          what=f'the diff between the configuration and its deep copy is not empty: '
                               f'{[type(c).__name__ + str(c.target) for c in d0.changes][:4]}'))
    except Exception:   # pylint: disable=broad-except
      pass            # reported (keyed) by check_pair above
  for v in viols:
    v.update(config=name, edits=list(edit_names), shared=shared)
  return 1, 1 if edit_names else 0, viols, ([dict(config=name, edits=list(edit_names))]
                                             if name == 'shared-node' and len(edit_names) == 2 else [])


def unrelated_case(args):
  a, b = args
  P = dict(pool.make_pool())
  old, new = P[a](), P[b]()
  if type(old) is not type(new):
    return 0, 0, [], []
  viols = check_pair(old, new, ('unrelated', a, b))
  for v in viols:
    v.update(unrelated=[a, b])
  return 1, 1, viols, []


def sharing_scenarios(_=None):
  """old and new share sub-configurations / containers by identity while aliases change."""
  viols = []
  n = 0
  def run(label, old, new):
    nonlocal n
    n += 1
    for v in check_pair(old, new, ('sharing', label)):
      v.update(sharing=label)
      viols.append(v)
  for shared_len in (1, 2):
    small = list(range(1, shared_len + 1))
    inner = fdl.Config(pool.fb, x=small)
    old = fdl.Config(pool.fc, small, q=inner)
    run(f'small-list-aliased-{shared_len}',
        old, fdl.Config(pool.fc, [9] * shared_len, q=inner))
    run(f'small-list-alias-moved-{shared_len}',
        old, fdl.Config(pool.fc, list(small), q=inner, r=small))
  d = {'k': 1}
  inner = fdl.Config(pool.fb, x=d, y=[d])
  run('dict-aliased', fdl.Config(pool.fc, d, q=inner), fdl.Config(pool.fc, {'k': 2}, q=inner))
  sub = fdl.Config(pool.Cls, 1)
  holder = fdl.Config(pool.fb, x=sub)
  run('sub-config-shared', fdl.Config(pool.fc, sub, q=holder, r=[sub]),
      fdl.Config(pool.fc, fdl.Config(pool.Cls, 2), q=holder, r=[holder]))
  t = (1, [2])
  inner = fdl.Config(pool.fb, x=t)
  run('tuple-with-list', fdl.Config(pool.fc, t, q=inner), fdl.Config(pool.fc, (1, [3]), q=inner))
  # one root is reachable from the other structure: wrapping an existing configuration, unwrapping
  # it, and a configuration compared with itself
  def inner_cfg():
    return fdl.Config(pool.fb, 1, y=[2, {'k': 3}])
  old = inner_cfg()
  run('new-wraps-old-root', old, fdl.Config(pool.fc, old, q=5))
  old = inner_cfg()
  run('new-wraps-old-root-in-containers', old, fdl.Config(pool.fc, [1, {'o': old}], q=(old,)))
  new = inner_cfg()
  run('old-wraps-new-root', fdl.Config(pool.fc, new, q=5), new)
  new = inner_cfg()
  run('old-wraps-new-root-twice', fdl.Config(pool.fc, new, q=fdl.Config(pool.fb, new)), new)
  same = fdl.Config(pool.fc, inner_cfg(), q=[inner_cfg()])
  run('old-is-new', same, same)
  # an alias created under a brand-new dict key / new list element
  old = fdl.Config(pool.fc, {'p': 1}, q=[1, 2])
  new = copy.deepcopy(old)
  new.q[1] = 3
  new.p['q'] = new.q
  run('alias-under-new-dict-key', old, new)
  old = fdl.Config(pool.fc, {'p': {'in': 1}}, q=fdl.Config(pool.fb, 1))
  new = copy.deepcopy(old)
  new.p['p']['cfg'] = new.q
  new.p['again'] = new.q
  run('config-alias-under-new-dict-keys', old, new)
  # callable swaps between callables taking **kwargs, with tags on named and on **kwargs arguments
  # that are the same in old and new (no AddTag is emitted for them: they must simply survive)
  def tagged(fn):
    c = fdl.Config(fn, x=1, lr=0.1, mode='m')
    fdl.add_tag(c, 'lr', pool.TagA)
    fdl.add_tag(c, 'x', pool.TagB)
    fdl.add_tag(c, 'mode', pool.TagA1)
    return c
  run('callable-swap-with-tagged-kwargs', tagged(pool.fk), tagged(pool.fk2))
  old = fdl.Config(pool.fc, tagged(pool.fk), q=[tagged(pool.fk)])
  new = copy.deepcopy(old)
  fdl.update_callable(new.p, pool.fk2)
  new.q[0].lr = 0.2
  run('nested-callable-swap-with-tagged-kwargs', old, new)
  return n, n, viols, [dict(scenario='sharing by identity; callable swaps with tagged **kwargs arguments')]


def replay(case):
  if case.get('sharing'):
    r = sharing_scenarios()
    m = [v for v in r[2] if v['sharing'] == case['sharing']]
    return m[0]['what'] if m else None
  if case.get('unrelated'):
    r = unrelated_case(tuple(case['unrelated']))
  else:
    r = check_case((case['config'], tuple(case['edits']), case['shared']))
  return r[2][0]['what'] if r[2] else None


def run(tier='quick', seed=0, nproc=16):
  names = [n for n, _ in pool.make_pool()]
  enames = [n for n, _ in edits()]
  seqs = [()] + [(e,) for e in enames] + list(itertools.permutations(enames, 2))
  if tier != 'quick':
    seqs += gen.shuffled(list(itertools.permutations(enames, 3)))[:400]
  jobs = [(n, s, False) for n in names for s in seqs] + [(n, (e,), True) for n in names for e in enames]
  res = common.pmap(check_case, gen.shuffled(jobs), nproc)
  res += common.pmap(unrelated_case, list(itertools.permutations(names, 2)), nproc)
  res.append(common.guard(sharing_scenarios))
  return common.merge(
      res, 'layerb.prop_C10', keyfn=lambda v: v.get('fkey'),
      rule='pairs (old, new): new = k <= %d edits of a deep copy of old (value change, callable swap, '
           'argument add/remove, tag add/remove, alias created/broken, subtree moved, new shared value, '
           'list/dict edits), pairs sharing argument objects by identity, the empty edit (diff of a '
           'config and its deepcopy), and all unrelated pairs of pool configurations with roots of the '
           'same type: canon(apply_diff(build_diff(old,new), deepcopy(old))) = canon(new); new and the '
           'diff unchanged' % (2 if tier == 'quick' else 3),
      exhaustive=(tier == 'quick'), bound='pool x edit sequences <= %d' % (2 if tier == 'quick' else 3))
