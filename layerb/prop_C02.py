"""C02, bounded part: one invocation per Buildable instance; built graph mirrors config graph."""
import gc
import fiddle as fdl
from fiddle._src import daglish
from layerb import gen, dags, canon, common


def expected(shape, same=False):
  """Independent evaluation of a shape: what the built graph must look like."""
  memo = {}

  def ev(i):
    if i in memo:
      return memo[i]
    kind, slots = shape[i]
    vals = [leafv(i, s, same) if t == 'x' else ev(t) for s, t in enumerate(slots)]
    if kind == 'C':
      sig = gen.SigSpec((gen.PK, gen.PK), (True, True))
      bound = []
      for s, nm in enumerate(('p0', 'p1')):
        bound.append((nm, vals[s] if s < len(vals) else sig.defaults[s]))
      r = gen.Call('n0' if same else f'n{i}', bound)
    elif kind == 'L':
      r = list(vals)
    elif kind == 'T':
      r = tuple(vals)
    else:
      r = {f'k{s}': v for s, v in enumerate(vals)}
    memo[i] = r
    return r

  return ev(0)


def leafv(i, s, same):
  return s if same else i * 10 + s


def check_shape(args):
  shape, same = args
  evals, viols = 0, []
  def bad(what):
    viols.append(dict(shape=[list(map(list, [(k, list(s))]))[0] for k, s in shape], same=same,
                      what=what, sig=dags.label(shape), store='', op='build'))
  exp = expected(shape, same)
  exp_c = canon.built_canon(exp)
  if same:
    dags._node_fns_backup = dict(dags._node_fns)
    for i in range(len(shape)):
      dags._node_fns[i] = dags.node_fn(0)
  try:
    root, objs = dags.build_shape(shape, leaf=lambda i, s: leafv(i, s, same))
  finally:
    if same:
      dags._node_fns.clear()
      dags._node_fns.update(dags._node_fns_backup)
  n_c = sum(1 for k, _ in shape if k == 'C')
  before = canon.canon(root)
  gen.Call.log.clear()
  gc.collect()
  try:
    built = fdl.build(root)
  except Exception as e:   # pylint: disable=broad-except
    bad(f'build raised {type(e).__name__}: {e}')
    return 1, 1, viols, []
  log = list(gen.Call.log)
  evals += 1
  if len(log) != n_c:
    bad(f'{len(log)} invocations for {n_c} distinct Buildable instances')
  got_c = canon.built_canon(built)
  if got_c != exp_c:
    bad(f'built graph {got_c} differs from the mirrored config graph {exp_c}')
  # dependencies first: every Call object bound inside another one was created earlier
  order = {id(c): t for t, c in enumerate(log)}
  for c in log:
    for _, v in c.bound:
      for sub in _calls_in(v):
        if order.get(id(sub), -1) > order[id(c)]:
          bad('a Buildable was invoked before one it depends on')
  if canon.canon(root) != before:
    bad('build modified the configuration')
  # separate builds share no built objects
  gen.Call.log.clear()
  built2 = fdl.build(root)
  ids1, ids2 = _mut_ids(built), _mut_ids(built2)
  cfg_ids, _keep = canon.mutable_ids(root)
  if ids1 & ids2:
    bad('two fdl.build calls share a built object')
  if (ids1 | ids2) & set(cfg_ids):
    bad('a built object is one of the configuration\'s own containers')
  return evals, 1 if n_c else 0, viols, ([dict(shape=dags.label(shape), same=same)] if n_c > 1 else [])


def _calls_in(v):
  if isinstance(v, gen.Call):
    yield v
  elif isinstance(v, (list, tuple)):
    for x in v:
      yield from _calls_in(x)
  elif isinstance(v, dict):
    for x in v.values():
      yield from _calls_in(x)


def _mut_ids(obj, acc=None):
  acc = set() if acc is None else acc
  if isinstance(obj, gen.Call):
    if id(obj) in acc:
      return acc
    acc.add(id(obj))
    for _, v in obj.bound:
      _mut_ids(v, acc)
  elif isinstance(obj, (list, dict, set)):
    if id(obj) in acc:
      return acc
    acc.add(id(obj))
    for v in (obj.values() if isinstance(obj, dict) else obj):
      _mut_ids(v, acc)
  elif isinstance(obj, tuple):
    for v in obj:
      _mut_ids(v, acc)
  return acc


class Row:
  """User-registered node type whose flatten creates temporaries."""

  def __init__(self, cells):
    self.cells = list(cells)


class Row2(Row):
  """Same, but the temporary tuple is itself a child value of the node."""


_registered = [False]


def temporaries_scenario(n_rows=40):
  """Temporaries created while traversing: their ids may be recycled during one build."""
  if not _registered[0]:
    daglish.register_node_traverser(
        Row, flatten_fn=lambda r: (tuple(r.cells), None),
        unflatten_fn=lambda values, _: Row(values),
        path_elements_fn=lambda r: tuple(daglish.Index(i) for i in range(len(r.cells))))
    daglish.register_node_traverser(
        Row2, flatten_fn=lambda r: ((tuple(r.cells),), None),
        unflatten_fn=lambda values, _: Row2(values[0]),
        path_elements_fn=lambda r: (daglish.Attr('cells'),))
    _registered[0] = True
  viols = []
  fn = dags.node_fn(0)
  for pattern in range(12):
    rows = []
    n_cfg = 0
    R = Row if pattern % 4 < 2 else Row2
    width = 3 + pattern // 4            # tuple sizes 3, 4, 5: free-list slots differ per size
    for i in range(n_rows):
      if (i + pattern) % 2 == 0:
        rows.append(R([i, 'const', 2.5, i, i][:width]))          # constants only
      else:
        rows.append(R([fdl.Config(fn, i), fdl.Config(fn, -i), i, i, i][:width]))
        n_cfg += 2
    gen.Call.log.clear()
    gc.collect()
    built = fdl.build(rows)
    if len(gen.Call.log) != n_cfg:
      viols.append(dict(what=f'temporaries scenario: {len(gen.Call.log)} invocations for {n_cfg} '
                             f'distinct Buildables (rows={n_rows}, pattern={pattern})',
                        shape=[], same=False, sig='rows', store='', op='build', scenario=pattern))
    for i, (r, b) in enumerate(zip(rows, built)):
      want = [c if not isinstance(c, fdl.Config) else ('call', c.p0) for c in r.cells]
      got = [c if not isinstance(c, gen.Call) else ('call', dict(c.bound)['p0']) for c in b.cells]
      if want != got:
        viols.append(dict(what=f'temporaries scenario: row {i} built {got}, configured {want}',
                          shape=[], same=False, sig='rows', store='', op='build', scenario=pattern))
        break
  return 12, 12, viols, [dict(scenario='temporaries', rows=n_rows)]


def depth_scenario():
  """Chains up to (just below) the depth the interpreter allows; measured, not assumed."""
  import sys
  fn = dags.node_fn(0)
  viols = []
  depth_ok = 0
  for depth in (10, 50, 100, 150):
    cfg = fdl.Config(fn, 0)
    for _ in range(depth):
      cfg = fdl.Config(fn, cfg)
    gen.Call.log.clear()
    try:
      fdl.build(cfg)
    except RecursionError:
      break
    depth_ok = depth
    if len(gen.Call.log) != depth + 1:
      viols.append(dict(what=f'chain of depth {depth}: {len(gen.Call.log)} invocations',
                        shape=[], same=False, sig='chain', store='', op='build'))
  # beyond what the interpreter allows: the build may fail with RecursionError, but no Buildable is
  # invoked twice on the way (a node finished before the deep descent, referenced again at the bottom)
  for depth in (220, 400):
    shared = fdl.Config(_Res, 'shared')
    chain = fdl.Config(_combine, shared)
    for _ in range(depth):
      chain = fdl.Config(_combine, chain)
    cfg = fdl.Config(_combine, shared, chain)
    _Res.made.clear()
    try:
      fdl.build(cfg)
    except RecursionError:
      pass
    if _Res.made.count('shared') > 1:
      viols.append(dict(what=f'chain of depth {depth}: the Buildable finished before the deep descent was '
                             f'invoked {_Res.made.count("shared")} times during one fdl.build',
                        shape=[], same=False, sig='chain', store='', op='build'))
  return 6, 1, viols, [dict(scenario='chain', deepest_built=depth_ok,
                             recursion_limit=sys.getrecursionlimit())]


class _Res:
  """An ordinary class instance (weak-referenceable, mutable) built from a shared Config."""
  made = []

  def __init__(self, name):
    self.name = name
    _Res.made.append(name)


class _ResD(_Res):
  def __init__(self, name='d'):
    super().__init__(name)


def _measure(res):
  return 7                 # uses its argument and drops it


def _combine(*parts, **named):
  return (parts, named)


def dropped_results_scenario():
  """A shared Buildable whose built object is *not kept* by its first consumer: the later
  references must still receive that one object, and the callable must have run once."""
  viols = []
  n = 0
  for first_consumer_position in (0, 1, 2):
    n += 1
    shared = fdl.Config(_Res, 'shared')
    other = fdl.Config(_Res, 'other')
    consumers = [shared, [shared, {'k': shared}], fdl.Partial(_combine, shared)]
    consumers.insert(first_consumer_position, fdl.Config(_measure, shared))
    cfg = fdl.Config(_combine, *consumers, tail=fdl.Config(_measure, other), also=other)
    _Res.made.clear()
    import gc
    built = fdl.build(cfg)
    gc.collect()
    if sorted(_Res.made) != ['other', 'shared']:
      viols.append(dict(what=f'a Buildable whose built object was dropped by its first consumer was '
                             f'invoked again: invocations {_Res.made} (expected one per Buildable)',
                        shape=[], same=False, sig='dropped', store=str(first_consumer_position), op='build'))
      continue
    parts = [p for p in built[0] if not isinstance(p, int)]
    objs = [parts[0], parts[1][0], parts[1][1]['k'], parts[2].args[0]]
    if any(o is not objs[0] for o in objs):
      viols.append(dict(what='references to one shared Buildable received different built objects',
                        shape=[], same=False, sig='dropped', store=str(first_consumer_position), op='build'))
    if built[1]['also'].name != 'other':
      viols.append(dict(what='wrong object for the second shared Buildable', shape=[], same=False,
                        sig='dropped', store=str(first_consumer_position), op='build'))
  # stand-alone TaggedValues (inside containers / at the root) whose value is shared with other places
  from layerb import pool
  for where in ('list', 'dict', 'tuple', 'root-list'):
    n += 1
    shared = fdl.Config(_Res, 'shared')
    lst = [1, 2]
    tv, tl = pool.TagA.new(shared), pool.TagB.new(lst)
    holder = {'list': [tv, tl], 'dict': {'k': tv, 'l': tl}, 'tuple': (tv, [tl])}.get(where, [tv, tl])
    if where == 'root-list':
      cfg = [holder, fdl.Config(_combine, shared, lst)]
    else:
      cfg = fdl.Config(_combine, holder, shared, lst, fdl.Config(_measure, shared))
    _Res.made.clear()
    built = fdl.build(cfg)
    if _Res.made != ['shared']:
      viols.append(dict(what=f'TaggedValue in a {where}: the shared Buildable it holds was invoked '
                             f'{len(_Res.made)} times', shape=[], same=False, sig='dropped', store='tv-' + where,
                        op='build'))
      continue
    flat = []
    def walk(x):
      if isinstance(x, _Res) or (isinstance(x, list) and x == [1, 2]):
        flat.append(x)
      elif isinstance(x, (list, tuple)):
        for y in x:
          walk(y)
      elif isinstance(x, dict):
        for y in x.values():
          walk(y)
    walk(built)
    res = [x for x in flat if isinstance(x, _Res)]
    lists = [x for x in flat if isinstance(x, list)]
    if len({id(x) for x in res}) != 1 or len({id(x) for x in lists}) != 1:
      viols.append(dict(what=f'TaggedValue in a {where}: references to one Buildable / list received '
                             f'different built objects', shape=[], same=False, sig='dropped',
                        store='tv-' + where, op='build'))
  return n, n, viols, [dict(scenario='built object dropped by its first consumer; shared values of TaggedValues')]


def partial_nodes_scenario():
  """Partial / ArgFactory nodes, with and without bound arguments: one built object per
  Buildable instance and per build, never the configured callable itself."""
  import functools
  viols = []
  n = 0
  def bad(what, name):
    viols.append(dict(what=what, shape=[], same=False, sig='partials', store=name, op='build'))
  for name, mk in (('no arguments', lambda: fdl.Partial(_Res)), ('positional', lambda: fdl.Partial(_Res, 'n')),
                   ('keyword', lambda: fdl.Partial(_Res, name='n'))):
    n += 1
    p1, p2 = mk(), mk()
    cfg = fdl.Config(_combine, p1, [p1, {'k': p1}], p2)
    (a, (b, d), c), _ = fdl.build(cfg)
    (a2, _x, c2), _ = fdl.build(cfg)
    if not (a is b is d['k']):
      bad(f'Partial with {name}: references to one instance were built to different objects', name)
    if a is c:
      bad(f'Partial with {name}: two distinct (equal) Partial instances were built to the very same object', name)
    if a is a2 or c is c2:
      bad(f'Partial with {name}: two builds returned the same object for a node', name)
    for o in (a, c):
      if not isinstance(o, functools.partial) or o is _Res:
        bad(f'Partial with {name}: built to {o!r}, not a functools.partial of the callable', name)
      elif getattr(o(*([] if name != 'no arguments' else ['n'])), 'name', None) != 'n':
        bad(f'Partial with {name}: calling the built partial does not call the configured callable', name)
  # ArgFactory nodes: one wrapper per instance and per build; consumed by a Partial, each distinct
  # node is invoked once per call and distinct nodes give distinct objects
  for name, mk in (('ArgFactory without arguments', lambda: fdl.ArgFactory(_ResD)),
                   ('ArgFactory with arguments', lambda: fdl.ArgFactory(_ResD, 'n'))):
    n += 1
    f1, f2 = mk(), mk()
    a, (b, c) = fdl.build([f1, [f1, f2]])
    a2, _y = fdl.build([f1, [f1, f2]])
    if a is not b:
      bad(f'{name}: references to one instance were built to different objects', name)
    if a is c:
      bad(f'{name}: two distinct (equal) ArgFactory instances were built to the very same object', name)
    if a is a2:
      bad(f'{name}: two builds returned the same object for a node', name)
    part = fdl.build(fdl.Partial(_combine, [mk(), mk()], other=(mk(),)))
    for call in (1, 2):
      _Res.made.clear()
      (lst,), named = part()
      made = len(_Res.made)
      if made != 3:
        bad(f'{name}: a call of the built partial invoked the factories {made} times, there are 3 distinct '
            f'ArgFactory nodes (two equal ones in a list, one in a tuple)', name)
        break
      if lst[0] is lst[1] or lst[0] is named['other'][0]:
        bad(f'{name}: distinct (equal) factory nodes must give distinct objects in a call', name)
        break
  return n, n, viols, [dict(scenario='Partial / ArgFactory nodes with and without bound arguments')]


def derived_namedtuple_scenario():
  """A Buildable referenced both directly and through instances of classes that subclass a named
  tuple class: built once, the same object at every reference, the named-tuple instance rebuilt."""
  from layerb import pool
  viols = []
  def bad(what):
    viols.append(dict(what=what, shape=[], same=False, sig='derived-namedtuple', store='', op='build'))
  for mk in (lambda s: pool.Span(s, 10), lambda s: pool.LabelledPt([s]), lambda s: [pool.Span(0, {'k': s})]):
    shared = fdl.Config(_Res, 'shared')
    holder = mk(shared)
    cfg = fdl.Config(_combine, shared, holder, also=fdl.Config(_combine, holder))
    _Res.made.clear()
    try:
      built = fdl.build(cfg)
    except Exception as e:   # pylint: disable=broad-except
      bad(f'build raised {type(e).__name__}: {str(e)[:80]}')
      continue
    if _Res.made.count('shared') != 1:
      bad(f'a Buildable referenced directly and through {type(holder).__name__} was invoked '
          f'{_Res.made.count("shared")} times')
    found = []
    def walk(x):
      if isinstance(x, fdl.Buildable):
        found.append('unbuilt')
      elif isinstance(x, _Res):
        found.append(id(x))
      elif isinstance(x, dict):
        for v in x.values():
          walk(v)
      elif isinstance(x, (list, tuple)):
        for v in x:
          walk(v)
      elif hasattr(x, 'parts'):
        walk(x.parts)
        walk(x.named)
    walk(built)
    if 'unbuilt' in found:
      bad(f'a reference through {type(holder).__name__} received the unbuilt Buildable')
    elif len(set(found)) != 1 or len(found) < 3:
      bad(f'references through {type(holder).__name__} did not all receive the one built object '
          f'({len(set(found))} distinct objects at {len(found)} references)')
  return 3, 3, viols, [dict(scenario='sharing through subclasses of named tuple classes')]


def replay(case):
  if case.get('sig') == 'derived-namedtuple':
    r = derived_namedtuple_scenario()
    return r[2][0]['what'] if r[2] else None
  if case.get('sig') == 'partials':
    r = partial_nodes_scenario()
    return r[2][0]['what'] if r[2] else None
  if case.get('sig') == 'dropped':
    r = dropped_results_scenario()
    return r[2][0]['what'] if r[2] else None
  if case.get('sig') == 'rows':
    r = temporaries_scenario()
    return r[2][0]['what'] if r[2] else None
  if case.get('sig') == 'chain':
    r = depth_scenario()
    return r[2][0]['what'] if r[2] else None
  shape = tuple((k, tuple(s)) for k, s in case['shape'])
  r = check_shape((shape, case['same']))
  return r[2][0]['what'] if r[2] else None


def run(tier='quick', seed=0, nproc=16):
  n = 3 if tier == 'quick' else 4
  shapes = dags.shapes_upto(n, kinds='CLTD', root_kinds='CLTD')
  if tier == 'quick':
    shapes += gen.shuffled(dags.all_shapes(4, kinds='CL', max_slots=2))[:4000]
  jobs = [(s, False) for s in shapes] + [(s, True) for s in shapes if sum(k == 'C' for k, _ in s) >= 2]
  res = common.pmap(check_shape, gen.shuffled(jobs), nproc)
  res.append(common.guard(temporaries_scenario))
  res.append(common.guard(depth_scenario))
  res.append(common.guard(dropped_results_scenario))
  res.append(common.guard(partial_nodes_scenario))
  res.append(common.guard(derived_namedtuple_scenario))
  return common.merge(
      res, 'layerb.prop_C02',
      rule='every DAG shape over Config/list/tuple/dict nodes with <=2 slots per node (all shapes '
           f'<= {n} nodes; 4-node Config/list shapes sampled in quick), distinct and equal-but-distinct '
           'nodes; invocation log + canonical form of the built graph vs an independent evaluation '
           'of the shape; two builds; gc stress; temporaries of a registered node type; chains; built '
           'objects dropped by their first consumer; Partial nodes with and without bound arguments; '
           'non-trivial = shape with at least one Buildable',
      exhaustive=(tier != 'quick'), bound=f'DAGs <= {n} nodes (+ sample of 4-node shapes)')
