"""Layer B generators: exhaustive small-scope enumeration of signatures, stores and callables
(DESIGN.md §3).  Everything is enumerated, `VERIF_SEED` only permutes the order / selects the
subsample when a thorough bound is cut by the time budget."""
import functools
import inspect
import itertools
import os
import random

import fiddle as fdl

PO, PK, VP, KO, VK = 0, 1, 2, 3, 4
KIND_LETTER = 'PKAOW'   # P=pos-only K=pos-or-kw A=*args O=kw-only W=**kwargs
SEED = int(os.environ.get('VERIF_SEED', '0') or 0)


class Default:
  """A distinguishable default value (compared by identity and by name)."""

  def __init__(self, name):
    self.name = name

  def __repr__(self):
    return f'D({self.name})'

  def __eq__(self, other):
    return isinstance(other, Default) and other.name == self.name

  def __hash__(self):
    return hash(('Default', self.name))


class SigSpec:
  """kinds: tuple of kind codes; hasdef: tuple of bools (same length)."""

  def __init__(self, kinds, hasdef):
    self.kinds, self.hasdef = tuple(kinds), tuple(hasdef)
    self.names = tuple(f'p{i}' for i in range(len(kinds)))
    self.n = len(kinds)
    self.npos = sum(1 for k in kinds if k in (PO, PK))
    self.vps = kinds.index(VP) if VP in kinds else None
    self.vk = kinds.index(VK) if VK in kinds else None
    self.defaults = tuple(Default(self.names[i]) if d else None for i, d in enumerate(hasdef))

  @property
  def label(self):
    return ''.join(KIND_LETTER[k] + ('=' if d else '') for k, d in zip(self.kinds, self.hasdef))

  def __repr__(self):
    return f'Sig({self.label})'

  def source(self, fname='f'):
    parts = []
    seen_slash = False
    for i, k in enumerate(self.kinds):
      if k != PO and not seen_slash and any(kk == PO for kk in self.kinds[:i]):
        parts.append('/')
        seen_slash = True
      if k == KO and VP not in self.kinds and '*' not in parts:
        parts.append('*')
      nm = self.names[i]
      if k == VP:
        parts.append('*' + nm)
      elif k == VK:
        parts.append('**' + nm)
      elif self.hasdef[i]:
        parts.append(f'{nm}=_D[{i}]')
      else:
        parts.append(nm)
    if not seen_slash and any(k == PO for k in self.kinds):
      parts.append('/')
    body = ', '.join(f"('{nm}', {nm})" for nm in self.names)
    return f'def {fname}({", ".join(parts)}):\n  return Call("{fname}", [{body}])\n'


class Call:
  """What a recording callable returns: its name and the values bound to each parameter."""
  log = []
  attempts = []      # every invocation, including the ones that raise
  fail = {}          # fname -> zero-argument factory of the exception to raise
  hook = {}          # fname -> callable run inside the invocation (e.g. a nested fdl.build)

  def __init__(self, fname, bound):
    self.fname, self.bound = fname, tuple(bound)
    Call.attempts.append(fname)
    if fname in Call.hook:
      Call.hook[fname]()
    if fname in Call.fail:
      raise Call.fail[fname]()
    Call.log.append(self)

  def __eq__(self, other):
    return isinstance(other, Call) and (self.fname, self.bound) == (other.fname, other.bound)

  def __hash__(self):
    return id(self)

  def __repr__(self):
    return f'Call({self.fname}, {dict(self.bound)!r})'


_fn_cache = {}


def make_fn(sig, fname='f'):
  """A real python function with the signature `sig` that records its bound arguments."""
  key = (sig.kinds, sig.hasdef, fname)
  if key not in _fn_cache:
    ns = {'_D': sig.defaults, 'Call': Call}
    exec(sig.source(fname), ns)   # pylint: disable=exec-used
    fn = ns[fname]
    fn.__module__ = 'layerb.gen'
    fn.__qualname__ = f'{fname}_{sig.label}'
    assert _check_sig(fn, sig), (sig, inspect.signature(fn))
    _fn_cache[key] = fn
  return _fn_cache[key]


def _check_sig(fn, sig):
  ps = list(inspect.signature(fn).parameters.values())
  return tuple(int(p.kind) for p in ps) == sig.kinds and \
      tuple(p.default is not p.empty for p in ps) == sig.hasdef


def all_sigs(max_n, with_defaults=True):
  """All well-formed signatures with at most max_n parameters."""
  out = []
  for n in range(0, max_n + 1):
    for kinds in itertools.product(range(5), repeat=n):
      if any(kinds[i] > kinds[i + 1] for i in range(n - 1)):
        continue
      if kinds.count(VP) > 1 or kinds.count(VK) > 1:
        continue
      defaultable = [i for i, k in enumerate(kinds) if k in (PO, PK, KO)]
      choices = itertools.product([False, True], repeat=len(defaultable)) if with_defaults \
          else [tuple(False for _ in defaultable)]
      for ch in choices:
        hasdef = [False] * n
        for i, d in zip(defaultable, ch):
          hasdef[i] = d
        # among PO/PK, no non-default after default
        pos = [i for i in range(n) if kinds[i] in (PO, PK)]
        if any(hasdef[a] and not hasdef[b] for a, b in zip(pos, pos[1:])):
          continue
        out.append(SigSpec(kinds, hasdef))
  return out


def all_stores(sig, max_var=2, max_extra=1, values=None):
  """All canonical stores: every subset of parameters set, 0..max_var varargs, extra kwargs.

  Yields dicts in canonical storage format with distinguishable values."""
  settable = [i for i, k in enumerate(sig.kinds) if k in (PO, PK, KO)]
  for mask in itertools.product([False, True], repeat=len(settable)):
    base = {}
    for i, m in zip(settable, mask):
      if m:
        key = i if sig.kinds[i] == PO else sig.names[i]
        base[key] = f'v{i}'
    nvars = range(0, max_var + 1) if sig.vps is not None else [0]
    for nv in nvars:
      st = dict(base)
      for j in range(nv):
        st[sig.vps + j] = f'a{j}'
      extras = range(0, max_extra + 1) if sig.vk is not None else [0]
      for ne in extras:
        st2 = dict(st)
        for j in range(ne):
          st2[f'x{j}'] = f'e{j}'
        yield st2


def make_config(sig, store, cls=None, fname='f'):
  """A real Buildable of `cls` for signature `sig` whose store is `store` (set through
  Buildable internals, so that states the constructor cannot express are reachable too)."""
  cls = cls or fdl.Config
  cfg = cls(make_fn(sig, fname))
  for k, v in store.items():
    cfg._arguments_set_value(k, v)   # pylint: disable=protected-access
  return cfg


def make_config_public(sig, store, cls=None, fname='f'):
  """Same, through the public API only (constructor + setattr + index assignment)."""
  cls = cls or fdl.Config
  cfg = cls(make_fn(sig, fname))
  for k, v in store.items():
    if isinstance(k, str):
      setattr(cfg, k, v)
  ints = sorted(k for k in store if isinstance(k, int))
  for k in ints:
    if sig.vps is not None and k >= sig.vps:
      cfg[k:k] = [store[k]]
    else:
      cfg[k] = store[k]
  return cfg


def shuffled(items, salt=0):
  items = list(items)
  if SEED:
    random.Random(SEED * 7919 + salt).shuffle(items)
  return items
