"""Edit operations on a Buildable and on the reference model (C03 / C16 / C07 share them)."""
import fiddle as fdl
from layerb.refmodel import ModelError

V = fdl.VARARGS


def enc_key(k):
  """JSON-able encoding of an index / slice key."""
  if k is V:
    return 'VARARGS'
  if isinstance(k, slice):
    return {'slice': [enc_key(k.start), enc_key(k.stop), k.step]}
  return k


def dec_key(k):
  if k == 'VARARGS':
    return V
  if isinstance(k, dict):
    a, b, c = k['slice']
    return slice(dec_key(a), dec_key(b), c)
  return k


class Op:
  """kind in getattr/setattr/delattr/getitem/setitem/delitem; key; value."""

  def __init__(self, kind, key, value=None):
    self.kind, self.key, self.value = kind, key, value

  def to_json(self):
    return [self.kind, enc_key(self.key), self.value]

  @staticmethod
  def from_json(j):
    return Op(j[0], dec_key(j[1]), j[2])

  def __repr__(self):
    k = enc_key(self.key)
    if self.kind == 'getattr':
      return f'cfg.{k}'
    if self.kind == 'setattr':
      return f'cfg.{k} = {self.value!r}'
    if self.kind == 'delattr':
      return f'del cfg.{k}'
    ks = k if not isinstance(k, dict) else ':'.join('' if x is None else str(x) for x in k['slice'])
    if self.kind == 'getitem':
      return f'cfg[{ks}]'
    if self.kind == 'setitem':
      return f'cfg[{ks}] = {self.value!r}'
    return f'del cfg[{ks}]'

  def apply_real(self, cfg):
    k = self.kind
    if k == 'getattr':
      return getattr(cfg, self.key)
    if k == 'setattr':
      return setattr(cfg, self.key, self.value)
    if k == 'delattr':
      return delattr(cfg, self.key)
    if k == 'getitem':
      return cfg[self.key]
    if k == 'setitem':
      cfg[self.key] = self.value
      return None
    del cfg[self.key]
    return None

  def apply_model(self, m):
    k = self.kind
    if k == 'getattr':
      return m.getattr(self.key)
    if k == 'setattr':
      return m.setattr(self.key, self.value)
    if k == 'delattr':
      return m.delattr(self.key)
    if k == 'getitem':
      return m.getitem(self.key)
    if k == 'setitem':
      return m.setitem(self.key, self.value)
    return m.delitem(self.key)


def observe(cfg):
  """What a Buildable reports: positional view and the (canonical) argument mapping."""
  try:
    view = cfg[:]
  except Exception as e:   # pylint: disable=broad-except
    view = ('<cfg[:] raised>', type(e).__name__)
  try:
    args = dict(fdl.ordered_arguments(cfg))
  except Exception as e:   # pylint: disable=broad-except
    args = ('<ordered_arguments raised>', type(e).__name__)
  return view, args


def observe_model(m):
  return m.view(), m.canonical_store()


def int_keys(L, has_vp):
  ks = list(range(-(L + 1), L + 2))
  if has_vp:
    ks.append(V)
  return ks


def slice_keys(L, npos, has_vp, steps=(None, 1, -1, 2, -2), dense=True):
  pts = [None] + sorted({-(L + 1), -L, -1, 0, 1, npos - 1, npos, npos + 1, L - 1, L, L + 1}) \
      if not dense else [None] + list(range(-(L + 1), L + 2))
  if has_vp:
    pts = pts + [V]
  out = []
  for a in pts:
    for b in pts:
      for c in steps:
        out.append(slice(a, b, c))
  return out


def all_ops(sig, L, tier='quick', names=True):
  """All single operations for a configuration whose positional view has length L."""
  ops = []
  has_vp = sig.vps is not None
  if names:
    nms = list(sig.names) + ['x0', 'zz']
    for nm in nms:
      ops.append(Op('getattr', nm))
      ops.append(Op('setattr', nm, 'N'))
      ops.append(Op('delattr', nm))
  for k in int_keys(L, has_vp):
    ops.append(Op('getitem', k))
    ops.append(Op('setitem', k, 'I'))
    ops.append(Op('delitem', k))
  steps = (None, 1, -1, 2, -2) if tier == 'quick' else (None, 1, -1, 2, -2, 3, -3)
  for s in slice_keys(L, sig.npos, has_vp, steps, dense=(L <= 3 or tier != 'quick')):
    ops.append(Op('getitem', s))
    ops.append(Op('delitem', s))
    for n in range(0, 4):
      ops.append(Op('setitem', s, [f's{t}' for t in range(n)]))
  return ops
