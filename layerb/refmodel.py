"""Reference models written from the property statements (never from the code under test).

RefConfig: C03's bound-argument model — named parameters behave like a dict restricted to the
signature; the positional view behaves like a Python list whose non-variadic prefix has fixed
length.  expected_binding: C01's oracle."""
import fiddle as fdl
from layerb.gen import PO, PK, VP, KO, VK

NO_VALUE = fdl.NO_VALUE


class ModelError(Exception):
  """The reference model rejects the edit (the real operation must raise, state unchanged)."""


class RefConfig:

  def __init__(self, sig, store=None):
    self.sig = sig
    self.named = {}      # parameter name -> value, for PO / PK / KO parameters that are set
    self.var = []        # variadic positional values
    self.extra = {}      # extra keyword names (only with **kwargs), insertion ordered
    for k, v in (store or {}).items():
      if isinstance(k, int):
        if k < sig.n and sig.kinds[k] == PO:
          self.named[sig.names[k]] = v
      else:
        if k in sig.names and sig.kinds[sig.names.index(k)] in (PK, KO):
          self.named[k] = v
        else:
          self.extra[k] = v
    if sig.vps is not None:
      j = sig.vps
      while store and j in store:
        self.var.append(store[j])
        j += 1

  def copy(self):
    m = RefConfig(self.sig)
    m.named, m.var, m.extra = dict(self.named), list(self.var), dict(self.extra)
    return m

  # ------------------------------------------------------------ observations
  def prefix(self):
    s = self.sig
    out = []
    for i in range(s.npos):
      nm = s.names[i]
      if nm in self.named:
        out.append(self.named[nm])
      elif s.hasdef[i]:
        out.append(s.defaults[i])
      else:
        out.append(NO_VALUE)
    return out

  def view(self):
    return self.prefix() + list(self.var)

  def state(self):
    return (tuple(sorted(self.named.items())), tuple(self.var), tuple(sorted(self.extra.items())))

  def canonical_store(self):
    """The argument store the model state corresponds to (canonical storage format)."""
    s = self.sig
    st = {}
    for i, nm in enumerate(s.names):
      if nm in self.named:
        st[i if s.kinds[i] == PO else nm] = self.named[nm]
    for j, v in enumerate(self.var):
      st[s.vps + j] = v
    st.update(self.extra)
    return st

  # ------------------------------------------------------------ by name
  def _kind_of(self, name):
    s = self.sig
    return s.kinds[s.names.index(name)] if name in s.names else None

  def getattr(self, name):
    k = self._kind_of(name)
    if k in (PO, VP):
      raise ModelError('positional-only / variadic parameter addressed by name')
    if k in (PK, KO):
      if name in self.named:
        return self.named[name]
      i = self.sig.names.index(name)
      if self.sig.hasdef[i]:
        return self.sig.defaults[i]
      raise ModelError('unset parameter without default')
    if name in self.extra:
      return self.extra[name]
    raise ModelError('unknown name')

  def setattr(self, name, v):
    k = self._kind_of(name)
    if k in (PO, VP):
      raise ModelError('positional-only / variadic parameter addressed by name')
    if k in (PK, KO):
      self.named[name] = v
    elif self.sig.vk is not None:
      self.extra[name] = v
    else:
      raise ModelError('unknown name and no **kwargs')

  def delattr(self, name):
    k = self._kind_of(name)
    if k in (PK, KO) and name in self.named:
      del self.named[name]
    elif k in (None, VK) and name in self.extra:
      del self.extra[name]
    else:
      raise ModelError('not set')

  # ------------------------------------------------------------ by position
  def _handle(self, key):
    """fdl.VARARGS denotes the start of the variadic part."""
    def rep(x):
      if x is fdl.VARARGS:
        if self.sig.vps is None:
          raise ModelError('VARARGS without *args')
        return self.sig.npos
      return x
    if isinstance(key, slice):
      return slice(rep(key.start), rep(key.stop), key.step)
    return rep(key)

  def getitem(self, key):
    key = self._handle(key)
    try:
      return self.view()[key]
    except (IndexError, TypeError, ValueError) as e:
      raise ModelError(str(e)) from e

  def _norm(self, i):
    n = self.sig.npos + len(self.var)
    j = i + n if i < 0 else i
    if not 0 <= j < n:
      raise ModelError('index out of range')
    return j

  def _set_pos(self, j, v):
    s = self.sig
    if j < s.npos:
      self.named[s.names[j]] = v
    else:
      self.var[j - s.npos] = v

  def setitem(self, key, value):
    key = self._handle(key)
    s = self.sig
    if isinstance(key, int):
      self._set_pos(self._norm(key), value)
      return
    try:
      value = list(value)
      n = s.npos + len(self.var)
      start, stop, step = key.indices(n)
    except (TypeError, ValueError) as e:
      raise ModelError(str(e)) from e
    rng = range(start, stop, step)
    touches_prefix = (min(rng) < s.npos) if len(rng) else (start < s.npos)
    if s.vps is None or touches_prefix:
      if len(rng) != len(value):
        raise ModelError('length-changing slice over the fixed prefix')
      for j, v in zip(rng, value):
        self._set_pos(j, v)
    else:
      full = [None] * s.npos + list(self.var)
      try:
        full[key] = value
      except ValueError as e:
        raise ModelError(str(e)) from e
      self.var = full[s.npos:]

  def delitem(self, key):
    key = self._handle(key)
    s = self.sig
    if isinstance(key, int):
      idxs = [self._norm(key)]
    else:
      try:
        idxs = list(range(*key.indices(s.npos + len(self.var))))
      except (TypeError, ValueError) as e:
        raise ModelError(str(e)) from e
    dead = set(idxs)
    for j in dead:
      if j < s.npos:
        self.named.pop(s.names[j], None)
    self.var = [v for t, v in enumerate(self.var) if t + s.npos not in dead]


# ---------------------------------------------------------------------------------------
# C01 oracle

MISSING = object()


def expected_binding(model):
  """What the callable must be called with (C01): param -> value / default; *args; **kwargs.

  Returns None if a required parameter is missing (build must raise)."""
  s = model.sig
  bound = []
  for i, nm in enumerate(s.names):
    k = s.kinds[i]
    if k == VP:
      bound.append((nm, tuple(model.var)))
    elif k == VK:
      bound.append((nm, dict(model.extra)))
    elif nm in model.named:
      bound.append((nm, model.named[nm]))
    elif s.hasdef[i]:
      bound.append((nm, s.defaults[i]))
    else:
      return None
  if model.extra and s.vk is None:
    return None
  return tuple(bound)


def direct_call(model, fn):
  """Calls fn directly 'with those arguments' when Python can express the call."""
  s = model.sig
  args, kwargs = [], {}
  positional_needed = bool(model.var)
  last_set_po = max([i for i in range(s.npos) if s.kinds[i] == PO and s.names[i] in model.named],
                    default=-1)
  upto = s.npos if positional_needed else last_set_po + 1
  for i in range(upto):
    nm = s.names[i]
    if nm in model.named:
      args.append(model.named[nm])
    elif s.hasdef[i]:
      args.append(s.defaults[i])
    else:
      raise TypeError('required positional parameter missing')
  for i in range(upto, s.n):
    nm = s.names[i]
    if s.kinds[i] in (PK, KO, PO) and nm in model.named:
      if s.kinds[i] == PO:
        raise AssertionError('unreachable')
      kwargs[nm] = model.named[nm]
  args.extend(model.var)
  kwargs.update(model.extra)
  return fn(*args, **kwargs)
