#!/usr/bin/env bash
# Builds the offline overlay venv: python 3.12 with z3-solver/cvc5/jsonschema from the
# wheelhouse plus a .pth that exposes /venv's site-packages (so the real `fiddle`
# from /repo and its dependencies import in the same interpreter).  Idempotent.
set -euo pipefail
cd "$(dirname "$0")"
V=.venv
if [ -x "$V/bin/python" ] && "$V/bin/python" -c 'import z3, fiddle, jsonschema' 2>/dev/null; then
  exit 0
fi
rm -rf "$V"
/venv/bin/python -m venv "$V"
PIP_NO_INDEX=1 "$V/bin/pip" install -q --no-index --find-links /opt/veriftools/wheels \
  z3-solver cvc5 jsonschema >/dev/null
SP=$("$V/bin/python" -c 'import sysconfig; print(sysconfig.get_paths()["purelib"])')
echo "import site; site.addsitedir('/venv/lib/python3.12/site-packages')" > "$SP/zz_overlay.pth"
"$V/bin/python" -c 'import z3, fiddle, jsonschema; assert fiddle.__file__.startswith("/repo/"), fiddle.__file__'
