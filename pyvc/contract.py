"""Contract objects and the registry (DESIGN.md §2.3).

Contracts are python data living in /verif/contracts/*.py, keyed by locator
(file + dotted qualname) and loop ordinal.  Clauses are python callables that
receive a `Ctx` and return a z3 Bool — the spec-only forms (`old`, `result`,
quantifiers, spec functions) are the attributes of `Ctx` and the helpers of
`pyvc.sorts`.
"""
import z3
from pyvc.sorts import *  # noqa
from pyvc.state import Heap, TupleImm

REGISTRY = {}          # contract id -> Contract
MODULE_GLOBALS = {}    # file -> {global name: engine value}
BY_METHOD = {}         # method / function simple name -> [Contract]


class Loop:
  def __init__(self, inv, mod=None, fields=None, ghost=None, hints=None, pivots=None, facts=None):
    self.facts = facts      # Ctx -> [('unfold'|'lemma', name, term)]: instances, see Contract
    self.pivots = pivots    # Ctx -> [Int terms]: split points for quantified goals
    self.hints = hints      # Ctx -> [z3 Bool]: intermediate facts, each proved, then assumed
    self.inv = inv          # Ctx -> z3 Bool
    self.mod = mod          # Ctx -> [Int ref terms] whose container rows may change; None = all
    self.fields = fields    # field names that may be written (None = syntactic)
    self.ghost = ghost


class Contract:
  def __init__(self, cid, file, qualname, *, requires=None, ensures=None,
               raises=None, raises_post=None, mod=None, writes=(), result='val',
               loops=None, kind='contract', allocates=True, props=(), params=None,
               calls=None, note='', defaults=None, may_raise=(), abstract=False,
               types=None, lemmas=None, defs=None, hints=None, cases=None, recdefs=None,
               facts=None, entry_facts=None, cm=False, enter_ensures=None, exit_post=None,
               exc_rel=None, swallows=None, havoc_all=False, ghost_writes=(), pivots=None,
               may_raise_from=None, desugar=False):
    self.id = cid
    self.file = file
    self.qualname = qualname
    self.requires = requires or (lambda c: z3.BoolVal(True))
    self.ensures = ensures or (lambda c: z3.BoolVal(True))
    self.raises = raises or {}           # exc name -> Ctx(pre) -> Bool  (raised only if)
    self.raises_post = raises_post or {}  # exc name -> Ctx -> Bool (post-state on that exit)
    # desugar=True: comprehensions assigned to a name are rewritten, mechanically and on every
    # run, into the equivalent accumulator loop (see loader.desugar_comprehensions), so that a
    # comprehension whose element expression runs user code can carry a loop invariant
    self.desugar = desugar
    self.may_raise = tuple(may_raise)    # exception class names that may escape, no condition
    # if given: `may_raise` exceptions may only originate from these callee contract ids
    self.may_raise_from = tuple(may_raise_from) if may_raise_from is not None else None
    self.mod = mod or (lambda c: [])
    self.writes = tuple(writes)          # field names whose arrays may change
    self.result = result
    self.loops = loops or {}
    self.kind = kind                     # 'contract' | 'inline'
    self.allocates = allocates
    self.props = tuple(props)            # property ids this contract carries
    self.params = params                 # filled from the AST (or given for abstract ones)
    self.calls = calls or {}             # callee-expression source -> contract id (override)
    self.note = note
    self.defaults = defaults or {}
    self.abstract = abstract             # no body in /repo (assumed contract)
    self.types = types or {}
    self.lemmas = lemmas         # Ctx -> [(name, statement, [proof steps])]
    self.defs = defs             # Ctx -> z3 Bool: definitional axioms of spec functions
    # recursive spec functions and lemmas are never given to the solver as quantified axioms
    # (matching loops); they are used through explicit instances only:
    #   recdefs(c) -> {name: (base fact, unfold(i) -> equation for f(i+1))}
    #   lemmas(c)  -> [(name, P(i), lo, [recdef names unfolded in the induction step])]
    #   facts / entry_facts / Loop.facts -> [('unfold'|'lemma', name, term)]
    self.recdefs = recdefs
    self.facts = facts           # Ctx(exit) -> instances available at every exit
    self.entry_facts = entry_facts
    # generator-based context managers (@contextlib.contextmanager): `raises`/`enter_ensures`
    # describe __enter__; `exit_post(c)` relates c.body (heap when the body finished) to c.heap;
    # `exc_rel(c, E, F)` relates the exception E raised by the body to the escaping exception F
    self.cm = cm
    self.pivots = pivots         # Ctx(exit) -> split points for quantified goals at the exits
    self.ghost_writes = tuple(ghost_writes)   # ghost heap names ('g:...') this contract changes
    self.havoc_all = havoc_all   # the callee may modify any heap location (arbitrary user code)
    self.enter_ensures = enter_ensures
    self.exit_post = exit_post
    self.exc_rel = exc_rel
    self.swallows = swallows     # Ctx, E -> Bool: body exception may be suppressed (default never)
    self.cases = cases           # Ctx(pre) -> [z3 Bool atoms]: exhaustive case split for the solver
    self.hints = hints           # Ctx(post) -> [z3 Bool]: proved, then assumed, at every exit
    REGISTRY[cid] = self
    BY_METHOD.setdefault(qualname.split('.')[-1], []).append(self)


def contract(cid, file, qualname, **kw):
  return Contract(cid, file, qualname, **kw)


class Ctx:
  """What a clause can see: entry values, entry heap, current heap, result."""

  def __init__(self, args, old, heap, result=None, env=None, k=None, exc=None, body=None):
    self.caller = None        # at call sites of abstract callables: the caller's locals
    self.body = body          # Heap right after the with-body finished (context managers)
    self.args = args          # name -> Val term (entry values of the parameters)
    self.old = old            # Heap at function entry
    self.heap = heap          # Heap now (post-state in `ensures`)
    self.result = result
    self.env = env or {}
    self.k = k                # loop counter (Int) in loop invariants
    self.exc = exc

  def __getitem__(self, name):
    return self.args[name]

  def v(self, name):
    return self.env[name]

  def res(self, i=None):
    if i is None:
      return self.result
    assert isinstance(self.result, TupleImm)
    return self.result.items[i]


def lookup_method(name):
  return BY_METHOD.get(name, [])
