"""Locates the verified text: re-reads /repo sources, finds functions by locator,
hashes the segment and (where possible) checks it is the code of the live object."""
import ast
import hashlib
import os
import z3
from pyvc.sorts import *  # noqa
from pyvc import contract as C

REPO = os.environ.get('VERIF_REPO', '/repo')
_cache = {}


def parse_file(rel):
  if rel not in _cache:
    if rel.startswith('@verif/'):
      # lemma clients: small functions kept in /verif that only *call* contracted functions of
      # /repo; what is proved about them is a lemma over those contracts, not a fact about /repo
      path = os.path.join(os.path.dirname(os.path.dirname(os.path.abspath(__file__))), rel[len('@verif/'):])
    else:
      path = os.path.join(REPO, rel)
    src = open(path).read()
    _cache[rel] = (src, ast.parse(src))
  return _cache[rel]


def module_constants(rel):
  """Top-level `NAME = <str/int literal>` assignments of a repo module (engine values)."""
  src, tree = parse_file(rel)
  out = {}
  for node in tree.body:
    if isinstance(node, ast.Assign) and len(node.targets) == 1 and isinstance(node.targets[0], ast.Name) \
        and isinstance(node.value, ast.Constant) and isinstance(node.value.value, (str, int)) \
        and not isinstance(node.value.value, bool):
      v = node.value.value
      out[node.targets[0].id] = strlit(v) if isinstance(v, str) else VInt(z3.IntVal(v))
    elif isinstance(node, ast.Assign) and len(node.targets) == 1 and isinstance(node.targets[0], ast.Name) \
        and isinstance(node.value, (ast.Tuple, ast.Set)) and node.value.elts \
        and all(isinstance(e, ast.Constant) and isinstance(e.value, str) for e in node.value.elts):
      from pyvc.state import TupleImm
      out[node.targets[0].id] = TupleImm([strlit(e.value) for e in node.value.elts])
  return out


def find_function(tree, qualname):
  """qualname: 'Class.method', 'func', 'outer.<locals>.inner'."""
  parts = [p for p in qualname.split('.') if p != '<locals>']
  def search(node, rest):
    if not rest:
      return node if isinstance(node, ast.FunctionDef) else None
    cands = [child for child in (ast.walk(node) if node is not tree else ast.iter_child_nodes(node))
             if isinstance(child, (ast.FunctionDef, ast.ClassDef, ast.AsyncFunctionDef))
             and child.name == rest[0] and child is not node]
    # a name may be defined several times (typing.overload stubs before the real definition): the
    # later definitions win at run time, and only the real one contains the nested function
    def is_stub(n):
      for d in getattr(n, 'decorator_list', []):
        nm = d.attr if isinstance(d, ast.Attribute) else (d.id if isinstance(d, ast.Name) else None)
        if nm in ('overload', 'setter', 'deleter'):
          return True
      return False
    real = [c_ for c_ in cands if not is_stub(c_)] or cands
    for cand in reversed(real):
      hit = search(cand, rest[1:])
      if hit is not None:
        return hit
    return None
  return search(tree, parts)


def segment_hash(rel, node):
  src, _ = parse_file(rel)
  seg = ast.get_source_segment(src, node) or ''
  return hashlib.sha256(seg.encode()).hexdigest()[:16], node.lineno, node.end_lineno


def const_default(node):
  """Default value of a parameter (only constants and well-known names)."""
  from pyvc.state import TupleImm
  if isinstance(node, ast.Constant):
    v = node.value
    if isinstance(v, bool):
      return VBool(z3.BoolVal(v))
    if isinstance(v, int):
      return VInt(z3.IntVal(v))
    if v is None:
      return VNone
    if isinstance(v, str):
      return strlit(v)
  if isinstance(node, ast.Name) and node.id == 'NO_VALUE':
    return NO_VALUE
  return None


def desugar_comprehensions(fn):
  """`X = tuple(E for T in S)` / `X = [E for T in S]`  ->  `_c = []; for T in S: _c.append(E); X = tuple(_c)`
  and `X = {K: V for T in S}`  ->  `_c = {}; for T in S: _c[K] = V; X = _c`  (single generator, no
  condition).  Evaluation order and effects are those of the comprehension (a comprehension
  evaluates S once and E per element, left to right; tuple() consumes the generator at once);
  the comprehension's private scope for T is dropped, which only matters if T shadows a name used
  later — checked and rejected."""
  import copy as _copy
  fn = _copy.deepcopy(fn)
  counter = [0]
  def free_loads(node, bound=frozenset()):
    """Names read in `node` that are not bound by an enclosing comprehension of `node`."""
    out = set()
    if isinstance(node, (ast.ListComp, ast.SetComp, ast.GeneratorExp, ast.DictComp)):
      b = set(bound)
      for g_ in node.generators:
        out |= free_loads(g_.iter, frozenset(b))
        b |= {n.id for n in ast.walk(g_.target) if isinstance(n, ast.Name)}
        for c_ in g_.ifs:
          out |= free_loads(c_, frozenset(b))
      for part in ([node.key, node.value] if isinstance(node, ast.DictComp) else [node.elt]):
        out |= free_loads(part, frozenset(b))
      return out
    if isinstance(node, ast.Name):
      return {node.id} if isinstance(node.ctx, ast.Load) and node.id not in bound else set()
    for ch in ast.iter_child_nodes(node):
      out |= free_loads(ch, bound)
    return out
  later_names = lambda stmts: set().union(*[free_loads(s_) for s_ in stmts]) if stmts else set()
  def rewrite(stmts):
    out = []
    for idx, s_ in enumerate(stmts):
      for fld in ('body', 'orelse', 'finalbody'):
        if hasattr(s_, fld) and isinstance(getattr(s_, fld), list) and not isinstance(s_, ast.FunctionDef):
          setattr(s_, fld, rewrite(getattr(s_, fld)))
      v = s_.value if isinstance(s_, ast.Assign) and len(s_.targets) == 1 else None
      comp = None
      wrap = None
      if isinstance(v, ast.Call) and isinstance(v.func, ast.Name) and v.func.id in ('tuple', 'list') \
          and len(v.args) == 1 and not v.keywords and isinstance(v.args[0], ast.GeneratorExp):
        comp, wrap = v.args[0], v.func.id
      elif isinstance(v, (ast.ListComp, ast.DictComp)):
        comp = v
      if comp is None or len(comp.generators) != 1 or comp.generators[0].ifs or comp.generators[0].is_async:
        out.append(s_)
        continue
      g = comp.generators[0]
      tnames = {n.id for n in ast.walk(g.target) if isinstance(n, ast.Name)}
      tgt_names = {n.id for n in ast.walk(s_.targets[0]) if isinstance(n, ast.Name)}
      if (tnames - tgt_names) & later_names(stmts[idx + 1:]):
        raise LookupError('comprehension variable is used after the comprehension: not desugared')
      acc = f'_comp{counter[0]}'
      counter[0] += 1
      accn = lambda ctx: ast.Name(id=acc, ctx=ctx)
      if isinstance(comp, ast.DictComp):
        init = ast.Assign(targets=[accn(ast.Store())], value=ast.Dict(keys=[], values=[]))
        body = ast.Assign(targets=[ast.Subscript(value=accn(ast.Load()), slice=comp.key, ctx=ast.Store())],
                          value=comp.value)
        fin = ast.Assign(targets=s_.targets, value=accn(ast.Load()))
      else:
        init = ast.Assign(targets=[accn(ast.Store())], value=ast.List(elts=[], ctx=ast.Load()))
        body = ast.Expr(value=ast.Call(func=ast.Attribute(value=accn(ast.Load()), attr='append', ctx=ast.Load()),
                                       args=[comp.elt], keywords=[]))
        fin_v = accn(ast.Load()) if wrap in (None, 'list') else ast.Call(
            func=ast.Name(id='tuple', ctx=ast.Load()), args=[accn(ast.Load())], keywords=[])
        fin = ast.Assign(targets=s_.targets, value=fin_v)
      loop = ast.For(target=g.target, iter=g.iter, body=[body], orelse=[])
      for n_ in (init, loop, fin):
        ast.copy_location(n_, s_)
        for sub in ast.walk(n_):
          if not hasattr(sub, 'lineno'):
            ast.copy_location(sub, s_)
        ast.fix_missing_locations(n_)
      # the target of the loop is a Store context
      for n_ in ast.walk(loop.target):
        if hasattr(n_, 'ctx'):
          n_.ctx = ast.Store()
      out += [init, loop, fin]
    return out
  fn.body = rewrite(fn.body)
  return fn


def bind_ast(ctr):
  """Fills params / defaults / node of a contract from the real AST."""
  if ctr.abstract:
    return None
  src, tree = parse_file(ctr.file)
  node = find_function(tree, ctr.qualname)
  if node is None:
    raise LookupError(f'{ctr.id}: function {ctr.qualname} not found in {ctr.file}')
  a = node.args
  pos = a.posonlyargs + a.args
  params = [x.arg for x in pos]
  defaults = {}
  for x, d in zip(pos[len(pos) - len(a.defaults):], a.defaults):
    v = const_default(d)
    if v is not None:
      defaults[x.arg] = v
  for x, d in zip(a.kwonlyargs, a.kw_defaults):
    params.append(x.arg)
    if d is not None:
      v = const_default(d)
      if v is not None:
        defaults[x.arg] = v
  if a.vararg or a.kwarg:
    ctr.has_var = True
  ctr.is_static = any(isinstance(d, ast.Name) and d.id == 'staticmethod' for d in node.decorator_list)
  ctr.is_classmethod = any(isinstance(d, ast.Name) and d.id == 'classmethod' for d in node.decorator_list)
  ctr.params = params
  dd = dict(defaults)
  dd.update(ctr.defaults)
  ctr.defaults = dd
  ctr.hash, ctr.lineno, ctr.end_lineno = segment_hash(ctr.file, node)    # hash of the real text
  if getattr(ctr, 'desugar', False):
    node = desugar_comprehensions(node)
  ctr.node = node
  return node


def live_check(ctr):
  """The live object's source equals the verified segment (DESIGN §2.1)."""
  import importlib
  import inspect
  import textwrap
  if ctr.file.startswith('@verif/'):
    return 'lemma'
  mod = importlib.import_module(ctr.file[:-3].replace('/', '.'))
  obj = mod
  try:
    for p in ctr.qualname.split('.'):
      if p == '<locals>':
        return 'nested'
      obj = inspect.getattr_static(obj, p) if not inspect.ismodule(obj) else getattr(obj, p)
  except AttributeError:
    return 'missing'
  while isinstance(obj, (staticmethod, classmethod, property)):
    obj = obj.fget if isinstance(obj, property) else obj.__func__
  obj = inspect.unwrap(obj) if callable(obj) else obj
  try:
    live = textwrap.dedent(inspect.getsource(obj))
  except (OSError, TypeError):
    return 'nosource'
  src, _ = parse_file(ctr.file)
  seg = textwrap.dedent('\n'.join(src.splitlines()[ctr.node.lineno - 1 - len(ctr.node.decorator_list) if False else ctr.node.lineno - 1:ctr.node.end_lineno]))
  live_body = live[live.index('def '):] if 'def ' in live else live
  seg_body = seg[seg.index('def '):] if 'def ' in seg else seg
  return 'same' if live_body.strip() == seg_body.strip() else 'DIFFERENT'
