"""Expression evaluation of the pyvc symbolic executor."""
import ast
import z3
from pyvc.sorts import *  # noqa
from pyvc.sorts import _forall as SAFE_FORALL
from pyvc.state import *  # noqa

comp_ref = z3.Function('comp_ref', I, I, Val, I)   # fresh container of a comprehension, per key
EMPTY_STR = strlit('')


def is_none_literal(v):
  return z3.is_app(v) and v.decl().eq(VNone.decl())

obj_truth = z3.Function('obj_truth', I, B)          # user-defined __bool__ of opaque objects
user_eq = z3.Function('user_eq', I, I, B)           # user-defined __eq__ on opaque objects
KIND_NAMES = {'POSITIONAL_ONLY': PO, 'POSITIONAL_OR_KEYWORD': PK, 'VAR_POSITIONAL': VP,
              'KEYWORD_ONLY': KO, 'VAR_KEYWORD': VK}
DICTLIKE = ('dict', 'set', 'frozenset')
SEQLIKE = ('list', 'tuple')
TYPE_NAMES = {'int', 'str', 'bool', 'slice', 'dict', 'list', 'tuple', 'set', 'frozenset',
              'object', 'type', 'float', 'bytes', 'Sequence', 'Dict'}

# fields that are read raw (instance __dict__) even on a Buildable
BUILDABLE_INTERNALS = {'__fn_or_cls__', '__arguments__', '__argument_history__',
                       '__argument_tags__', '__signature_info__'}


class ExprMixin:

  # ---------------------------------------------------------------- plumbing
  def ev(self, e, st):
    m = getattr(self, 'ex_' + type(e).__name__, None)
    if m is None:
      self.unsupp(f'expression {type(e).__name__}', e)
    return m(e, st)

  def ev_list(self, es, st):
    """Evaluates expressions left to right; Res.val is the list of values."""
    results = [Res(st, [])]
    for e in es:
      nxt = []
      for r in results:
        if r.exc is not None:
          nxt.append(r)
          continue
        for r2 in self.ev(e, r.st):
          if r2.exc is not None:
            nxt.append(r2)
          else:
            nxt.append(Res(r2.st, r.val + [r2.val]))
      results = nxt
    return results

  def then(self, results, k):
    out = []
    for r in results:
      if r.exc is not None:
        out.append(r)
      else:
        out.extend(k(r.st, r.val))
    return out

  def exc_res(self, st, name, origin=None):
    return Res(st, exc=Exc(name, origin=origin))

  # ---------------------------------------------------------------- coercions
  def truthy(self, v, st):
    if isinstance(v, bool):
      return z3.BoolVal(v)
    if isinstance(v, TupleImm):
      return z3.BoolVal(len(v.items) > 0)
    if isinstance(v, SeqView):
      return v.length > 0
    if isinstance(v, ParamMap):
      return sig_n(v.g) > 0
    if isinstance(v, Abstract):
      return z3.BoolVal(True)
    vs = z3.simplify(v)
    if z3.is_app(vs) and vs.decl().eq(VBool):
      return vs.arg(0)
    # a value known to be a bool needs no case analysis over the other value classes
    if not z3.is_true(z3.simplify(is_VBool(v))) and not self.feasible(st, z3.Not(is_VBool(v))):
      return bval(v)
    if is_none_literal(vs):
      return z3.BoolVal(False)
    h = st.heap
    r = ref(v)
    c = h.cls(r)
    kk = z3.Const('tr_k', Val)
    ref_truth = z3.If(
        z3.Or([cls_in(c, n) for n in SEQLIKE]), h.len(r) > 0,
        z3.If(z3.Or([cls_in(c, n) for n in DICTLIKE]),
              z3.Exists([kk], h.hasarr(r)[kk]),
              z3.If(z3.Or(cls_in(c, 'Buildable'), cls_in(c, 'function')), z3.BoolVal(True),
                    obj_truth(r))))
    return z3.If(is_VBool(v), bval(v),
                 z3.If(is_VInt(v), ival(v) != 0,
                       z3.If(is_VNone(v), z3.BoolVal(False),
                             z3.If(is_VStr(v), sval(v) != sval(EMPTY_STR),
                                   z3.If(is_VParam(v), z3.BoolVal(True), ref_truth)))))

  def int_of(self, v):
    """Int term of an int-like value (bool counts as 0/1)."""
    return z3.If(is_VBool(v), z3.If(bval(v), z3.IntVal(1), z3.IntVal(0)), ival(v))

  def is_intlike(self, v):
    return z3.Or(is_VInt(v), is_VBool(v))

  def with_int(self, v, st, k, what='int operand'):
    """Forks: int-like -> k(st, Int term); otherwise TypeError."""
    out = []
    for st2, side in self.fork(st, self.is_intlike(v)):
      if side:
        out.extend(k(st2, self.int_of(v)))
      else:
        out.append(self.exc_res(st2, 'TypeError', origin=what))
    return out

  def py_eq(self, a, b, st):
    """z3 Bool for `a == b` (no user code forks; _Placeholder.__eq__ inlined)."""
    if isinstance(a, Abstract) or isinstance(b, Abstract):
      if isinstance(a, TypeObj) and isinstance(b, TypeObj):
        return z3.BoolVal(a.name == b.name)
      if isinstance(a, TupleImm) and isinstance(b, TupleImm):
        if len(a.items) != len(b.items):
          return z3.BoolVal(False)
        return z3.And([self.py_eq(x, y, st) for x, y in zip(a.items, b.items)])
      raise Unsupported('== on abstract values')
    h = st.heap
    ra, rb = ref(a), ref(b)
    both_ph = z3.And(cls_is(h.cls(ra), '_Placeholder'), cls_is(h.cls(rb), '_Placeholder'))
    ref_eq = z3.If(both_ph,
                   h.fld(ra, 'index') == h.fld(rb, 'index'),
                   z3.Or(ra == rb, user_eq(ra, rb)))
    num = z3.And(self.is_intlike(a), self.is_intlike(b))
    return z3.If(num, self.int_of(a) == self.int_of(b),
                 z3.If(z3.And(is_VRef(a), is_VRef(b)), ref_eq, a == b))

  # ---------------------------------------------------------------- atoms
  def ex_Constant(self, e, st):
    v = e.value
    if isinstance(v, bool):
      return [Res(st, VBool(z3.BoolVal(v)))]
    if isinstance(v, int):
      return [Res(st, VInt(z3.IntVal(v)))]
    if isinstance(v, str):
      return [Res(st, strlit(v))]
    if v is None:
      return [Res(st, VNone)]
    if v is Ellipsis:
      return [Res(st, singleton('Ellipsis'))]
    self.unsupp(f'constant {v!r}', e)

  GLOBAL_SINGLETONS = {
      'NO_VALUE': NO_VALUE, 'VARARGS': VARARGS, '_UNSET_SENTINEL': UNSET_SENTINEL,
      'tagged_value_fn': TAGGED_VALUE_FN,
      '_tracking_state': TRACKING_STATE, '_set_counter': SET_COUNTER, '_state': BUILD_STATE,
      'DELETED': DELETED,
  }
  MODULES = {'daglish', 'history', 'signatures', 'copy', 'collections', 'dataclasses',
             'functools', 'inspect', 'tag_type', 'config', 'config_lib', 'logging',
             'itertools', 'threading', 'importlib', 'mutate_buildable', 'tagging',
             'building', 'reraised_exception', 'arg_factory', 'partial', 'typing',
             'types', 'sys', 'abc', 'traceback', 'os', 're', 'json', 'enum', 'utils', 'epath',
             'serialization', 'auto_config', 'special_overrides', 'importlib', 'printing'}

  def ex_Name(self, e, st):
    n = e.id
    if n in st.env:
      return [Res(st, st.env[n])]
    if n in self.module_globals:
      return [Res(st, self.module_globals[n])]
    if n in self.GLOBAL_SINGLETONS:
      return [Res(st, self.GLOBAL_SINGLETONS[n])]
    if n in CLASSES or n in TYPE_NAMES:
      return [Res(st, TypeObj(n))]
    if n in self.MODULES:
      return [Res(st, ModuleObj(n))]
    return [Res(st, BuiltinFn(n))]     # resolved (or rejected) at the call

  def ex_Tuple(self, e, st):
    if any(isinstance(x, ast.Starred) for x in e.elts):
      self.unsupp('starred tuple', e)
    return self.then(self.ev_list(e.elts, st), lambda st2, vals: [Res(st2, TupleImm(vals))])

  def ex_List(self, e, st):
    def k(st2, vals):
      st3, r = self.new_list(st2, vals)
      return [Res(st3, VRef(r))]
    return self.then(self.ev_list(e.elts, st), k)

  def ex_Dict(self, e, st):
    if any(k is None for k in e.keys):
      self.unsupp('dict unpacking', e)
    def k(st2, vals):
      n = len(e.keys)
      st3, r = st2.alloc('dict')
      has = z3.K(Val, z3.BoolVal(False))
      dv = st3.heap.valarr(r)
      for kk, vv in zip(vals[:n], vals[n:]):
        has = z3.Store(has, kk, True)
        dv = z3.Store(dv, kk, self.need_val(vv, e))
      st3 = st3.hset('dhas', z3.Store(st3.heap.get('dhas'), r, has))
      st3 = st3.hset('dval', z3.Store(st3.heap.get('dval'), r, dv))
      return [Res(st3, VRef(r))]
    return self.then(self.ev_list(list(e.keys) + list(e.values), st), k)

  # comprehensions: summaries with a quantified post (DESIGN §2.2) ---------------------------
  def ex_DictComp(self, e, st):
    """{k: wrap(v) for k, v in d.items() [if v]} with wrap in set/frozenset/list/tuple: a fresh
    dict holding one fresh container per (selected) key, with the same members."""
    from pyvc.calls import trusted
    if len(e.generators) != 1:
      self.unsupp('nested comprehension', e)
    g = e.generators[0]
    ok = (isinstance(g.target, ast.Tuple) and len(g.target.elts) == 2
          and all(isinstance(x, ast.Name) for x in g.target.elts)
          and isinstance(g.iter, ast.Call) and isinstance(g.iter.func, ast.Attribute)
          and g.iter.func.attr == 'items' and not g.iter.args
          and isinstance(e.key, ast.Name) and e.key.id == g.target.elts[0].id
          and isinstance(e.value, ast.Call) and isinstance(e.value.func, ast.Name)
          and e.value.func.id in ('set', 'frozenset', 'list', 'tuple')
          and len(e.value.args) == 1 and isinstance(e.value.args[0], ast.Name)
          and e.value.args[0].id == g.target.elts[1].id
          and len(g.ifs) <= 1
          and all(isinstance(c, ast.Name) and c.id == g.target.elts[1].id for c in g.ifs))
    # second form: {k: v for k, v in d.items() if isinstance(k, str)} (filter by key type)
    filt = (isinstance(g.target, ast.Tuple) and len(g.target.elts) == 2
            and all(isinstance(x, ast.Name) for x in g.target.elts)
            and isinstance(g.iter, ast.Call) and isinstance(g.iter.func, ast.Attribute)
            and g.iter.func.attr == 'items' and not g.iter.args
            and isinstance(e.key, ast.Name) and e.key.id == g.target.elts[0].id
            and isinstance(e.value, ast.Name) and e.value.id == g.target.elts[1].id
            and len(g.ifs) == 1 and isinstance(g.ifs[0], ast.Call)
            and isinstance(g.ifs[0].func, ast.Name) and g.ifs[0].func.id == 'isinstance'
            and len(g.ifs[0].args) == 2 and isinstance(g.ifs[0].args[0], ast.Name)
            and g.ifs[0].args[0].id == g.target.elts[0].id
            and isinstance(g.ifs[0].args[1], ast.Name) and g.ifs[0].args[1].id in ('str', 'int'))
    if filt:
      from pyvc.calls import trusted
      trusted('dict comprehension {k: v for k, v in d.items() if isinstance(k, T)}: filtered copy')
      tname = g.ifs[0].args[1].id
      def kf(st2, src):
        h = st2.heap
        s = ref(src)
        if self.feasible_full(st2, z3.Not(z3.And(is_VRef(src), cls_in(h.cls(s), 'dict')))):
          self.unsupp('dict comprehension over a value that may not be a dict', e)
        kk = z3.Const('dcf_k', Val)
        newhas = fresh('dcf_has', HasArr)
        keep = is_VStr(kk) if tname == 'str' else z3.Or(is_VInt(kk), is_VBool(kk))
        fact = SAFE_FORALL([kk], newhas[kk] == z3.And(h.has(s, kk), keep), patterns=[newhas[kk]])
        st3, d = self.new_dict(st2.assume(fact), 'dict', has=newhas, val=h.valarr(s))
        return [Res(st3, VRef(d))]
      return self.then(self.ev(g.iter.func.value, st), kf)
    if not ok:
      self.unsupp('dict comprehension outside the summarised forms', e)
    wrap = e.value.func.id
    trusted('dict comprehension {k: %s(v) for k, v in d.items()}: one fresh %s per key' % (wrap, wrap))
    def k(st2, src):
      return self.dictcomp_summary(src, wrap, bool(g.ifs), st2, e)
    return self.then(self.ev(g.iter.func.value, st), k)

  def dictcomp_summary(self, src, wrap, filtered, st, node):
    from pyvc.state import cls_fn
    h = st.heap
    s = ref(src)
    if self.feasible_full(st, z3.Not(z3.And(is_VRef(src), cls_in(h.cls(s), 'dict')))):
      self.unsupp('dict comprehension over a value that may not be a dict', node)
    site = z3.IntVal(node.lineno * 1000 + node.col_offset)
    a0 = h.alloc
    kk = z3.Const('dc_k', Val)
    k2 = z3.Const('dc_k2', Val)
    setlike = wrap in ('set', 'frozenset')
    clsname = {'set': 'set', 'frozenset': 'set', 'list': 'list', 'tuple': 'tuple'}[wrap]
    cref = lambda x: comp_ref(site, a0, x)
    # the fresh dict itself, then a block of fresh containers (one per key)
    st1, d = self.new_dict(st, 'dict')
    h1 = st1.heap
    na = fresh('dc_alloc', I)
    sv = h.dget(s, kk)
    if setlike:
      truth = z3.Exists([k2], h.hasarr(ref(sv))[k2])
    else:
      truth = h.len(ref(sv)) > 0
    sel = z3.And(h.has(s, kk), truth) if filtered else h.has(s, kk)
    newhas = fresh('dc_has', HasArr)
    newval = fresh('dc_val', ValMap)
    facts = [na >= h1.alloc,
             SAFE_FORALL([kk], newhas[kk] == sel, patterns=[newhas[kk]]),
             SAFE_FORALL([kk], z3.Implies(newhas[kk], z3.And(
                 newval[kk] == VRef(cref(kk)), cref(kk) >= h1.alloc, cref(kk) < na,
                 cls_fn(cref(kk)) == z3.IntVal(CLASSES[clsname]))), patterns=[newval[kk]]),
             SAFE_FORALL([kk, k2], z3.Implies(z3.And(newhas[kk], newhas[k2], kk != k2),
                                            cref(kk) != cref(k2)),
                       patterns=[z3.MultiPattern(cref(kk), cref(k2))])]
    r = z3.Int('dc_r')
    newh = h1
    for arr in ('dhas', 'dval', 'llen', 'lelt'):
      old = h1.get(arr)
      new = fresh('dc_' + arr, heap_sort(arr))
      facts.append(SAFE_FORALL([r], z3.Implies(r < h1.alloc, new[r] == old[r]), patterns=[new[r]]))
      newh = newh.set(arr, new)
    # contents of the fresh containers
    if setlike:
      facts.append(SAFE_FORALL([kk], z3.Implies(newhas[kk],
                                              newh.get('dhas')[cref(kk)] == h.hasarr(ref(sv))),
                             patterns=[newh.get('dhas')[cref(kk)]]))
    else:
      facts.append(SAFE_FORALL([kk], z3.Implies(newhas[kk], z3.And(
          newh.get('llen')[cref(kk)] == h.len(ref(sv)),
          newh.get('lelt')[cref(kk)] == h.eltarr(ref(sv)))),
          patterns=[newh.get('llen')[cref(kk)]]))
    newh = newh.set('alloc', na)
    # the rows of the fresh dict d are preserved by the frame facts above (d < h1.alloc): set them
    newh = newh.set('dhas', z3.Store(newh.get('dhas'), d, newhas))
    newh = newh.set('dval', z3.Store(newh.get('dval'), d, newval))
    # the source values must be containers of the right kind (else TypeError in CPython)
    st2 = st1.with_heap(newh).assume(*facts)
    return [Res(st2, VRef(d))]

  def ex_ListComp(self, e, st):
    """[Cls(i) for i in range(n)] for a one-field record class: a fresh list of n fresh, pairwise
    distinct records with field = i (summary with a quantified post)."""
    from pyvc.calls import DATACLASSES, trusted
    from pyvc.state import cls_fn
    g = e.generators[0] if len(e.generators) == 1 else None
    ok = (g is not None and not g.ifs and isinstance(g.target, ast.Name)
          and isinstance(g.iter, ast.Call) and isinstance(g.iter.func, ast.Name)
          and g.iter.func.id == 'range' and len(g.iter.args) == 1
          and isinstance(e.elt, ast.Call) and isinstance(e.elt.func, ast.Name)
          and e.elt.func.id in DATACLASSES and len(DATACLASSES[e.elt.func.id]) == 1
          and len(e.elt.args) == 1 and isinstance(e.elt.args[0], ast.Name)
          and e.elt.args[0].id == g.target.id and not e.elt.keywords)
    if not ok:
      self.unsupp('list comprehension outside the summarised forms', e)
    clsname = e.elt.func.id
    field = DATACLASSES[clsname][0]
    trusted('list comprehension [%s(i) for i in range(n)]: n fresh records' % clsname)
    def k(st2, nval):
      def k2(st3, n):
        h = st3.heap
        site = z3.IntVal(e.lineno * 1000 + e.col_offset)
        a0 = h.alloc
        i, j = z3.Ints('lc_i lc_j')
        rec = lambda x: comp_ref(site, a0, VInt(x))
        st4, l = self.new_list_from(st3, z3.If(n > 0, n, 0), fresh('lc_arr', ValArr))
        h4 = st4.heap
        arr = h4.eltarr(l)
        na = fresh('lc_alloc', I)
        newf = fresh('lc_f_' + field, ValArr)
        oldf = h4.get('f:' + field)
        r = z3.Int('lc_r')
        facts = [na >= h4.alloc,
                 SAFE_FORALL([i], z3.Implies(z3.And(0 <= i, i < n), z3.And(
                     arr[i] == VRef(rec(i)), rec(i) >= h4.alloc, rec(i) < na,
                     cls_fn(rec(i)) == z3.IntVal(CLASSES[clsname]), newf[rec(i)] == VInt(i))),
                             patterns=[arr[i]]),
                 SAFE_FORALL([i, j], z3.Implies(z3.And(0 <= i, i < j, j < n), rec(i) != rec(j)),
                             patterns=[z3.MultiPattern(rec(i), rec(j))]),
                 SAFE_FORALL([r], z3.Implies(r < h4.alloc, newf[r] == oldf[r]), patterns=[newf[r]])]
        h5 = h4.set('alloc', na).set('f:' + field, newf)
        return [Res(st4.with_heap(h5).assume(*facts), VRef(l))]
      return self.with_int(nval, st2, k2, 'range arg')
    return self.then(self.ev(g.iter.args[0], st), k)

  def ex_JoinedStr(self, e, st):
    # contents of f-strings are abstracted to an opaque string (DESIGN §2.1)
    return [Res(st, VStr(fresh('fstr', I)))]

  def ex_Lambda(self, e, st):
    return [Res(st, Closure(e, dict(st.env)))]

  def need_val(self, v, node=None):
    if z3.is_expr(v):
      return v
    raise Unsupported(f'abstract value {type(v).__name__} stored in the heap '
                      f'(line {getattr(node, "lineno", None)})')

  def new_list(self, st, vals, clsname='list'):
    st2, r = st.alloc(clsname)
    arr = st2.heap.eltarr(r)
    for i, v in enumerate(vals):
      arr = z3.Store(arr, z3.IntVal(i), self.need_val(v))
    st2 = st2.hset('llen', z3.Store(st2.heap.get('llen'), r, z3.IntVal(len(vals))))
    st2 = st2.hset('lelt', z3.Store(st2.heap.get('lelt'), r, arr))
    return st2, r

  def new_list_from(self, st, length, eltarr, clsname='list'):
    st2, r = st.alloc(clsname)
    st2 = st2.hset('llen', z3.Store(st2.heap.get('llen'), r, length))
    st2 = st2.hset('lelt', z3.Store(st2.heap.get('lelt'), r, eltarr))
    return st2, r

  def new_dict(self, st, clsname='dict', has=None, val=None):
    st2, r = st.alloc(clsname)
    st2 = st2.hset('dhas', z3.Store(st2.heap.get('dhas'), r,
                                    has if has is not None else z3.K(Val, z3.BoolVal(False))))
    if val is not None:
      st2 = st2.hset('dval', z3.Store(st2.heap.get('dval'), r, val))
    return st2, r

  # ---------------------------------------------------------------- operators
  def ex_BoolOp(self, e, st):
    is_and = isinstance(e.op, ast.And)
    def go(i, st):
      rs = self.ev(e.values[i], st)
      if i == len(e.values) - 1:
        return rs
      def k(st2, v):
        out = []
        for st3, side in self.fork(st2, self.truthy(v, st2)):
          if side == is_and:
            out.extend(go(i + 1, st3))
          else:
            out.append(Res(st3, v))
        return out
      return self.then(rs, k)
    return go(0, st)

  def ex_UnaryOp(self, e, st):
    def k(st2, v):
      if isinstance(e.op, ast.Not):
        return [Res(st2, VBool(z3.Not(self.truthy(v, st2))))]
      if isinstance(e.op, ast.USub):
        return self.with_int(v, st2, lambda st3, i: [Res(st3, VInt(-i))], 'unary minus')
      self.unsupp('unary op', e)
    return self.then(self.ev(e.operand, st), k)

  def ex_IfExp(self, e, st):
    def k(st2, v):
      out = []
      for st3, side in self.fork(st2, self.truthy(v, st2)):
        out.extend(self.ev(e.body if side else e.orelse, st3))
      return out
    return self.then(self.ev(e.test, st), k)

  def ex_BinOp(self, e, st):
    def k(st2, vals):
      a, b = vals
      return self.binop(e.op, a, b, st2, e)
    return self.then(self.ev_list([e.left, e.right], st), k)

  def binop(self, op, a, b, st, node):
    if isinstance(a, Abstract) or isinstance(b, Abstract):
      self.unsupp('binary op on abstract values', node)
    if isinstance(op, ast.BitOr):
      # set | set: a fresh set with the union of the members
      h = st.heap
      both = z3.And(is_VRef(a), is_VRef(b), cls_in(h.cls(ref(a)), 'set'), cls_in(h.cls(ref(b)), 'set'))
      if self.feasible_full(st, z3.Not(both)):
        self.unsupp('| on values that may not both be sets', node)
      k_ = z3.Const('su_k', Val)
      newhas = fresh('union_has', HasArr)
      ha, hb = h.hasarr(ref(a)), h.hasarr(ref(b))
      fact = SAFE_FORALL([k_], newhas[k_] == z3.Or(ha[k_], hb[k_]), patterns=[newhas[k_], ha[k_], hb[k_]])
      st2, r = self.new_dict(st.assume(fact), 'set', has=newhas)
      return [Res(st2, VRef(r))]
    out = []
    ints = z3.And(self.is_intlike(a), self.is_intlike(b))
    strs = z3.And(is_VStr(a), is_VStr(b))
    for st2, side in self.fork(st, ints):
      if side:
        x, y = self.int_of(a), self.int_of(b)
        if isinstance(op, ast.Add):
          out.append(Res(st2, VInt(x + y)))
        elif isinstance(op, ast.Sub):
          out.append(Res(st2, VInt(x - y)))
        elif isinstance(op, ast.Mult):
          out.append(Res(st2, VInt(x * y)))
        else:
          self.unsupp('integer operator', node)
      else:
        for st3, side2 in self.fork(st2, strs):
          if side2 and isinstance(op, ast.Add):
            out.append(Res(st3, VStr(fresh('concat', I))))
          elif side2 and isinstance(op, ast.Mod):
            out.append(Res(st3, VStr(fresh('fmt', I))))
          else:
            lists = z3.And(is_VRef(a), is_VRef(b),
                           cls_in(st3.heap.cls(ref(a)), 'list'), cls_in(st3.heap.cls(ref(b)), 'list'))
            for st4, side3 in self.fork(st3, lists):
              if side3 and isinstance(op, ast.Add):
                out.append(self.list_concat(a, b, st4))
              else:
                if self.feasible(st4, z3.Or(is_VRef(a), is_VRef(b))) and not side3:
                  # opaque user objects: operator overloading is outside the subset
                  if self.feasible(st4, z3.And(z3.Or(is_VRef(a), is_VRef(b)),
                                               z3.Not(z3.Or(is_VNone(a), is_VNone(b))))):
                    self.unsupp('binary operator on opaque objects', node)
                out.append(self.exc_res(st4, 'TypeError', origin=f'binop@{node.lineno}'))
    return out

  def list_concat(self, a, b, st):
    h = st.heap
    ra, rb = ref(a), ref(b)
    i = z3.Int('lc_i')
    arr = fresh('cat', ValArr)
    fact = SAFE_FORALL([i], arr[i] == z3.If(i < h.len(ra), h.elt(ra, i), h.elt(rb, i - h.len(ra))),
                     patterns=[arr[i]])
    st2, r = self.new_list_from(st.assume(fact), h.len(ra) + h.len(rb), arr)
    return Res(st2, VRef(r))

  def ex_Compare(self, e, st):
    operands = [e.left] + list(e.comparators)
    def k(st2, vals):
      results = [Res(st2, z3.BoolVal(True))]
      for i, op in enumerate(e.ops):
        nxt = []
        for r in results:
          if r.exc is not None:
            nxt.append(r)
            continue
          for r2 in self.compare(op, vals[i], vals[i + 1], r.st, e):
            if r2.exc is not None:
              nxt.append(r2)
            else:
              nxt.append(Res(r2.st, z3.And(r.val, r2.val)))
        results = nxt
      return [r if r.exc is not None else Res(r.st, VBool(z3.simplify(r.val))) for r in results]
    return self.then(self.ev_list(operands, st), k)

  def compare(self, op, a, b, st, node):
    """Returns [Res(st, z3 Bool)]."""
    if isinstance(op, (ast.Is, ast.IsNot)):
      if isinstance(a, Abstract) or isinstance(b, Abstract):
        if isinstance(a, TypeOf) or isinstance(b, TypeOf):
          t = self.type_identity(a, b, st, node)
        elif isinstance(a, TypeObj) and isinstance(b, TypeObj):
          t = z3.BoolVal(a.name == b.name)
        elif isinstance(a, Abstract) != isinstance(b, Abstract):
          t = z3.BoolVal(False)
        else:
          self.unsupp('identity of abstract values', node)
      else:
        t = a == b
      return [Res(st, t if isinstance(op, ast.Is) else z3.Not(t))]
    if isinstance(op, (ast.Eq, ast.NotEq)):
      t = self.py_eq(a, b, st)
      return [Res(st, t if isinstance(op, ast.Eq) else z3.Not(t))]
    if isinstance(op, (ast.In, ast.NotIn)):
      rs = self.contains(b, a, st, node)
      if isinstance(op, ast.In):
        return rs
      return [r if r.exc is not None else Res(r.st, z3.Not(r.val)) for r in rs]
    # ordering
    if isinstance(a, Abstract) or isinstance(b, Abstract):
      self.unsupp('ordering of abstract values', node)
    out = []
    ints = z3.And(self.is_intlike(a), self.is_intlike(b))
    for st2, side in self.fork(st, ints):
      if side:
        x, y = self.int_of(a), self.int_of(b)
        t = {ast.Lt: x < y, ast.LtE: x <= y, ast.Gt: x > y, ast.GtE: x >= y}[type(op)]
        out.append(Res(st2, t))
      else:
        # None / object vs int -> TypeError; str vs str is outside the subset
        if self.feasible(st2, z3.And(is_VStr(a), is_VStr(b))):
          self.unsupp('string ordering', node)
        if self.feasible(st2, z3.And(is_VRef(a), is_VRef(b))):
          self.unsupp('ordering of objects', node)
        out.append(self.exc_res(st2, 'TypeError', origin=f'compare@{node.lineno}'))
    return out

  def exact_type(self, v, name, st, node):
    """type(v) is <name> (exact class, no subclasses)."""
    if name == 'int':
      return is_VInt(v)
    if name == 'bool':
      return is_VBool(v)
    if name == 'str':
      return is_VStr(v)
    if name in CLASSES:
      return z3.And(is_VRef(v), cls_is(st.heap.cls(ref(v)), name))
    self.unsupp(f'type(x) is {name}', node)

  def type_identity(self, a, b, st, node):
    if isinstance(a, TypeOf) and isinstance(b, TypeObj):
      return self.exact_type(a.val, b.name, st, node)
    if isinstance(b, TypeOf) and isinstance(a, TypeObj):
      return self.exact_type(b.val, a.name, st, node)
    if isinstance(a, TypeOf) and isinstance(b, TypeOf):
      x, y = a.val, b.val
      same_tag = z3.Or(z3.And(is_VInt(x), is_VInt(y)), z3.And(is_VBool(x), is_VBool(y)),
                       z3.And(is_VStr(x), is_VStr(y)), z3.And(is_VNone(x), is_VNone(y)),
                       z3.And(is_VParam(x), is_VParam(y)),
                       z3.And(is_VRef(x), is_VRef(y), st.heap.cls(ref(x)) == st.heap.cls(ref(y))))
      return same_tag
    self.unsupp('type identity', node)

  def contains(self, container, x, st, node):
    """`x in container` -> [Res(st, z3 Bool)]."""
    if isinstance(container, TupleImm):
      return [Res(st, z3.Or([self.py_eq(x, it, st) for it in container.items]))]
    if isinstance(container, ParamMap):
      return [Res(st, z3.And(is_VStr(x), sig_idx(container.g, sval(x)) >= 0))]
    if isinstance(container, SeqView):
      i = z3.Int('in_i')
      return [Res(st, z3.Exists([i], z3.And(0 <= i, i < container.length,
                                            self.py_eq(x, container.elt(i), st))))]
    if isinstance(container, OpaqueContainer):
      return [Res(st, fresh('opaque_in', B))]      # contents not modelled: either answer
    if isinstance(container, Abstract):
      self.unsupp('membership in abstract value', node)
    if isinstance(x, Abstract):
      self.unsupp('membership of abstract value', node)
    out = []
    h = st.heap
    r = ref(container)
    c = h.cls(r)
    isdict = z3.And(is_VRef(container), z3.Or([cls_in(c, n) for n in DICTLIKE]))
    for st2, side in self.fork(st, isdict):
      if side:
        out.append(Res(st2, st2.heap.has(r, x)))
      else:
        isseq = z3.And(is_VRef(container), z3.Or([cls_in(c, n) for n in SEQLIKE]))
        for st3, side2 in self.fork(st2, isseq):
          if side2:
            i = z3.Int('in_i')
            out.append(Res(st3, z3.Exists([i], z3.And(
                0 <= i, i < st3.heap.len(r), self.py_eq(x, st3.heap.elt(r, i), st3)))))
          else:
            if self.feasible(st3, is_VRef(container)):
              self.unsupp('membership in opaque object', node)
            out.append(self.exc_res(st3, 'TypeError', origin=f'in@{node.lineno}'))
    return out

  # ---------------------------------------------------------------- attributes
  def ex_Attribute(self, e, st):
    return self.then(self.ev(e.value, st), lambda st2, v: self.load_attr(v, e.attr, st2, e))

  def load_attr(self, v, name, st, node):
    if isinstance(v, ModuleObj):
      return [Res(st, self.module_attr(v, name, node))]
    if isinstance(v, TypeObj):
      return [Res(st, self.type_attr(v, name, node))]
    if isinstance(v, TupleImm):
      return [Res(st, BoundMethod(v, name))]
    if isinstance(v, (ParamMap, SeqView, SuperObj, Closure, BuiltinFn, InstanceDict)):
      return [Res(st, BoundMethod(v, name))]
    if isinstance(v, Abstract):
      self.unsupp(f'attribute {name} of {type(v).__name__}', node)
    if name == '__new__':
      return [Res(st, BoundMethod(v, name))]    # cls.__new__: checked at the call
    if name == '__dict__' and z3.is_expr(v):
      if self.feasible_full(st, z3.Not(z3.And(is_VRef(v), cls_in(st.heap.cls(ref(v)), 'Buildable')))):
        self.unsupp('__dict__ of a value that may not be a Buildable', node)
      from pyvc.calls import trusted
      trusted('obj.__dict__ of a Buildable holds exactly its five internals (no other instance attribute)')
      return [Res(st, InstanceDict(v))]
    out = []
    # inspect.Parameter
    for st2, side in self.fork(st, is_VParam(v)):
      if side:
        out.append(Res(st2, self.param_attr(v, name, node)))
        continue
      for st3, side2 in self.fork(st2, is_VRef(v)):
        if not side2:
          # str / int methods are handled at the call; plain attribute access fails
          if name in ('join', 'format', 'split', 'startswith', 'endswith') and \
              self.feasible(st3, is_VStr(v)):
            out.append(Res(st3, BoundMethod(v, name)))
          else:
            out.append(self.exc_res(st3, 'AttributeError', origin=f'.{name}@{node.lineno}'))
          continue
        out.extend(self.load_ref_attr(v, name, st3, node))
    return out

  def param_attr(self, v, name, node):
    g, i = psig(v), pidx(v)
    if name == 'kind':
      return VInt(sig_kind(g, i))
    if name == 'name':
      return VStr(sig_name(g, i))
    if name == 'default':
      return z3.If(sig_hasdef(g, i), sig_dflt(g, i), EMPTY)
    if name == 'empty':
      return EMPTY
    if name in KIND_NAMES:
      return VInt(z3.IntVal(KIND_NAMES[name]))
    self.unsupp(f'inspect.Parameter.{name}', node)

  def module_attr(self, m, name, node):
    full = f'{m.name}.{name}'
    if full in ('inspect.Parameter',):
      return TypeObj('inspect.Parameter')
    if name in CLASSES:
      return TypeObj(name)
    if full == 'history.DELETED':
      return DELETED
    if full == 'dataclasses.MISSING':
      return DC_MISSING
    if name in self.GLOBAL_SINGLETONS:
      return self.GLOBAL_SINGLETONS[name]
    if m.name in ('inspect',) and name in ('Signature',):
      return TypeObj(name)
    return BuiltinFn(full)

  def type_attr(self, t, name, node):
    if t.name == 'inspect.Parameter':
      if name in KIND_NAMES:
        return VInt(z3.IntVal(KIND_NAMES[name]))
      if name == 'empty':
        return EMPTY
    if t.name == 'ChangeKind':
      return singleton('ChangeKind.' + name)
    if t.name == 'PyrefPolicyError' and name == 'PRE_IMPORT':
      return singleton('PyrefPolicyError.PRE_IMPORT')
    return BuiltinFn(f'{t.name}.{name}')

  PROPERTIES = {}   # attribute name -> (class, contract id) of a @property (filled by contracts)

  def load_ref_attr(self, v, name, st, node):
    """Attribute of an object reference."""
    h = st.heap
    r = ref(v)
    # inlined properties (e.g. SignatureInfo.parameters)
    if name in self.PROPERTIES:
      clsname, cid = self.PROPERTIES[name]
      out = []
      for st2, side in self.fork(st, cls_in(h.cls(r), clsname)):
        if side:
          out.extend(self.call_property(cid, v, st2, node))
        elif name == 'parameters':
          out.append(Res(st2, ParamMap(r)))     # inspect.Signature.parameters
        else:
          out.append(Res(st2, st2.heap.fld(r, name)))
      return out
    if name == 'parameters':
      # inspect.Signature.parameters of a Signature object
      return [Res(st, ParamMap(r))]
    from pyvc import contract as _C
    cands = [k for k in _C.BY_METHOD.get(name, []) if '.' in k.qualname]
    if cands:
      # a method only if the receiver can be an instance of the class that defines it
      conds = []
      from pyvc.calls import is_type_obj as _is_type_obj
      for k in cands:
        cn = k.qualname.split('.')[0]
        conds.append(cls_in(h.cls(r), cn) if cn in CLASSES else z3.BoolVal(True))
        if getattr(k, 'is_classmethod', False) and cn in CLASSES:
          # SomeClass.classmethod: the receiver is a class value of (a subclass of) that class
          conds.append(z3.And(_is_type_obj(r), cls_in(type_cid(v), cn)))
      out = []
      for st2, side in self.fork(st, z3.Or(conds)):
        if side:
          out.append(Res(st2, BoundMethod(v, name)))
        else:
          out.append(Res(st2, st2.heap.fld(r, name)))
      return out
    if name in self.BUILTIN_METHODS:
      # a builtin container method only if the receiver can be a builtin container
      c = h.cls(r)
      cont = z3.Or([cls_in(c, n) for n in ('dict', 'list', 'tuple', 'set', 'frozenset', 'slice')])
      out = []
      for st2, side in self.fork(st, cont):
        if side:
          out.append(Res(st2, BoundMethod(v, name)))
        else:
          out.append(Res(st2, st2.heap.fld(r, name)))
      return out
    if name in BUILDABLE_INTERNALS or self.raw_attr_ok(name):
      return [Res(st, h.fld(r, name))]
    # a Buildable answers unknown names through __getattr__
    out = []
    for st2, side in self.fork(st, cls_in(h.cls(r), 'Buildable')):
      if side:
        out.extend(self.call_named_contract('config.Buildable.__getattr__',
                                            [v, strlit(name)], {}, st2, node))
      else:
        out.append(Res(st2, st2.heap.fld(r, name)))
    return out

  def raw_attr_ok(self, name):
    return name.startswith('_') and not name.startswith('__')

  BUILTIN_METHODS = {'copy', 'get', 'pop', 'update', 'keys', 'values', 'items', 'append',
                     'setdefault', 'extend', 'insert', 'indices', 'add', 'discard', 'remove',
                     'union', 'clear', 'index', 'count', '_replace', 'bind_partial'}

  # ---------------------------------------------------------------- subscripts
  def ex_Subscript(self, e, st):
    return self.then(self.ev_list([e.value, e.slice], st),
                     lambda st2, vals: self.load_subscript(vals[0], vals[1], st2, e))

  def ex_Slice(self, e, st):
    parts = [x if x is not None else ast.Constant(value=None) for x in (e.lower, e.upper, e.step)]
    def k(st2, vals):
      return self.make_slice(st2, *vals)
    return self.then(self.ev_list(parts, st), k)

  def make_slice(self, st, lo, hi, step):
    st2, r = st.alloc('slice')
    h = st2.heap
    for n, v in (('start', lo), ('stop', hi), ('step', step)):
      h = h.set('f:' + n, z3.Store(h.get('f:' + n), r, self.need_val(v)))
    return [Res(st2.with_heap(h), VRef(r))]

  def norm_index(self, i, length):
    return z3.If(i < 0, i + length, i)

  def load_subscript(self, obj, key, st, node):
    if isinstance(obj, TupleImm):
      if z3.is_expr(key):
        ks = z3.simplify(key)
        kv = z3.simplify(ival(ks))
        if z3.is_int_value(kv):
          return [Res(st, obj.items[kv.as_long()])]
      self.unsupp('symbolic index into immediate tuple', node)
    if isinstance(obj, ParamMap):
      out = []
      ok = z3.And(is_VStr(key), sig_idx(obj.g, sval(key)) >= 0)
      for st2, side in self.fork(st, ok):
        if side:
          out.append(Res(st2, VParam(obj.g, sig_idx(obj.g, sval(key)))))
        else:
          out.append(self.exc_res(st2, 'KeyError', origin=f'parameters[]@{node.lineno}'))
      return out
    if isinstance(obj, SeqView):
      return self.with_int(key, st, lambda st2, i: self.seq_index(obj, i, st2, node))
    if isinstance(obj, Abstract) or isinstance(key, Abstract):
      self.unsupp('subscript of abstract value', node)
    out = []
    h = st.heap
    for st1, isref in self.fork(st, is_VRef(obj)):
      if not isref:
        if self.feasible(st1, is_VStr(obj)):
          self.unsupp('string indexing', node)
        out.append(self.exc_res(st1, 'TypeError', origin=f'subscript@{node.lineno}'))
        continue
      r = ref(obj)
      c = st1.heap.cls(r)
      for st2, isd in self.fork(st1, cls_in(c, 'dict')):
        if isd:
          out.extend(self.dict_getitem(obj, key, st2, node))
          continue
        for st3, isl in self.fork(st2, z3.Or(cls_in(c, 'list'), cls_in(c, 'tuple'))):
          if isl:
            out.extend(self.list_getitem(obj, key, st3, node))
          else:
            for st4, isb in self.fork(st3, cls_in(c, 'Buildable')):
              if isb:
                out.extend(self.call_named_contract('config.Buildable.__getitem__',
                                                    [obj, key], {}, st4, node))
              else:
                self.unsupp('subscript of opaque object', node)
    return out

  def dict_getitem(self, obj, key, st, node):
    out = []
    r = ref(obj)
    for st2, present in self.fork(st, st.heap.has(r, key)):
      if present:
        out.append(Res(st2, st2.heap.dget(r, key)))
      else:
        c = st2.heap.cls(r)
        special = z3.Or(cls_in(c, 'defaultdict'), cls_in(c, 'History'))
        for st3, sp in self.fork(st2, special):
          if sp:
            out.extend(self.dict_missing(obj, key, st3, node))
          else:
            out.append(self.exc_res(st3, 'KeyError', origin=f'[]@{node.lineno}'))
    return out

  def dict_missing(self, obj, key, st, node):
    """defaultdict(set) / History.__missing__: create, store and return an empty container."""
    r = ref(obj)
    out = []
    for st2, ish in self.fork(st, cls_in(st.heap.cls(r), 'History')):
      if ish:
        st3, nr = self.new_list(st2, [])
      else:
        st3, nr = self.new_dict(st2, 'set')
      h = st3.heap
      h = h.set('dhas', z3.Store(h.get('dhas'), r, z3.Store(h.hasarr(r), key, True)))
      h = h.set('dval', z3.Store(h.get('dval'), r, z3.Store(h.valarr(r), key, VRef(nr))))
      out.append(Res(st3.with_heap(h), VRef(nr)))
    return out

  def list_getitem(self, obj, key, st, node):
    out = []
    r = ref(obj)
    for st2, isint in self.fork(st, self.is_intlike(key)):
      if isint:
        n = st2.heap.len(r)
        j = self.norm_index(self.int_of(key), n)
        for st3, ok in self.fork(st2, z3.And(0 <= j, j < n)):
          if ok:
            out.append(Res(st3, st3.heap.elt(r, j)))
          else:
            out.append(self.exc_res(st3, 'IndexError', origin=f'[]@{node.lineno}'))
      else:
        isslice = z3.And(is_VRef(key), cls_is(st2.heap.cls(ref(key)), 'slice'))
        for st3, sl in self.fork(st2, isslice):
          if sl:
            out.extend(self.list_getslice(obj, key, st3, node))
          else:
            out.append(self.exc_res(st3, 'TypeError', origin=f'list index@{node.lineno}'))
    return out

  def seq_index(self, view, i, st, node):
    out = []
    j = self.norm_index(i, view.length)
    for st2, ok in self.fork(st, z3.And(0 <= j, j < view.length)):
      if ok:
        out.append(Res(st2, view.elt(j)))
      else:
        out.append(self.exc_res(st2, 'IndexError', origin=f'[]@{node.lineno}'))
    return out

  # stores ------------------------------------------------------------------
  def materialize(self, v, st):
    """An immediate tuple that is stored somewhere becomes a real tuple object."""
    if isinstance(v, TupleImm):
      items = []
      for it in v.items:
        st, it2 = self.materialize(it, st)
        items.append(it2)
      st, r = self.new_list(st, items, 'tuple')
      return st, VRef(r)
    return st, v

  def store_subscript(self, obj, key, v, st, node):
    if isinstance(obj, Abstract) or isinstance(key, Abstract):
      self.unsupp('subscript store on abstract value', node)
    st, v = self.materialize(v, st)
    v = self.need_val(v, node)
    outs = []
    for st1, isref in self.fork(st, is_VRef(obj)):
      if not isref:
        outs.append(self.raise_(st1, 'TypeError', origin=f'[]=@{node.lineno}'))
        continue
      r = ref(obj)
      c = st1.heap.cls(r)
      for st2, isd in self.fork(st1, cls_in(c, 'dict')):
        if isd:
          h = st2.heap
          h = h.set('dhas', z3.Store(h.get('dhas'), r, z3.Store(h.hasarr(r), key, True)))
          h = h.set('dval', z3.Store(h.get('dval'), r, z3.Store(h.valarr(r), key, v)))
          outs.append(Outcome('normal', st2.with_heap(h)))
          continue
        for st3, isl in self.fork(st2, cls_in(c, 'list')):
          if isl:
            outs.extend(self.list_setitem(obj, key, v, st3, node))
            continue
          for st4, isb in self.fork(st3, cls_in(c, 'Buildable')):
            if isb:
              outs.extend(self._from_res(
                  self.call_named_contract('config.Buildable.__setitem__', [obj, key, v], {}, st4, node),
                  lambda s5, _: [Outcome('normal', s5)]))
            else:
              if self.feasible(st4, cls_in(c, 'tuple')):
                outs.append(self.raise_(st4, 'TypeError', origin=f'tuple[]=@{node.lineno}'))
              else:
                self.unsupp('subscript store on opaque object', node)
    return outs

  def list_setitem(self, obj, key, v, st, node):
    outs = []
    r = ref(obj)
    for st2, isint in self.fork(st, self.is_intlike(key)):
      if isint:
        n = st2.heap.len(r)
        j = self.norm_index(self.int_of(key), n)
        for st3, ok in self.fork(st2, z3.And(0 <= j, j < n)):
          if ok:
            h = st3.heap
            h = h.set('lelt', z3.Store(h.get('lelt'), r, z3.Store(h.eltarr(r), j, v)))
            outs.append(Outcome('normal', st3.with_heap(h)))
          else:
            outs.append(self.raise_(st3, 'IndexError', origin=f'[]=@{node.lineno}'))
      else:
        outs.extend(self.list_setslice(obj, key, v, st2, node))
    return outs

  def del_subscript(self, obj, key, st, node):
    if isinstance(obj, Abstract) or isinstance(key, Abstract):
      self.unsupp('del on abstract value', node)
    outs = []
    for st1, isref in self.fork(st, is_VRef(obj)):
      if not isref:
        outs.append(self.raise_(st1, 'TypeError', origin=f'del[]@{node.lineno}'))
        continue
      r = ref(obj)
      c = st1.heap.cls(r)
      for st2, isd in self.fork(st1, cls_in(c, 'dict')):
        if isd:
          for st3, present in self.fork(st2, st2.heap.has(r, key)):
            if present:
              h = st3.heap
              h = h.set('dhas', z3.Store(h.get('dhas'), r, z3.Store(h.hasarr(r), key, False)))
              outs.append(Outcome('normal', st3.with_heap(h)))
            else:
              outs.append(self.raise_(st3, 'KeyError', origin=f'del[]@{node.lineno}'))
          continue
        for st3, isl in self.fork(st2, cls_in(c, 'list')):
          if isl:
            outs.extend(self.list_delitem(obj, key, st3, node))
            continue
          for st4, isb in self.fork(st3, cls_in(c, 'Buildable')):
            if isb:
              outs.extend(self._from_res(
                  self.call_named_contract('config.Buildable.__delitem__', [obj, key], {}, st4, node),
                  lambda s5, _: [Outcome('normal', s5)]))
            else:
              self.unsupp('del subscript on opaque object', node)
    return outs

  def list_delitem(self, obj, key, st, node):
    outs = []
    r = ref(obj)
    for st2, isint in self.fork(st, self.is_intlike(key)):
      if not isint:
        self.unsupp('del list[slice]', node)
      n = st2.heap.len(r)
      j = self.norm_index(self.int_of(key), n)
      for st3, ok in self.fork(st2, z3.And(0 <= j, j < n)):
        if ok:
          h = st3.heap
          i = z3.Int('dl_i')
          old = h.eltarr(r)
          new = fresh('del', ValArr)
          fact = SAFE_FORALL([i], new[i] == z3.If(i < j, old[i], old[i + 1]), patterns=[new[i]])
          h = h.set('lelt', z3.Store(h.get('lelt'), r, new))
          h = h.set('llen', z3.Store(h.get('llen'), r, n - 1))
          outs.append(Outcome('normal', st3.with_heap(h).assume(fact)))
        else:
          outs.append(self.raise_(st3, 'IndexError', origin=f'del[]@{node.lineno}'))
    return outs

  def list_getslice(self, obj, key, st, node):
    """lst[a:b:c] -> fresh list (assumed: slice.indices + range length, cross-checked)."""
    from pyvc.calls import slice_indices, range_len, range_len_axioms, trusted
    trusted('list slicing: new list of the elements at range(*slice.indices(len))')
    r, k = ref(obj), ref(key)
    h = st.heap
    lo, hi, stp = h.fld(k, 'start'), h.fld(k, 'stop'), h.fld(k, 'step')
    out = []
    wellt = z3.And(*[z3.Or(is_VNone(x), is_VInt(x)) for x in (lo, hi, stp)])
    for s3, ok in self.fork(st, wellt):
      if not ok:
        out.append(self.exc_res(s3, 'TypeError', origin=f'slice@{node.lineno}'))
        continue
      for s4, zero in self.fork(s3, z3.And(is_VInt(stp), ival(stp) == 0)):
        if zero:
          out.append(self.exc_res(s4, 'ValueError', origin=f'slice step 0@{node.lineno}'))
          continue
        n = s4.heap.len(r)
        a, b, c = slice_indices(lo, hi, stp, n)
        cs = z3.simplify(c)
        if z3.is_int_value(cs) and cs.as_long() == 1:
          ln = z3.If(b > a, b - a, z3.IntVal(0))
          s5 = s4
        else:
          ln = range_len(a, b, c)
          s5 = s4.assume(range_len_axioms(a, b, c))
        i = z3.Int('gs_i')
        old = s5.heap.eltarr(r)
        arr = fresh('slc', ValArr)
        fact = SAFE_FORALL([i], arr[i] == old[a + i * c], patterns=[arr[i]])
        s6, nr = self.new_list_from(s5.assume(fact), ln, arr, 'list')
        out.append(Res(s6, VRef(nr)))
    return out

  def list_setslice(self, obj, key, v, st, node):
    self.unsupp('list slice assignment', node)

  # attribute stores --------------------------------------------------------
  def store_attr(self, obj, name, v, st, node):
    if isinstance(obj, Abstract):
      self.unsupp('attribute store on abstract value', node)
    v = self.need_val(v, node)
    outs = []
    for st1, isref in self.fork(st, is_VRef(obj)):
      if not isref:
        outs.append(self.raise_(st1, 'AttributeError', origin=f'.{name}=@{node.lineno}'))
        continue
      r = ref(obj)
      for st2, isb in self.fork(st1, cls_in(st1.heap.cls(r), 'Buildable')):
        if isb:
          outs.extend(self._from_res(
              self.call_named_contract('config.Buildable.__setattr__', [obj, strlit(name), v], {}, st2, node),
              lambda s5, _: [Outcome('normal', s5)]))
        else:
          h = st2.heap
          h = h.set('f:' + name, z3.Store(h.get('f:' + name), r, v))
          outs.append(Outcome('normal', st2.with_heap(h)))
    return outs

  def raw_store_attr(self, obj, name, v, st):
    h = st.heap
    return st.with_heap(h.set('f:' + name, z3.Store(h.get('f:' + name), ref(obj), self.need_val(v))))

  def del_attr(self, obj, name, st, node):
    outs = []
    r = ref(obj)
    for st2, isb in self.fork(st, z3.And(is_VRef(obj), cls_in(st.heap.cls(r), 'Buildable'))):
      if isb:
        outs.extend(self._from_res(
            self.call_named_contract('config.Buildable.__delattr__', [obj, strlit(name)], {}, st2, node),
            lambda s5, _: [Outcome('normal', s5)]))
      else:
        self.unsupp('del attribute of plain object', node)
    return outs

  # ---------------------------------------------------------------- sequences
  def as_seqview(self, it, st, node):
    """The finite sequence a `for` loop iterates over."""
    if isinstance(it, SeqView):
      return it
    if isinstance(it, TupleImm):
      items = it.items
      def elt(i, items=items):
        v = items[-1]
        for j in range(len(items) - 2, -1, -1):
          v = z3.If(i == j, items[j], v)
        return v
      if all(z3.is_expr(x) for x in items) and items:
        return SeqView(z3.IntVal(len(items)), elt)
      if not items:
        return SeqView(z3.IntVal(0), lambda i: VNone)
      # abstract items: only unrolling works
      return SeqView(z3.IntVal(len(items)), lambda i: items[z3.simplify(i).as_long()])
    if isinstance(it, ParamMap):
      g = it.g
      return SeqView(sig_n(g), lambda i: VStr(sig_name(g, i)))
    if isinstance(it, Abstract):
      self.unsupp(f'iteration over {type(it).__name__}', node)
    h = st.heap
    r = ref(it)
    c = h.cls(r)
    if not self.feasible_full(st, z3.Not(z3.And(is_VRef(it), z3.Or(cls_in(c, 'list'), cls_in(c, 'tuple'))))):
      length, arr = h.len(r), h.eltarr(r)
      v = SeqView(length, lambda i: arr[i], src=r)
      v.src_arrays = ('llen', 'lelt')
      v.live = True
      return v
    if not self.feasible_full(st, z3.Not(z3.And(is_VRef(it), z3.Or([cls_in(c, n) for n in DICTLIKE])))):
      return self.dict_keys_view(r, st)
    self.unsupp('iteration over a value of unknown class', node)

  def dict_keys_view(self, r, st):
    """Ghost enumeration of a dict's keys in an arbitrary order (distinct, member iff has)."""
    cnt = dkeys_cnt(st.heap.hasarr(r))
    seq = dkeys_seq(st.heap.hasarr(r))
    v = SeqView(cnt, lambda i: seq[i], src=r)
    v.src_arrays = ('dhas',)
    v.is_keys = True
    v.has = st.heap.hasarr(r)       # the membership array the enumeration is a function of
    return v


# ghost key enumeration of a dict: functions of the membership array, so two reads of the
# same dict state give the same order, and any change of the domain gives an unrelated one.
dkeys_cnt = z3.Function('dkeys_cnt', HasArr, I)
dkeys_seq = z3.Function('dkeys_seq', HasArr, ValArr)
dkeys_pos = z3.Function('dkeys_pos', HasArr, Val, I)


def dkeys_axioms(has):
  """Axioms of the ghost enumeration for one membership array."""
  i = z3.Int('dk_i')
  k = z3.Const('dk_k', Val)
  seq, cnt = dkeys_seq(has), dkeys_cnt(has)
  return z3.And(
      cnt >= 0,
      SAFE_FORALL([i], z3.Implies(z3.And(0 <= i, i < cnt),
                                z3.And(has[seq[i]], dkeys_pos(has, seq[i]) == i)),
                patterns=[seq[i]]),
      SAFE_FORALL([k], z3.Implies(has[k], z3.And(0 <= dkeys_pos(has, k), dkeys_pos(has, k) < cnt,
                                               seq[dkeys_pos(has, k)] == k)),
                patterns=[dkeys_pos(has, k), has[k]]))


def zip_axioms(K, n):
  """zip_last(K, n, k): the last index i < n with K[i] == k, -1 if there is none (definite
  description of a function of finite sequences; the two clauses determine it uniquely)."""
  i = z3.Int('zl_i')
  k = z3.Const('zl_k', Val)
  w = zip_last(K, n, k)
  return z3.And(
      SAFE_FORALL([k], z3.Or(w == -1, z3.And(0 <= w, w < n, K[w] == k)), patterns=[w]),
      SAFE_FORALL([i], z3.Implies(z3.And(0 <= i, i < n), zip_last(K, n, K[i]) >= i), patterns=[K[i]]))
