"""Runs pyvc on one function: generate obligations, discharge them, guard against vacuity."""
import subprocess
import tempfile
import time
import traceback
import z3
from pyvc.sorts import *  # noqa
from pyvc.state import Unsupported
from pyvc import contract as C
from pyvc import loader
from pyvc.engine import Exec
from pyvc import calls as calls_mod


def discharge(ob, timeout_ms, use_cvc5=True):
  """One SMT query per obligation: pc ∧ ¬goal."""
  if ob.verdict is not None:
    return
  t0 = time.time()
  s = z3.Solver()
  s.set('timeout', min(timeout_ms, 2000))
  s.add(*ob.pc)
  s.add(z3.Not(ob.goal))
  r = s.check()
  ob.solver = 'z3'
  ob.verdict = str(r)
  if r == z3.unknown:
    # keep each query small: discharge the conjuncts of the goal one by one
    parts = []
    _conjuncts(z3.simplify(ob.goal), parts)
    if len(parts) > 1:
      allok = True
      for g in parts:
        s2 = z3.Solver()
        s2.set('timeout', timeout_ms)
        s2.add(*ob.pc)
        s2.add(z3.Not(g))
        r2 = s2.check()
        if r2 != z3.unsat:
          allok = False
          s, r = s2, r2
          break
      if allok:
        r = z3.unsat
      ob.solver = 'z3/split'
      ob.verdict = str(r)
    else:
      s.set('timeout', timeout_ms)
      r = s.check()
      ob.verdict = str(r)
  if r == z3.sat:
    try:
      ob.model = s.model()
    except z3.Z3Exception:
      ob.model = None
  if r == z3.unknown:
    ob.reason = s.reason_unknown()
    if use_cvc5:
      v = cvc5_check(s, timeout_ms)
      if v == 'unsat':
        ob.verdict, ob.solver = 'unsat', 'cvc5'
  ob.time = time.time() - t0


def _conjuncts(g, out):
  if z3.is_and(g):
    for c in g.children():
      _conjuncts(c, out)
  else:
    out.append(g)


def cvc5_check(solver, timeout_ms):
  try:
    smt = '(set-logic ALL)\n' + solver.to_smt2()
    with tempfile.NamedTemporaryFile('w', suffix='.smt2', delete=True) as f:
      f.write(smt)
      f.flush()
      p = subprocess.run(['/usr/bin/cvc5', f'--tlimit={timeout_ms}', f.name],
                         capture_output=True, text=True, timeout=timeout_ms / 1000 + 5)
    out = p.stdout.strip().splitlines()
    return out[0] if out else 'error'
  except Exception:   # pylint: disable=broad-except
    return 'error'


class FnResult:
  def __init__(self, cid):
    self.cid = cid
    self.status = None          # proved | failed | unsupported | error
    self.obligations = []       # merged: oid -> dict
    self.reason = ''
    self.paths = 0
    self.exits = {}
    self.time = 0.0
    self.hash = None
    self.pre_sat = None
    self.canary = None
    self.live = None
    self.failed = []

  def summary(self):
    n = len(self.obligations)
    d = sum(1 for o in self.obligations if o['verdict'] == 'unsat')
    return f'{self.cid}: {self.status} ({d}/{n} obligations, {self.paths} paths, {self.time:.1f}s) {self.reason}'


def merge(obls):
  """Obligations reaching the same program point/kind on several paths count once."""
  merged = {}
  for ob in obls:
    m = merged.setdefault(ob.oid, dict(oid=ob.oid, kind=ob.kind, desc=ob.desc, queries=0,
                                       verdict='unsat', time=0.0, solvers=set(), line=ob.lineno,
                                       failing=[]))
    m['queries'] += 1
    m['time'] += ob.time
    m['solvers'].add(ob.solver or '-')
    if ob.verdict != 'unsat':
      if m['verdict'] == 'unsat' or ob.verdict == 'sat':
        m['verdict'] = ob.verdict
      m['failing'].append(ob)
  for m in merged.values():
    m['solvers'] = sorted(m['solvers'])
  return list(merged.values())


def verify_function(cid, timeout_ms=10000, node_override=None, canary=True):
  """Verifies the function of contract `cid` against its contract."""
  ctr = C.REGISTRY[cid]
  res = FnResult(cid)
  t0 = time.time()
  try:
    node = node_override if node_override is not None else loader.bind_ast(ctr)
    res.hash = getattr(ctr, 'hash', None)
    ex = Exec(node, ctr)
    obls = ex.run()
    res.paths = ex.paths
    res.exits = dict(ex.exits)
    res.pre_sat = ex.pre_sat
    for ob in obls:
      discharge(ob, timeout_ms)
    res.obligations = merge(obls)
    res.raw = obls
    bad = [m for m in res.obligations if m['verdict'] != 'unsat']
    res.failed = bad
    if res.pre_sat == 'unsat':
      res.status = 'error'
      res.reason = f'vacuity guard: precondition is {res.pre_sat}'
    elif not res.obligations:
      res.status = 'error'
      res.reason = 'vacuity guard: zero obligations'
    elif bad:
      res.status = 'failed'
      res.reason = '; '.join(f"{m['oid']}={m['verdict']}" for m in bad[:6])
    else:
      res.status = 'proved'
    if canary and res.status == 'proved':
      # canary: `False` must not be provable at the exits (a contradictory path condition
      # on every exit would prove anything)
      live_exits = 0
      for ob in obls:
        if ob.kind in ('post', 'raises'):
          s = z3.Solver()
          s.set('timeout', 300)
          s.add(*ob.pc)
          if s.check() != z3.unsat:
            live_exits += 1
      res.canary = live_exits
      if live_exits == 0:
        res.status = 'error'
        res.reason = 'vacuity guard: no exit is reachable under the precondition'
  except Unsupported as e:
    res.status = 'unsupported'
    res.reason = str(e)
  except Exception as e:   # pylint: disable=broad-except
    res.status = 'error'
    res.reason = f'{type(e).__name__}: {e}\n' + traceback.format_exc()
  res.time = time.time() - t0
  return res
