"""Runs pyvc on one function: generate obligations, discharge them, guard against vacuity."""
import subprocess
import tempfile
import time
import traceback
import z3
from pyvc.sorts import *  # noqa
from pyvc.state import Unsupported
from pyvc import contract as C
from pyvc import loader
from pyvc.engine import Exec
from pyvc import calls as calls_mod


RETRY_SEEDS = (0, 7, 23)


_DEADLINE = [None]


def _remaining(timeout_ms):
  """Per-obligation budget: a failing obligation must not multiply its cost by the number of
  split strategies (cases x conjuncts x seeds)."""
  if _DEADLINE[0] is None:
    return timeout_ms
  left = int((_DEADLINE[0] - time.time()) * 1000)
  return max(200, min(timeout_ms, left))


def _check(pc, goal, timeout_ms, seeds=(0,)):
  """pc ∧ ¬goal; `unknown` is retried with other solver seeds (proof search is sensitive to
  term order; a different seed is a different instantiation order, never a different logic)."""
  r, s = z3.unknown, None
  for seed in seeds:
    if seed and _DEADLINE[0] is not None and time.time() > _DEADLINE[0]:
      break
    s = z3.Solver()
    s.set('timeout', _remaining(timeout_ms))
    if seed:
      s.set('random_seed', seed)
      s.set('smt.random_seed', seed)
    s.add(*pc)
    s.add(z3.Not(goal))
    r = s.check()
    if r != z3.unknown:
      break
  return r, s


_sk = [0]


def _prove_pivots(pc, g, pivots, timeout_ms):
  """∀i. body(i) proved by skolemising i and splitting on its position relative to the
  pivot terms named by the contract (i < p, i = p, i > p): an exhaustive case split."""
  import itertools
  if not (z3.is_quantifier(g) and g.is_forall() and g.num_vars() == 1 and pivots):
    return None
  _sk[0] += 1
  if g.var_sort(0) == Val:
    # a quantified *key*: split on its constructor and on equality with the named keys
    vp = [p for p in pivots if p.sort() == Val]
    sk = z3.Const(f'skv!{_sk[0]}', Val)
    body = z3.substitute_vars(g.body(), sk)
    last = None
    shapes = [is_VInt(sk), is_VStr(sk), z3.And(z3.Not(is_VInt(sk)), z3.Not(is_VStr(sk)))]
    for shape in shapes:
      for combo in itertools.product((True, False), repeat=len(vp)):
        lits = [shape] + [(sk == p) if c else (sk != p) for p, c in zip(vp, combo)]
        r, s = _check(list(pc) + lits, body, timeout_ms)
        last = s
        if r != z3.unsat:
          return r, s
    return z3.unsat, last
  if g.var_sort(0) != z3.IntSort():
    return None
  pivots = [p for p in pivots if p.sort() == z3.IntSort()]
  if not pivots:
    return None
  sk = z3.Int(f'sk!{_sk[0]}')
  body = z3.substitute_vars(g.body(), sk)
  last = None
  for combo in itertools.product((0, 1, 2), repeat=len(pivots)):
    lits = [(sk < p, sk == p, sk > p)[c] for p, c in zip(pivots, combo)]
    r, s = _check(list(pc) + lits, body, timeout_ms)
    last = s
    if r != z3.unsat:
      return r, s
  return z3.unsat, last


def _prove_split(pc, goal, timeout_ms, pivots=()):
  """Whole goal first (short), then conjunct by conjunct (then pivot splits)."""
  r, s = _check(pc, goal, min(timeout_ms, 4000))
  if r != z3.unknown:
    return r, s
  parts = []
  _conjuncts(z3.simplify(goal), parts)
  if len(parts) <= 1 and not pivots:
    return _check(pc, goal, timeout_ms)
  for g in parts:
    r, s = _check(pc, g, min(timeout_ms, 3000) if pivots else timeout_ms,
                  seeds=(0,) if pivots else RETRY_SEEDS)
    if r == z3.unknown and pivots:
      rp = _prove_pivots(pc, g, pivots, timeout_ms)
      if rp is not None:
        r, s = rp
      else:
        r, s = _check(pc, g, timeout_ms)
    if r != z3.unsat:
      return r, s
  return z3.unsat, s


def discharge(ob, timeout_ms, use_cvc5=True):
  """One SMT query per obligation: pc ∧ ¬goal; on `unknown` the query is made smaller
  (conjuncts of the goal, then the contract's exhaustive case split)."""
  if ob.verdict is not None:
    return
  t0 = time.time()
  ncases = 2 ** len(ob.cases) if ob.cases else 0
  _DEADLINE[0] = t0 + (4.0 + ncases) * timeout_ms / 1000.0
  pivots = list(getattr(ob, 'pivots', ()) or ())
  if ob.cases:
    # obligations with a declared case split: one short attempt on the whole goal, then the
    # cases (splitting conjuncts first would spend the budget on the unsplit formula)
    r, s = _check(ob.pc, ob.goal, min(timeout_ms, 4000))
  else:
    r, s = _prove_split(ob.pc, ob.goal, timeout_ms, pivots)
  ob.solver = 'z3'
  if r == z3.unknown and ob.cases:
    # exhaustive case split on the contract's atoms; each atom is replaced by its truth value
    import itertools
    ob.solver = 'z3/cases'
    allok = True
    for combo in itertools.product([True, False], repeat=len(ob.cases)):
      if time.time() > _DEADLINE[0]:
        allok = False
        break
      sub = [(a, z3.BoolVal(v)) for a, v in zip(ob.cases, combo)]
      # goals are stored simplified: the atoms must be matched in their simplified form too
      sub += [(z3.simplify(a), z3.BoolVal(v)) for a, v in zip(ob.cases, combo)
              if not z3.simplify(a).eq(a) and not z3.is_true(z3.simplify(a)) and not z3.is_false(z3.simplify(a))]
      lits = [a if v else z3.Not(a) for a, v in zip(ob.cases, combo)]
      pc2 = [z3.simplify(z3.substitute(p, *sub)) for p in ob.pc] + lits
      if any(z3.is_false(p) for p in pc2):
        continue
      g2 = z3.simplify(z3.substitute(ob.goal, *sub))
      r2, s2 = _prove_split(pc2, g2, timeout_ms, [z3.simplify(z3.substitute(p, *sub)) for p in pivots])
      if r2 != z3.unsat:
        allok = False
        r, s = r2, s2
        break
    if allok:
      r = z3.unsat
  ob.verdict = str(r)
  if r == z3.sat:
    try:
      ob.model = s.model()
    except z3.Z3Exception:
      ob.model = None
  if r == z3.unknown:
    ob.reason = s.reason_unknown()
    if use_cvc5:
      v = cvc5_check(s, timeout_ms)
      if v == 'unsat':
        ob.verdict, ob.solver = 'unsat', 'cvc5'
  _DEADLINE[0] = None
  ob.time = time.time() - t0


def _conjuncts(g, out):
  if z3.is_and(g):
    for c in g.children():
      _conjuncts(c, out)
  else:
    out.append(g)


def cvc5_check(solver, timeout_ms):
  try:
    smt = '(set-logic ALL)\n' + solver.to_smt2()
    with tempfile.NamedTemporaryFile('w', suffix='.smt2', delete=True) as f:
      f.write(smt)
      f.flush()
      p = subprocess.run(['/usr/bin/cvc5', f'--tlimit={timeout_ms}', f.name],
                         capture_output=True, text=True, timeout=timeout_ms / 1000 + 5)
    out = p.stdout.strip().splitlines()
    return out[0] if out else 'error'
  except Exception:   # pylint: disable=broad-except
    return 'error'


class FnResult:
  def __init__(self, cid):
    self.cid = cid
    self.status = None          # proved | failed | unsupported | error
    self.obligations = []       # merged: oid -> dict
    self.reason = ''
    self.paths = 0
    self.exits = {}
    self.time = 0.0
    self.hash = None
    self.pre_sat = None
    self.canary = None
    self.live = None
    self.failed = []

  def summary(self):
    n = len(self.obligations)
    d = sum(1 for o in self.obligations if o['verdict'] == 'unsat')
    return f'{self.cid}: {self.status} ({d}/{n} obligations, {self.paths} paths, {self.time:.1f}s) {self.reason}'


def merge(obls):
  """Obligations reaching the same program point/kind on several paths count once."""
  merged = {}
  for ob in obls:
    m = merged.setdefault(ob.oid, dict(oid=ob.oid, kind=ob.kind, desc=ob.desc, queries=0,
                                       verdict='unsat', time=0.0, solvers=set(), line=ob.lineno,
                                       failing=[]))
    m['queries'] += 1
    m['time'] += ob.time
    m['solvers'].add(ob.solver or '-')
    if ob.verdict != 'unsat':
      if m['verdict'] == 'unsat' or ob.verdict == 'sat':
        m['verdict'] = ob.verdict
      m['failing'].append(ob)
  for m in merged.values():
    m['solvers'] = sorted(m['solvers'])
  return list(merged.values())


def combined_hash(ctr):
  """Hash of the verified text: the function's own segment and, transitively, the segments of
  the functions that are *inlined* into it (kind='inline' contracts: their real body is executed
  at every use, so a change there changes this function's obligations)."""
  import hashlib
  from pyvc import contract as C, loader
  seen = {}
  def visit(c):
    if c.id in seen or c.abstract:
      return
    if getattr(c, 'node', None) is None:
      try:
        loader.bind_ast(c)
      except Exception:   # pylint: disable=broad-except
        return
    seen[c.id] = getattr(c, 'hash', None)
    import ast
    for n in ast.walk(c.node):
      nm = None
      if isinstance(n, ast.Call):
        f = n.func
        nm = f.attr if isinstance(f, ast.Attribute) else (f.id if isinstance(f, ast.Name) else None)
      elif isinstance(n, ast.Attribute):
        nm = n.attr            # inlined properties
      if nm:
        for k in C.lookup_method(nm):
          if k.kind == 'inline':
            visit(k)
        if not C.lookup_method(nm) and isinstance(n, ast.Call) and isinstance(n.func, ast.Name):
          from pyvc.calls import auto_inline_contract
          k = auto_inline_contract(c.file, nm)
          if k is not None:
            visit(k)
  visit(ctr)
  own = seen.pop(ctr.id, None)
  if own is None:
    return None
  if not seen:
    return own
  h = hashlib.sha256((own + ''.join(f'{k}={v}' for k, v in sorted(seen.items()))).encode()).hexdigest()[:16]
  return h


def verify_function(cid, timeout_ms=10000, node_override=None, canary=True):
  """Verifies the function of contract `cid` against its contract."""
  ctr = C.REGISTRY[cid]
  res = FnResult(cid)
  t0 = time.time()
  try:
    node = node_override if node_override is not None else loader.bind_ast(ctr)
    res.hash = combined_hash(ctr)
    ex = Exec(node, ctr)
    obls = ex.run()
    res.paths = ex.paths
    res.exits = dict(ex.exits)
    res.pre_sat = ex.pre_sat
    for ob in obls:
      discharge(ob, timeout_ms)
    res.obligations = merge(obls)
    res.raw = obls
    bad = [m for m in res.obligations if m['verdict'] != 'unsat']
    res.failed = bad
    if res.pre_sat == 'unsat':
      res.status = 'error'
      res.reason = f'vacuity guard: precondition is {res.pre_sat}'
    elif not res.obligations:
      res.status = 'error'
      res.reason = 'vacuity guard: zero obligations'
    elif bad:
      res.status = 'failed'
      res.reason = '; '.join(f"{m['oid']}={m['verdict']}" for m in bad[:6])
    else:
      res.status = 'proved'
    if canary and res.status == 'proved':
      # canary: `False` must not be provable at the exits (a contradictory path condition
      # on every exit would prove anything)
      live_exits = 0
      for ob in obls:
        if ob.kind in ('post', 'raises'):
          s = z3.Solver()
          s.set('timeout', 300)
          s.add(*ob.pc)
          if s.check() != z3.unsat:
            live_exits += 1
      res.canary = live_exits
      if live_exits == 0:
        res.status = 'error'
        res.reason = 'vacuity guard: no exit is reachable under the precondition'
  except Unsupported as e:
    res.status = 'unsupported'
    res.reason = str(e)
  except Exception as e:   # pylint: disable=broad-except
    tb = traceback.extract_tb(e.__traceback__)
    in_contract = bool(tb) and ('/contracts/' in tb[-1].filename or (
        # an accessor of the clause context (c['param'], c.v('local'), c.res(i)) called by a clause
        tb[-1].filename.endswith('pyvc/contract.py') and len(tb) >= 2 and '/contracts/' in tb[-2].filename))
    if in_contract and isinstance(e, (AttributeError, KeyError, IndexError, TypeError)):
      # a clause of the sidecar contract could not even be evaluated on this code (a local it
      # names does not exist any more, a loop iterates over something of another shape, ...):
      # the contract does not fit the function as it is now -> not proved, not a checker crash
      res.status = 'unsupported'
      res.reason = (f'the contract could not be evaluated on the current code '
                    f'({type(e).__name__}: {e} at {tb[-1].filename.split("/")[-1]}:{tb[-1].lineno})')
    else:
      res.status = 'error'
      res.reason = f'{type(e).__name__}: {e}\n' + traceback.format_exc()
  res.time = time.time() - t0
  return res
