"""Symbolic state, abstract (python-side) values, outcomes."""
import itertools
import z3
from pyvc.sorts import *  # noqa

_fresh = itertools.count()


def fresh(prefix, sort):
  return z3.Const(f'{prefix}!{next(_fresh)}', sort)


cls_fn = z3.Function('cls', I, I)     # class tag of a reference: never changes after allocation

HEAP_SORTS = {
    'dhas': z3.ArraySort(I, HasArr),
    'dval': z3.ArraySort(I, ValMap),
    'llen': z3.ArraySort(I, I),
    'lelt': z3.ArraySort(I, ValArr),
    'alloc': I,
}
CONTAINER_ARRAYS = ('dhas', 'dval', 'llen', 'lelt')


def heap_sort(name):
  if name in HEAP_SORTS:
    return HEAP_SORTS[name]
  if name.startswith('g:'):      # ghost scalar: changed only through contract clauses
    return I
  if name.startswith('ga:'):     # ghost array
    return ValArr
  assert name.startswith('f:'), name
  return ValArr


class Heap:
  """Immutable-by-convention map: array name -> z3 term (copied on write)."""

  def __init__(self, arrs=None, tag='h'):
    self.arrs = dict(arrs or {})
    self.tag = tag

  def get(self, name):
    if name not in self.arrs:
      # lazily created: all states that never wrote it share the same initial term
      self.arrs[name] = z3.Const(f'{name}@0', heap_sort(name))
    return self.arrs[name]

  def set(self, name, term):
    h = Heap(self.arrs, self.tag)
    h.arrs[name] = term
    return h

  def names(self):
    return list(self.arrs)

  # convenience accessors -------------------------------------------------
  def cls(self, r):
    return cls_fn(r)

  def has(self, r, k):
    return self.get('dhas')[r][k]

  def hasarr(self, r):
    return self.get('dhas')[r]

  def dget(self, r, k):
    return self.get('dval')[r][k]

  def valarr(self, r):
    return self.get('dval')[r]

  def len(self, r):
    return self.get('llen')[r]

  def elt(self, r, i):
    return self.get('lelt')[r][i]

  def eltarr(self, r):
    return self.get('lelt')[r]

  def fld(self, r, name):
    return self.get('f:' + name)[r]

  @property
  def alloc(self):
    return self.get('alloc')


def _flatten(c, out):
  if z3.is_true(c):
    return
  if z3.is_and(c):
    for ch in c.children():
      _flatten(ch, out)
  else:
    out.append(c)


_QF = {}


def quantifier_free(e):
  """True iff the expression contains no quantifier / lambda (cached by ast id)."""
  k = e.get_id()
  if k in _QF:
    return _QF[k]
  seen = set()
  stack = [e]
  ok = True
  while stack:
    x = stack.pop()
    i = x.get_id()
    if i in seen:
      continue
    seen.add(i)
    if z3.is_quantifier(x):
      ok = False
      break
    stack.extend(x.children())
  _QF[k] = ok
  return ok


class State:
  def __init__(self, env=None, heap=None, pc=(), meta=None):
    self.env = dict(env or {})
    self.heap = heap or Heap()
    self.pc = tuple(pc)
    self.meta = dict(meta or {})      # engine bookkeeping (e.g. iteration snapshots)

  def copy(self):
    return State(self.env, Heap(self.heap.arrs), self.pc, self.meta)

  def assume(self, *conds):
    s = self.copy()
    flat = []
    for c in conds:
      _flatten(c, flat)
    s.pc = s.pc + tuple(flat)
    return s

  def bind(self, name, val):
    s = self.copy()
    s.env[name] = val
    return s

  def with_heap(self, heap):
    s = self.copy()
    s.heap = heap
    return s

  def hset(self, name, term):
    return self.with_heap(self.heap.set(name, term))

  def alloc(self, clsname):
    """Allocate a fresh reference of class `clsname`; returns (state, ref Int term).

    The reference is the allocation counter itself (alloc@0 + n), so that distinct
    allocations are syntactically distinct and select-over-store chains simplify."""
    h = self.heap
    r = z3.simplify(h.alloc)
    h = h.set('alloc', z3.simplify(r + 1))
    s = self.assume(cls_fn(r) == (clsname if z3.is_expr(clsname) else z3.IntVal(CLASSES[clsname])))
    return s.with_heap(h), r


# ---------------------------------------------------------------------------
# python-side abstract values (never stored in the heap)


class Abstract:
  pass


class TupleImm(Abstract):
  """An immediate tuple (literal, multiple return value, enumerate item)."""

  def __init__(self, items):
    self.items = list(items)


class TypeObj(Abstract):
  def __init__(self, name):
    self.name = name


class TypeOf(Abstract):
  """type(v) of a symbolic value."""

  def __init__(self, val):
    self.val = val


class ModuleObj(Abstract):
  def __init__(self, name):
    self.name = name


class BuiltinFn(Abstract):
  def __init__(self, name):
    self.name = name


class BoundMethod(Abstract):
  def __init__(self, recv, name):
    self.recv, self.name = recv, name


class Closure(Abstract):
  """A lambda / nested def, inlined at its call sites."""

  def __init__(self, node, env):
    self.node, self.env = node, env


class ParamMap(Abstract):
  """signature.parameters of signature g."""

  def __init__(self, g):
    self.g = g


class SeqView(Abstract):
  """A finite sequence given by a length term and an element function."""

  def __init__(self, length, elt, src=None):
    self.length, self.elt, self.src = length, elt, src


class SpecIter(Abstract):
  """Result of an abstract generator call that is only drained (`for _ in it: pass`)."""


class SuperObj(Abstract):
  def __init__(self, selfval):
    self.selfval = selfval


class SpecFn(Abstract):
  """An abstract callable with a contract (used for callbacks such as traversal_fn)."""

  def __init__(self, name):
    self.name = name


# ---------------------------------------------------------------------------


class Exc:
  """A raised exception: class tag term (z3 Int) and the exception object value."""

  def __init__(self, cls_term, val=None, name=None, origin=None):
    self.cls_term = cls_term if not isinstance(cls_term, str) else z3.IntVal(CLASSES[cls_term])
    self.val = val
    self.name = cls_term if isinstance(cls_term, str) else name
    self.origin = origin      # description of where it was raised

  def __repr__(self):
    return f'Exc({self.name or self.cls_term}@{self.origin})'


class Res:
  """Result of evaluating an expression on one path."""
  __slots__ = ('st', 'val', 'exc')

  def __init__(self, st, val=None, exc=None):
    self.st, self.val, self.exc = st, val, exc


class Outcome:
  """Result of executing statements on one path."""
  __slots__ = ('kind', 'st', 'val')

  def __init__(self, kind, st, val=None):
    self.kind, self.st, self.val = kind, st, val   # normal|return|raise|break|continue|stop


class Unsupported(Exception):
  pass


class OpaqueContainer(Abstract):
  """A module-level registry whose contents are not modelled: membership tests are arbitrary."""

  def __init__(self, name):
    self.name = name


class InstanceDict(Abstract):
  """`obj.__dict__` of a Buildable: the five internals set by __init__ / __unflatten__ /
  __setstate__ (no other instance attribute is modelled)."""

  def __init__(self, obj):
    self.obj = obj
