"""pyvc symbolic executor: core (obligations, forking, statements).

Path-forking forward symbolic execution over the *real* AST of a function of
/repo.  Loops are cut with invariants, calls are replaced by callee contracts.
"""
import ast
import time
import z3
from pyvc.sorts import *  # noqa
from pyvc.sorts import _forall as SAFE_FORALL
from pyvc.state import *  # noqa
from pyvc.state import cls_fn
from pyvc import contract as C
from pyvc.expr import ExprMixin
from pyvc.calls import CallMixin, trusted


class Obligation:
  def __init__(self, oid, kind, desc, pc, goal, lineno=None):
    self.oid, self.kind, self.desc = oid, kind, desc
    self.pc, self.goal, self.lineno = pc, goal, lineno
    self.verdict = None
    self.cases = []
    self.time = 0.0
    self.solver = None
    self.model = None


# spec functions whose definitional axioms contracts may instantiate through ('axiom', name, formula)
DEFINED_SPEC_FUNCTIONS = {'oa_keys'}


class Exec(ExprMixin, CallMixin):

  def __init__(self, fn_node, ctr, module_globals=None, quick_timeout_ms=300,
               class_name=None):
    self.fn = fn_node
    self.ctr = ctr
    self.class_name = class_name
    from pyvc import loader as _loader
    self.module_globals = dict(_loader.module_constants(ctr.file)) if not ctr.abstract else {}
    self.module_globals.update(C.MODULE_GLOBALS.get(ctr.file, {}))
    self.module_globals.update(module_globals or {})
    self.obligations = []
    self.unsupported = []
    self.paths = 0
    self.exits = {'return': 0, 'raise': 0}
    self._solver = z3.Solver()
    self._solver.set('timeout', quick_timeout_ms)
    self._qt = quick_timeout_ms
    self.feas_calls = 0
    self.loop_specs = {}
    self.ctr_stack = [ctr]
    self.register_loops(fn_node, ctr)
    self.call_ord = {}
    self.inline_depth = 0
    self.discovery = 0
    self.raw_attr = False  # set when verifying Buildable's own methods

  # ------------------------------------------------------------------ utils
  def register_loops(self, fn, ctr):
    """Pre-order numbering of the loops of `fn`; binds the sidecar loop specs by ordinal."""
    n = 0
    def visit(node):
      nonlocal n
      for child in ast.iter_child_nodes(node):
        if isinstance(child, (ast.For, ast.While)):
          self.loop_specs[id(child)] = (n, ctr.loops.get(n), ctr.id)
          n += 1
        visit(child)
    visit(fn)
    extra = [o for o in ctr.loops if o >= n]
    if extra:
      raise Unsupported(f'sidecar of {ctr.id} names loop ordinals {extra} but the function has {n} loops')
    return n

  def feasible(self, st, cond=None, full=False):
    """False only if pc (∧ cond) is definitely unsatisfiable."""
    self.feas_calls += 1
    s = self._solver
    s.push()
    try:
      # quantified conjuncts are left out first: a weaker path condition only keeps more
      # paths (sound: an infeasible path yields trivially discharged obligations)
      quant = []
      for p in st.pc:
        if quantifier_free(p):
          s.add(p)
        else:
          quant.append(p)
      if cond is not None:
        s.add(cond)
      if s.check() == z3.unsat:
        return False
      if full and quant:
        s.set('timeout', 150)
        for p in quant:
          s.add(p)
        r = s.check()
        s.set('timeout', self._qt)
        return r != z3.unsat
      return True
    finally:
      s.pop()

  def feasible_full(self, st, cond=None):
    return self.feasible(st, cond, full=True)

  def fork(self, st, cond):
    """Returns [(state, bool)] for the feasible sides of `cond`."""
    cond = z3.simplify(cond)
    if z3.is_true(cond):
      return [(st, True)]
    if z3.is_false(cond):
      return [(st, False)]
    out = []
    t = self.feasible(st, cond)
    f = self.feasible(st, z3.Not(cond))
    if t and f:
      # both sides survive the quantifier-free check: ask again with the quantified facts
      t = self.feasible(st, cond, full=True)
      f = self.feasible(st, z3.Not(cond), full=True) if t else True
    if t:
      out.append((st.assume(cond), True))
    if f:
      out.append((st.assume(z3.Not(cond)), False))
    return out

  def instances(self, specs):
    """Instances of definitional unfoldings / proved lemmas (sound to assume)."""
    out = []
    for kind, name, t in specs or []:
      if kind == 'unfold':
        out.append(z3.Implies(t >= 0, self.recdefs[name][1](t)))
      elif kind == 'lemma':
        P, lo = self.lemma_fns[name]
        out.append(z3.Implies(t >= lo, P(t)))
      elif kind == 'nvar':
        # definite description of store_nvar: name = (g, has array), t = candidate count
        out.append(nvar_is(name[0], name[1], t))
      elif kind == 'axiom':
        # definitional axiom of a named spec function (name documents which), given as a formula
        assert name in DEFINED_SPEC_FUNCTIONS, name
        out.append(t)
      elif kind == 'dkeys':
        # axioms of the ghost key enumeration of one membership array (name = has array)
        from pyvc.expr import dkeys_axioms
        out.append(dkeys_axioms(name))
      elif kind == 'zip':
        # definite description of zip_last for the sequence (name = array K, t = length n)
        from pyvc.expr import zip_axioms
        out.append(zip_axioms(name, t))
      else:
        raise ValueError(kind)
    return out

  def with_hints(self, oid, st, hints, lineno=None):
    """Each hint is its own obligation; the returned state may then assume all of them."""
    for j, hnt in enumerate(hints or []):
      self.oblige(f'{oid}/hint{j}', 'hint', st, hnt, 'intermediate fact (proved, then used)', lineno)
    return st.assume(*hints) if hints else st

  def oblige(self, oid, kind, st, goal, desc='', lineno=None):
    if self.discovery:
      return
    goal = z3.simplify(goal) if not isinstance(goal, bool) else z3.BoolVal(goal)
    if z3.is_true(goal):
      # still an obligation, trivially discharged; recorded for the count
      ob = Obligation(oid, kind, desc, st.pc, goal, lineno)
      ob.verdict, ob.solver = 'unsat', 'simplify'
      self.obligations.append(ob)
      return
    ob = Obligation(oid, kind, desc, st.pc, goal, lineno)
    ob.cases = list(getattr(self, 'case_atoms', []))
    self.obligations.append(ob)

  def unsupp(self, what, node=None):
    line = getattr(node, 'lineno', None)
    raise Unsupported(f'{what} (line {line})')

  def raise_(self, st, name, origin=None, val=None):
    return Outcome('raise', st, Exc(name, val=val, origin=origin))

  # -------------------------------------------------------------- statements
  def exec_block(self, stmts, st):
    """Executes statements; returns list[Outcome]."""
    outs = [Outcome('normal', st)]
    for stmt in stmts:
      nxt = []
      for o in outs:
        if o.kind != 'normal':
          nxt.append(o)
          continue
        nxt.extend(self.exec_stmt(stmt, o.st))
      outs = nxt
      if not any(o.kind == 'normal' for o in outs):
        break
    return outs

  def _from_res(self, results, k):
    """For each normal Res apply k(st, val) -> [Outcome]; exceptions become raise outcomes."""
    outs = []
    for r in results:
      if r.exc is not None:
        outs.append(Outcome('raise', r.st, r.exc))
      else:
        outs.extend(k(r.st, r.val))
    return outs

  def exec_stmt(self, s, st):
    m = getattr(self, 'st_' + type(s).__name__, None)
    if m is None:
      self.unsupp(f'statement {type(s).__name__}', s)
    return m(s, st)

  def st_Pass(self, s, st):
    return [Outcome('normal', st)]

  def st_Break(self, s, st):
    return [Outcome('break', st)]

  def st_Continue(self, s, st):
    return [Outcome('continue', st)]

  def st_Expr(self, s, st):
    if isinstance(s.value, ast.Constant):
      return [Outcome('normal', st)]      # docstring
    if isinstance(s.value, ast.Yield):
      return self.yield_body(s, st)
    return self._from_res(self.ev(s.value, st), lambda st2, v: [Outcome('normal', st2)])

  def yield_body(self, s, st):
    """`yield` of a @contextmanager generator: the with-body is an abstract block that may
    change any heap location, and either finishes normally or raises any exception."""
    if 'body' in st.meta:
      self.unsupp('second yield in a context manager', s)
    h = st.heap
    if self.ctr.cm and self.ctr.enter_ensures is not None and self.inline_depth == 0:
      ctx_e = C.Ctx(self.entry_args, self.entry_heap, h, env=st.env)
      self.oblige('cm/enter-post', 'post', st, self.ctr.enter_ensures(ctx_e),
                  'state established before the body runs', s.lineno)
    newh = h
    for n in list(h.names()):
      if n == 'alloc' or n.startswith(('g:', 'ga:')):
        continue
      newh = newh.set(n, fresh('body_' + n.replace(':', '_'), heap_sort(n)))
    na = fresh('body_alloc', I)
    newh = newh.set('alloc', na)
    base = st.with_heap(newh).assume(na >= h.alloc)
    base.meta['enter_heap'] = h
    outs = []
    s1 = base.copy()
    s1.meta['body'] = 'normal'
    s1.meta['body_heap'] = newh
    outs.append(Outcome('normal', s1))
    ecls = fresh('body_exc_cls', I)
    ev = fresh('body_exc', I)
    s2 = base.assume(cls_in(ecls, 'BaseException'), ev < na, cls_fn(ev) == ecls)
    exc = Exc(ecls, val=VRef(ev), name='<body exception>', origin='with-body')
    s2.meta['body'] = 'raised'
    s2.meta['body_heap'] = newh
    s2.meta['body_exc'] = exc
    outs.append(Outcome('raise', s2, exc))
    return outs

  def st_Return(self, s, st):
    if s.value is None:
      return [Outcome('return', st, VNone)]
    return self._from_res(self.ev(s.value, st), lambda st2, v: [Outcome('return', st2, v)])

  def st_Assign(self, s, st):
    def k(st2, v):
      outs = [Outcome('normal', st2)]
      for t in s.targets:
        nxt = []
        for o in outs:
          if o.kind != 'normal':
            nxt.append(o)
          else:
            nxt.extend(self.assign(t, v, o.st))
        outs = nxt
      return outs
    return self._from_res(self.ev(s.value, st), k)

  def st_AnnAssign(self, s, st):
    if s.value is None:
      return [Outcome('normal', st)]
    return self._from_res(self.ev(s.value, st), lambda st2, v: self.assign(s.target, v, st2))

  def st_AugAssign(self, s, st):
    load = ast.copy_location(ast.BinOp(left=self._as_load(s.target), op=s.op, right=s.value), s)
    return self._from_res(self.ev(load, st), lambda st2, v: self.assign(s.target, v, st2))

  def _as_load(self, t):
    import copy
    t2 = copy.deepcopy(t)
    for n in ast.walk(t2):
      if hasattr(n, 'ctx'):
        n.ctx = ast.Load()
    return t2

  def assign(self, target, v, st):
    """Assign value v to target; returns list[Outcome]."""
    if isinstance(target, ast.Name):
      return [Outcome('normal', st.bind(target.id, v))]
    if isinstance(target, (ast.Tuple, ast.List)):
      items = self.unpack(v, len(target.elts), st, target)
      outs = [Outcome('normal', st)]
      for t, item in zip(target.elts, items):
        nxt = []
        for o in outs:
          nxt.extend(self.assign(t, item, o.st) if o.kind == 'normal' else [o])
        outs = nxt
      return outs
    if isinstance(target, ast.Subscript):
      def k(st2, vals):
        obj, key = vals
        return self.store_subscript(obj, key, v, st2, target)
      return self._from_res(self.ev_list([target.value, target.slice], st), k)
    if isinstance(target, ast.Attribute):
      return self._from_res(
          self.ev(target.value, st),
          lambda st2, obj: self.store_attr(obj, target.attr, v, st2, target))
    self.unsupp(f'assignment target {type(target).__name__}', target)

  def unpack(self, v, n, st, node):
    if isinstance(v, TupleImm):
      if len(v.items) != n:
        self.unsupp('tuple unpack arity', node)
      return v.items
    self.unsupp('unpacking a non-immediate tuple', node)

  def st_Delete(self, s, st):
    outs = [Outcome('normal', st)]
    for t in s.targets:
      nxt = []
      for o in outs:
        if o.kind != 'normal':
          nxt.append(o)
          continue
        if isinstance(t, ast.Name):
          s2 = o.st.copy()
          s2.env.pop(t.id, None)
          nxt.append(Outcome('normal', s2))
        elif isinstance(t, ast.Subscript):
          nxt.extend(self._from_res(
              self.ev_list([t.value, t.slice], o.st),
              lambda st2, vals: self.del_subscript(vals[0], vals[1], st2, t)))
        elif isinstance(t, ast.Attribute):
          nxt.extend(self._from_res(
              self.ev(t.value, o.st),
              lambda st2, obj: self.del_attr(obj, t.attr, st2, t)))
        else:
          self.unsupp('del target', t)
      outs = nxt
    return outs

  def st_If(self, s, st):
    def k(st2, v):
      outs = []
      for st3, side in self.fork(st2, self.truthy(v, st2)):
        outs.extend(self.exec_block(s.body if side else s.orelse, st3))
      return outs
    return self._from_res(self.ev(s.test, st), k)

  def st_Nonlocal(self, s, st):
    # `nonlocal x`: later assignments to x update the enclosing function's variable; that effect
    # lies outside the function under contract (its contract cannot speak about it) and the
    # variable is treated as a local from here on
    return [Outcome('normal', st)]

  def st_Assert(self, s, st):
    def k(st2, v):
      outs = []
      for st3, side in self.fork(st2, self.truthy(v, st2)):
        if side:
          outs.append(Outcome('normal', st3))
        else:
          outs.append(self.raise_(st3, 'AssertionError', origin=f'assert@{s.lineno}'))
      return outs
    return self._from_res(self.ev(s.test, st), k)

  def st_Raise(self, s, st):
    if s.exc is None:
      cur = st.meta.get('handling')
      if cur is None:
        self.unsupp('bare raise outside handler', s)
      return [Outcome('raise', st, cur)]
    def k(st2, v):
      if isinstance(v, Exc):
        return [Outcome('raise', st2, v)]
      if isinstance(v, TypeObj):      # raise ValueError
        return [self.raise_(st2, v.name, origin=f'raise@{s.lineno}')]
      if z3.is_expr(v):               # an exception object value
        e = st2.meta.get(('excobj', v.get_id()))
        if e is not None:
          return [Outcome('raise', st2, e)]
        return [Outcome('raise', st2, Exc(st2.heap.cls(ref(v)), val=v, origin=f'raise@{s.lineno}'))]
      self.unsupp('raise of non-exception', s)
    return self._from_res(self.ev(s.exc, st), k)

  def st_FunctionDef(self, s, st):
    return [Outcome('normal', st.bind(s.name, Closure(s, None)))]

  # try / except / finally ----------------------------------------------------
  def st_Try(self, s, st):
    outs = []
    for o in self.exec_block(s.body, st):
      if o.kind == 'normal':
        outs.extend(self.exec_block(s.orelse, o.st) if s.orelse else [o])
      elif o.kind == 'raise':
        outs.extend(self._handle(s, o))
      else:
        outs.append(o)
    if not s.finalbody:
      return outs
    final = []
    for o in outs:
      for f in self.exec_block(s.finalbody, o.st):
        if f.kind == 'normal':
          final.append(Outcome(o.kind, f.st, o.val))
        else:
          final.append(f)          # finally overrides
    return final

  def exc_matches(self, exc, type_val, st):
    """z3 Bool: exception `exc` is an instance of the handler type(s)."""
    if type_val is None:
      return z3.BoolVal(True)
    names = []
    if isinstance(type_val, TypeObj):
      names = [type_val.name]
    elif isinstance(type_val, TupleImm):
      names = [t.name for t in type_val.items]
    else:
      self.unsupp('except type')
    return z3.Or([cls_in(exc.cls_term, n) for n in names])

  def _handle(self, s, o):
    """Dispatch a raise outcome of the try body to the handlers."""
    outs = []
    st = o.st
    exc = o.val
    remaining = st
    for h in s.handlers:
      tv = None
      if h.type is not None:
        rs = self.ev(h.type, remaining)
        assert len(rs) == 1 and rs[0].exc is None
        tv = rs[0].val
      cond = self.exc_matches(exc, tv, remaining)
      sides = self.fork(remaining, cond)
      nxt = None
      for st2, side in sides:
        if side:
          st3 = st2.copy()
          prev = st3.meta.get('handling')
          st3.meta['handling'] = exc
          if h.name:
            ev_ = exc.val if exc.val is not None else fresh('excobj', Val)
            st3.env[h.name] = ev_
            st3.meta[('excobj', ev_.get_id())] = exc
          for ho in self.exec_block(h.body, st3):
            s4 = ho.st.copy()
            s4.meta['handling'] = prev
            outs.append(Outcome(ho.kind, s4, ho.val))
        else:
          nxt = st2
      if nxt is None:
        return outs
      remaining = nxt
    outs.append(Outcome('raise', remaining, exc))
    return outs

  # with ------------------------------------------------------------------------
  def st_With(self, s, st):
    if len(s.items) != 1:
      self.unsupp('multi-item with', s)
    item = s.items[0]
    def k(st2, cm):
      from pyvc.calls import CMValue
      if isinstance(cm, CMValue):
        cm.st = cm.st if cm.st is not None else st2
      return self.exec_with(cm, item.optional_vars, s.body, st2, s)
    return self._from_res(self.ev(item.context_expr, st), k)

  # loops -----------------------------------------------------------------------
  def loop_spec(self, node):
    o, spec, cid = self.loop_specs.get(id(node), (None, None, None))
    pre = '' if cid in (None, self.ctr.id) else cid + ':'
    return (None if o is None else f'{pre}{o}'), spec

  def assigned_names(self, stmts):
    names = set()
    for s in stmts:
      for n in ast.walk(s):
        if isinstance(n, ast.Name) and isinstance(n.ctx, (ast.Store, ast.Del)):
          names.add(n.id)
    return names

  def written_fields(self, stmts):
    """Syntactic over-approximation of the field arrays a block may write."""
    out = set()
    for s in stmts:
      for n in ast.walk(s):
        if isinstance(n, ast.Attribute) and isinstance(n.ctx, (ast.Store, ast.Del)):
          out.add(n.attr)
        if isinstance(n, ast.Call):
          for ctr in self.callees_of(n):
            out.update(ctr.writes)
          f = n.func
          if isinstance(f, ast.Name) and f.id in ('setattr', 'delattr'):
            out.add('*')
          if isinstance(f, ast.Attribute) and f.attr == '__setattr__':
            out.add('*')
    return out

  def havoc(self, st, names, spec, stmts, entry_ctx):
    """Havoc locals assigned in the loop and the heap parts it may modify."""
    s = st.copy()
    for n in sorted(names):
      if n in s.env and z3.is_expr(s.env[n]):
        s.env[n] = fresh('hv_' + n, Val)
      elif n in s.env and isinstance(s.env[n], Abstract):
        pass     # abstract values assigned in loops keep their (re-assigned) python value
    h = s.heap
    mod = None
    if spec is not None and spec.mod is not None:
      mod = spec.mod(entry_ctx(st))
    facts = []
    # objects allocated by earlier iterations (rows >= the allocation pointer at the loop head)
    # are not described by `mod`: when the body may allocate, only rows that existed before
    # the loop and are outside `mod` are known to be unchanged
    allocs = mod is not None and self.may_allocate(stmts)
    a_head = st.heap.alloc
    rr = z3.Int('hvq_r')
    def framed(old, nm, sort):
      new = fresh(nm, sort)
      facts.append(SAFE_FORALL([rr], z3.Implies(z3.And(rr < a_head, *[rr != m for m in mod]),
                                              new[rr] == old[rr]), patterns=[new[rr]]))
      return new
    for a in CONTAINER_ARRAYS:
      old = h.get(a)
      if mod is None:
        h = h.set(a, fresh('hv_' + a, heap_sort(a)))
        if a == 'llen':
          facts.append(len_nonneg(h.get(a)))
      elif allocs:
        h = h.set(a, framed(old, 'hv_' + a, heap_sort(a)))
        if a == 'llen':
          facts.append(len_nonneg(h.get(a)))
      else:
        new = old
        for r in mod:
          row = fresh('hvrow_' + a, heap_sort(a).range())
          if a == 'llen':
            facts.append(row >= 0)
          new = z3.Store(new, r, row)
        h = h.set(a, new)
    fields = spec.fields if (spec is not None and spec.fields is not None) else self.written_fields(stmts)
    if '*' in fields:
      fields = set(fields) | {n[2:] for n in h.names() if n.startswith('f:')}
      fields.discard('*')
    for f in fields:
      if mod is None:
        h = h.set('f:' + f, fresh('hv_f_' + f, ValArr))
      elif allocs:
        h = h.set('f:' + f, framed(h.get('f:' + f), 'hv_f_' + f, ValArr))
      else:
        new = h.get('f:' + f)
        for r in mod:
          new = z3.Store(new, r, fresh('hvf_' + f, Val))
        h = h.set('f:' + f, new)
    if mod is None:
      from pyvc.state import cls_fn as _cls_fn
      facts.append(tuples_immutable(st.heap.get('llen'), st.heap.get('lelt'), h.get('llen'), h.get('lelt'),
                                    st.heap.alloc, _cls_fn))
    # ghost state: any callee in the body may write the ghost names it declares
    gnames = set(n for n in h.names() if n.startswith('g:') or n.startswith('ga:'))
    for c_ in C.REGISTRY.values():
      gnames.update(getattr(c_, 'ghost_writes', ()) or ())
    for gname in sorted(gnames):
      h = h.set(gname, fresh('hv_' + gname.replace(':', '_'), heap_sort(gname)))
    # allocation may have grown
    na = fresh('hv_alloc', I)
    facts.append(na >= st.heap.alloc)
    h = h.set('alloc', na)
    return s.with_heap(h).assume(*facts)

  NON_ALLOCATING_CALLS = {'isinstance', 'issubclass', 'len', 'getattr', 'hasattr', 'id', 'type',
                          'get', 'keys', 'values', 'items', 'enumerate', 'range', 'reversed', 'zip',
                          # container mutators / readers: change rows, create no object
                          'append', 'pop', 'add', 'remove', 'discard', 'clear', 'extend', 'insert',
                          'index', 'count', 'startswith', 'endswith', 'validate_param_name'}

  def may_allocate(self, stmts):
    """Syntactic over-approximation: the statements may create objects."""
    for s_ in stmts:
      for n in ast.walk(s_):
        if isinstance(n, ast.Call):
          f = n.func
          nm = f.attr if isinstance(f, ast.Attribute) else (f.id if isinstance(f, ast.Name) else None)
          if nm not in self.NON_ALLOCATING_CALLS:
            return True
        elif isinstance(n, (ast.List, ast.Dict, ast.Set, ast.ListComp, ast.DictComp, ast.SetComp,
                            ast.GeneratorExp, ast.JoinedStr, ast.Lambda)):
          return True
        elif isinstance(n, ast.Tuple) and isinstance(n.ctx, ast.Load):
          return True
    return False

  def loop_ctx(self, st, kterm):
    c = C.Ctx(self.entry_args, self.entry_heap, st.heap, env=st.env, k=kterm)
    c.view = getattr(self, '_cur_view', None)    # the sequence view a `for` loop iterates over
    return c

  def check_loop_frame(self, spec, st_before, st_after, oid, node):
    """Rows outside the declared `mod` set must be unchanged by the body."""
    if spec is None or spec.mod is None:
      return
    mod = spec.mod(self.loop_ctx(st_before, None))
    r = z3.Int('fr_r')
    for a in CONTAINER_ARRAYS:
      before, after = st_before.heap.get(a), st_after.heap.get(a)
      if before.eq(after):
        continue
      goal = SAFE_FORALL([r], z3.Implies(
          z3.And(r < st_before.heap.alloc, *[r != m for m in mod]),
          after[r] == before[r]))
      self.oblige(f'{oid}/frame:{a}', 'loop-frame', st_after, goal,
                  f'loop body leaves {a} rows outside mod unchanged', node.lineno)

  def st_For(self, s, st):
    if s.orelse:
      self.unsupp('for-else', s)
    def k(st2, it):
      if isinstance(it, SpecIter):
        # draining an abstract generator: its whole effect is the contract of the call
        if not all(isinstance(b, ast.Pass) for b in s.body):
          self.unsupp('loop over an abstract generator with a non-trivial body', s)
        return [Outcome('normal', st2)]
      view = self.as_seqview(it, st2, s)
      return self.run_loop(s, st2, view)
    return self._from_res(self.ev(s.iter, st), k)

  def st_While(self, s, st):
    if s.orelse:
      self.unsupp('while-else', s)
    return self.run_loop(s, st, None)

  def run_loop(self, s, st, view):
    o, spec = self.loop_spec(s)
    if spec is None:
      # no invariant: allowed only for loops we can unroll (constant length)
      if view is not None and z3.is_int_value(z3.simplify(view.length)):
        return self.unroll(s, st, view, z3.simplify(view.length).as_long())
      if view is not None:
        # length not syntactically constant: ask the solver whether it is a small constant
        for n in (0, 1, 2):
          if not self.feasible_full(st, view.length != n):
            return self.unroll(s, st, view, n)
      self.unsupp(f'loop #{o} without invariant', s)
    oid = f'loop{o}'
    self._cur_view = view
    names = self.assigned_names(s.body)
    if isinstance(s, ast.For):
      names |= self.assigned_names([ast.Expr(value=s.target)]) | {
          n.id for n in ast.walk(s.target) if isinstance(n, ast.Name)}
    k0 = z3.IntVal(0)
    # 1. invariant holds on entry
    st_e = st
    if spec.facts is not None:
      st_e = st_e.assume(*self.instances(spec.facts(self.loop_ctx(st_e, k0))))
    self.oblige(f'{oid}/init', 'loop-init', st_e,
                spec.inv(self.loop_ctx(st_e, k0)), 'invariant holds on loop entry', s.lineno)
    # 2. arbitrary iteration
    kk = fresh('k', I)
    hv = self.havoc(st, names, spec, s.body, lambda x: self.loop_ctx(x, None))
    hv = hv.assume(kk >= 0, spec.inv(self.loop_ctx(hv, kk)))
    if spec.facts is not None:
      hv = hv.assume(*self.instances(spec.facts(self.loop_ctx(hv, kk))))
    outs = []
    # --- exit path(s)
    if view is not None:
      live = getattr(view, 'live', False)
      # a list is iterated live: CPython re-reads length and element at every step
      length = hv.heap.len(view.src) if live else view.length
      exit_sides = [(hv.assume(kk >= length if live else kk == length), None)]
      iter_st = hv.assume(kk < length)
      body_starts = []
      if self.feasible(iter_st):
        if live == 'enumerate':
          item = TupleImm([VInt(kk + view.start), hv.heap.elt(view.src, kk)])
        else:
          item = hv.heap.elt(view.src, kk) if live else view.elt(kk)
        for ao in self.assign(s.target, item, iter_st):
          body_starts.append(ao.st)
    else:
      exit_sides, body_starts = [], []
      for r in self.ev(s.test, hv):
        if r.exc is not None:
          outs.append(Outcome('raise', r.st, r.exc))
          continue
        for st3, side in self.fork(r.st, self.truthy(r.val, r.st)):
          if side:
            body_starts.append(st3)
          else:
            exit_sides.append((st3, None))
    # 3. body preserves the invariant
    for bs in body_starts:
      for bo in self.exec_block(s.body, bs):
        if bo.kind in ('normal', 'continue'):
          if spec.facts is not None:
            bo = Outcome(bo.kind, bo.st.assume(*self.instances(spec.facts(self.loop_ctx(bo.st, kk)))))
          if spec.hints is not None:
            bo = Outcome(bo.kind, self.with_hints(f'{oid}/preserve', bo.st,
                                                  spec.hints(self.loop_ctx(bo.st, kk)), s.lineno))
          self.oblige(f'{oid}/preserve', 'loop-preserve', bo.st,
                      spec.inv(self.loop_ctx(bo.st, kk + 1)),
                      'loop body preserves the invariant', s.lineno)
          if spec.pivots is not None and self.obligations and not self.discovery:
            self.obligations[-1].pivots = spec.pivots(self.loop_ctx(bo.st, kk))
          self.check_loop_frame(spec, bs, bo.st, oid, s)
          if view is not None and view.src is not None and not getattr(view, 'live', False):
            self.check_iter_unmodified(view, bs, bo.st, oid, s)
        elif bo.kind == 'break':
          outs.append(Outcome('normal', bo.st))
        else:
          outs.append(bo)       # return / raise inside the loop body
    for es, _ in exit_sides:
      if self.feasible(es):
        outs.append(Outcome('normal', es))
    return outs

  def check_iter_unmodified(self, view, st_before, st_after, oid, node):
    r = view.src
    for a in ('llen', 'lelt', 'dhas'):
      b, a2 = st_before.heap.get(a), st_after.heap.get(a)
      if not b.eq(a2) and view.src_arrays and a in view.src_arrays:
        self.oblige(f'{oid}/iter-unmodified:{a}', 'loop-frame', st_after, a2[r] == b[r],
                    'the iterated container is not modified by the loop body', node.lineno)

  def unroll(self, s, st, view, n):
    outs = []
    cur = [st]
    for i in range(n):
      nxt = []
      for c in cur:
        for ao in self.assign(s.target, view.elt(z3.IntVal(i)), c):
          for bo in self.exec_block(s.body, ao.st):
            if bo.kind in ('normal', 'continue'):
              nxt.append(bo.st)
            elif bo.kind == 'break':
              outs.append(Outcome('normal', bo.st))
            else:
              outs.append(bo)
      cur = nxt
    outs.extend(Outcome('normal', c) for c in cur)
    return outs

  # ------------------------------------------------------------------ driver
  def run(self):
    """Symbolically executes the function against its contract; fills obligations."""
    ctr = self.ctr
    fn = self.fn
    args = {}
    a = fn.args
    params = [x.arg for x in a.posonlyargs + a.args]
    if a.vararg:
      params.append(a.vararg.arg)
    params += [x.arg for x in a.kwonlyargs]
    if a.kwarg:
      params.append(a.kwarg.arg)
    for p in params:
      args[p] = z3.Const('arg_' + p, Val)
    self.params = params
    heap0 = Heap()
    for n in ('dhas', 'dval', 'llen', 'lelt', 'alloc'):
      heap0.get(n)
    self.entry_args = args
    self.entry_heap = heap0
    st = State(env=dict(args), heap=Heap(heap0.arrs))
    ctx0 = C.Ctx(args, heap0, heap0, env=st.env)
    pre = ctr.requires(ctx0)
    st = st.assume(heap0.alloc >= 0, *self.input_sanity(args, heap0), pre)
    if ctr.defs is not None:
      st = st.assume(ctr.defs(ctx0))
    self.recdefs = ctr.recdefs(ctx0) if ctr.recdefs is not None else {}
    self.lemma_fns = {}
    for name, (basefact, _) in self.recdefs.items():
      st = st.assume(basefact)
    if ctr.lemmas is not None:
      # lemmas are proved by induction (base + step for a fresh index, with the unfoldings of
      # the recursive spec functions at that index); afterwards instances may be used
      for name, P, lo, uses in ctr.lemmas(ctx0):
        self.oblige(f'lemma:{name}/base', 'lemma', st, P(z3.IntVal(lo)), f'lemma {name}: base case')
        i = fresh('ind', I)
        hyps = [i >= lo, P(i)] + [self.recdefs[u][1](i) for u in uses]
        # earlier lemmas may be used at i and i+1
        for prev, (Pp, lop) in self.lemma_fns.items():
          hyps += [z3.Implies(i >= lop, Pp(i)), z3.Implies(i + 1 >= lop, Pp(i + 1))]
        self.oblige(f'lemma:{name}/step', 'lemma', st.assume(*hyps), P(i + 1),
                    f'lemma {name}: induction step')
        self.lemma_fns[name] = (P, lo)
    if ctr.entry_facts is not None:
      st = st.assume(*self.instances(ctr.entry_facts(ctx0)))
    self.case_atoms = ctr.cases(ctx0) if ctr.cases is not None else []
    self.entry_state = st
    # vacuity guard: the precondition must be satisfiable
    self.pre_sat = self.check_sat(st.pc)
    outs = self.exec_block(fn.body, st)
    for o in outs:
      if o.kind == 'normal':
        o = Outcome('return', o.st, VNone)
      self.paths += 1
      if ctr.cm and 'body' in o.st.meta:
        self.exits['return' if o.kind == 'return' else 'raise'] += 1
        self.check_cm_exit(o)
        continue
      if ctr.cm and o.kind == 'return':
        self.oblige('cm/yields', 'post', o.st, z3.BoolVal(False),
                    'a context-manager generator must yield before returning')
        continue
      if o.kind == 'return':
        self.exits['return'] += 1
        self.check_normal_exit(o)
      elif o.kind == 'raise':
        self.exits['raise'] += 1
        self.check_raise_exit(o)
      else:
        self.unsupp(f'outcome {o.kind} at function level')
    return self.obligations

  def check_sat(self, pc):
    s = z3.Solver()
    s.set('timeout', 1000)
    s.add(*pc)
    return str(s.check())

  def input_sanity(self, args, heap):
    """Arguments are existing objects (references below alloc)."""
    facts = []
    for v in args.values():
      facts.append(z3.Implies(is_VRef(v), ref(v) < heap.alloc))
    # closed heap: no container of the initial heap holds a reference to a not yet
    # allocated object (Python has no dangling references)
    rr, ii = z3.Ints('cl_r cl_i')
    kk = z3.Const('cl_k', Val)
    dv, le = heap.get('dval'), heap.get('lelt')
    facts.append(SAFE_FORALL([rr, kk], z3.Implies(is_VRef(dv[rr][kk]), ref(dv[rr][kk]) < heap.alloc),
                           patterns=[dv[rr][kk]]))
    facts.append(SAFE_FORALL([rr, ii], z3.Implies(is_VRef(le[rr][ii]), ref(le[rr][ii]) < heap.alloc),
                           patterns=[le[rr][ii]]))
    # heap well-formedness: list lengths are non-negative in every heap
    facts.append(len_nonneg(heap.get('llen')))
    from pyvc.calls import param_row_axiom
    facts.append(param_row_axiom())
    from pyvc.sorts import SINGLETONS, SINGLETON_CLASS
    from pyvc.state import cls_fn
    for name, r in SINGLETONS.items():
      facts.append(cls_fn(z3.IntVal(r)) == z3.IntVal(CLASSES[SINGLETON_CLASS[name]]))
    return facts

  def frame_goals(self, ctx, st):
    """Frame: rows of objects outside `mod` and fields outside `writes` are unchanged."""
    goals = []
    if self.ctr.havoc_all:
      return goals      # the function runs arbitrary user code: no frame is claimed
    mod = self.ctr.mod(C.Ctx(self.entry_args, self.entry_heap, self.entry_heap, env=self.entry_args))
    r = z3.Int('fr_r')
    for a in CONTAINER_ARRAYS:
      before, after = self.entry_heap.get(a), st.heap.get(a)
      if before.eq(after):
        continue
      goals.append((f'frame:{a}', SAFE_FORALL([r], z3.Implies(
          z3.And(r < self.entry_heap.alloc, *[r != m for m in mod]),
          after[r] == before[r]))))
    for n in st.heap.names():
      if n.startswith('f:'):
        before, after = self.entry_heap.get(n), st.heap.get(n)
        if before.eq(after):
          continue
        if n[2:] not in self.ctr.writes:
          goals.append((f'frame:{n}', SAFE_FORALL([r], z3.Implies(
              r < self.entry_heap.alloc, after[r] == before[r]))))
        else:
          goals.append((f'frame:{n}', SAFE_FORALL([r], z3.Implies(
              z3.And(r < self.entry_heap.alloc, *[r != m for m in mod]),
              after[r] == before[r]))))
    return goals

  def check_cm_exit(self, o):
    """Exit of a context-manager generator after its with-body ran."""
    ctr = self.ctr
    st = o.st
    body_heap = st.meta['body_heap']
    ctx = C.Ctx(self.entry_args, self.entry_heap, st.heap, env=st.env, body=body_heap)
    E = st.meta.get('body_exc')
    if st.meta['body'] == 'normal':
      if o.kind == 'raise':
        self.oblige('cm/exit-raises', 'raises', st, z3.BoolVal(False),
                    f'the body finished normally but the context manager raises {o.val}')
      else:
        if ctr.exit_post is not None:
          self.oblige('cm/exit-post', 'post', st, ctr.exit_post(ctx), 'state after a normal body')
    else:
      if o.kind == 'return':
        allowed = ctr.swallows(ctx, E) if ctr.swallows is not None else z3.BoolVal(False)
        self.oblige('cm/no-swallow', 'raises', st, allowed,
                    'an exception raised by the body is not swallowed')
      else:
        F = o.val
        # PEP 479: an exception derived from StopIteration that is *raised by the generator*
        # (not the body's own exception passing through) never reaches the with-statement: the
        # interpreter replaces it by a RuntimeError, which this encoding does not model.  So a
        # generator-based manager must not raise one (this is what the former generator version
        # of try_with_lazy_message did with a proxy of the body's StopIteration).
        trusted('contextlib generator protocol: what the generator raises after `yield` escapes the with '
                'block (PEP 479 conversion excluded by obligation cm/pep479)')
        if E is not None and getattr(E, 'val', None) is not None and getattr(F, 'val', None) is not None:
          same = F.val == E.val
        else:
          same = z3.BoolVal(False)
        self.oblige('cm/pep479', 'raises', st,
                    z3.Or(same, z3.Not(cls_in(F.cls_term, 'StopIteration'))),
                    'the generator raises no StopIteration-derived exception of its own after yield')
        if ctr.exc_rel is not None:
          self.oblige('cm/exc-rel', 'raises', st, ctr.exc_rel(ctx, E, F),
                      'the escaping exception is the body\'s exception (or its decorated form)')
      if ctr.exit_post is not None:
        self.oblige('cm/exit-post-exc', 'post', st, ctr.exit_post(ctx), 'state after a raising body')

  def check_normal_exit(self, o):
    ctr = self.ctr
    st = o.st
    pre_ctx = C.Ctx(self.entry_args, self.entry_heap, self.entry_heap, env=self.entry_args)
    ctx = C.Ctx(self.entry_args, self.entry_heap, st.heap, result=o.val, env=st.env)
    if ctr.facts is not None:
      st = st.assume(*self.instances(ctr.facts(ctx)))
    if ctr.hints is not None:
      st = self.with_hints('post', st, ctr.hints(ctx))
    for name, cond in ctr.raises.items():
      self.oblige(f'exit/no-{name}', 'raises-iff', st, z3.Not(cond(pre_ctx)),
                  f'returns normally only when the {name} condition is false')
    self.oblige('post', 'post', st, ctr.ensures(ctx), 'postcondition at return')
    if ctr.pivots is not None and self.obligations and not self.discovery:
      self.obligations[-1].pivots = ctr.pivots(ctx)
    for gid, g in self.frame_goals(ctx, st):
      self.oblige(gid, 'frame', st, g, 'frame condition at return')

  def check_raise_exit(self, o):
    ctr = self.ctr
    st, exc = o.st, o.val
    pre_ctx = C.Ctx(self.entry_args, self.entry_heap, self.entry_heap, env=self.entry_args)
    ctx = C.Ctx(self.entry_args, self.entry_heap, st.heap, env=st.env, exc=exc)
    # which declared exception classes can this be?
    allowed = []
    for name, cond in ctr.raises.items():
      allowed.append(z3.And(cls_in(exc.cls_term, name), cond(pre_ctx)))
    for name in ctr.may_raise:
      allowed.append(cls_in(exc.cls_term, name))
    label = exc.name or 'exception'
    # `may_raise_from`: unconditional exceptions are allowed only when they come from the listed
    # callees (e.g. user code run by an abstract callee), not from anywhere in the body
    only_from = getattr(ctr, 'may_raise_from', None)
    if only_from is not None and not any(str(exc.origin or '').startswith(p) for p in only_from):
      allowed = [a for a in allowed[:len(ctr.raises)]]
    if ctr.facts is not None:
      st = st.assume(*self.instances(ctr.facts(ctx)))
    if ctr.hints is not None:
      st = self.with_hints('raise', st, ctr.hints(ctx))
    self.oblige(f'raise:{label}', 'raises', st, z3.Or(allowed) if allowed else z3.BoolVal(False),
                f'{label} from {exc.origin} escapes only as the contract allows')
    for name, post in ctr.raises_post.items():
      self.oblige(f'raise-post:{name}', 'raises-post', st,
                  z3.Implies(cls_in(exc.cls_term, name), post(ctx)),
                  f'state on {name} exit')
    for gid, g in self.frame_goals(ctx, st):
      self.oblige('raise-' + gid, 'frame', st, g, 'frame condition at exceptional exit')
