"""Developer entry: verify one or more contracts and print obligations."""
import sys, importlib
sys.path.insert(0, '/verif')
import contracts.signatures, contracts.history, contracts.config, contracts.building, contracts.daglish, contracts.selectors, contracts.diffing, contracts.tagging, contracts.serialization, contracts.materialize, contracts.flags, contracts.copying, contracts.argfactory, contracts.partial
from pyvc import contract as C, verify, loader
for c in C.REGISTRY.values():
  if not c.abstract:
    loader.bind_ast(c)
ids = sys.argv[1:] or [c for c in C.REGISTRY if C.REGISTRY[c].kind == 'contract' and not C.REGISTRY[c].abstract]
for cid in ids:
  r = verify.verify_function(cid)
  print(r.summary())
  if r.status != 'proved' or '-v' in sys.argv:
    for m in r.obligations:
      print('   ', m['verdict'], m['oid'], m['queries'], f"{m['time']:.2f}s", m['solvers'], m['desc'][:90])
