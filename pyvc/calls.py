"""Calls: builtins (assumed contracts, DESIGN §7.2), contract application, inlining."""
import ast
import z3
from pyvc.sorts import *  # noqa
from pyvc.sorts import _forall as SAFE_FORALL
from pyvc.state import *  # noqa
from pyvc.state import cls_fn
from pyvc import contract as C
from pyvc.expr import DICTLIKE, SEQLIKE, dkeys_cnt, dkeys_seq, dkeys_axioms

TRUSTED_USED = set()      # names of assumed builtin contracts actually used in this run


def trusted(name):
  TRUSTED_USED.add(name)


def z3util_vars(term):
  """Free constants of a z3 term."""
  seen, out, todo = set(), [], [term]
  while todo:
    t = todo.pop()
    if t.get_id() in seen:
      continue
    seen.add(t.get_id())
    if z3.is_const(t) and t.decl().kind() == z3.Z3_OP_UNINTERPRETED:
      out.append(t)
    elif z3.is_quantifier(t):
      todo.append(t.body())
    else:
      todo.extend(t.children())
  return out


def auto_inline_contract(file, name):
  """An inline pseudo-contract for the top-level function `name` of `file`, if there is one and it
  is a plain function (no decorators, no generator, no global/nonlocal state, no nested defs)."""
  from pyvc import loader
  cid = f'auto-inline:{file}:{name}'
  if cid in C.REGISTRY:
    return C.REGISTRY[cid]
  if file.startswith('@verif/') or C.lookup_method(name):
    return None
  try:
    _, tree = loader.parse_file(file)
  except Exception:   # pylint: disable=broad-except
    return None
  node = next((n for n in tree.body if isinstance(n, ast.FunctionDef) and n.name == name), None)
  if node is None or node.decorator_list or node.args.vararg or node.args.kwarg:
    return None
  for n in ast.walk(node):
    if isinstance(n, (ast.Yield, ast.YieldFrom, ast.Global, ast.Nonlocal, ast.Await, ast.Lambda)) or (
        isinstance(n, (ast.FunctionDef, ast.ClassDef)) and n is not node):
      return None
  ctr = C.Contract(cid, file, name, kind='inline',
                   note='helper without a contract, inlined into its callers on every run')
  # found through its file only: never by bare name from another module
  C.BY_METHOD[name].remove(ctr)
  if not C.BY_METHOD[name]:
    del C.BY_METHOD[name]
  try:
    loader.bind_ast(ctr)
  except Exception:   # pylint: disable=broad-except
    C.REGISTRY.pop(cid, None)
    return None
  return ctr


class CallMixin:

  # ---------------------------------------------------------------- helpers
  def method_names(self):
    return C.BY_METHOD.keys()

  def callees_of(self, call_node):
    f = call_node.func
    name = f.attr if isinstance(f, ast.Attribute) else (f.id if isinstance(f, ast.Name) else None)
    return C.lookup_method(name) if name else []

  def resolve_contract(self, name, recv, st, node):
    """Finds the contract for method/function `name` (override table first)."""
    src = ast.unparse(node.func) if node is not None and isinstance(node, ast.Call) else None
    cur = self.ctr_stack[-1] if getattr(self, 'ctr_stack', None) else self.ctr
    if src is not None and src in cur.calls:
      return C.REGISTRY[cur.calls[src]]
    cands = C.lookup_method(name)
    if not cands:
      return None
    if len(cands) == 1:
      return cands[0]
    # disambiguate by the receiver's class when it is determined
    if recv is not None and z3.is_expr(recv):
      for c in cands:
        clsname = c.qualname.split('.')[0]
        if clsname in CLASSES and not self.feasible(
            st, z3.Not(z3.And(is_VRef(recv), cls_in(st.heap.cls(ref(recv)), clsname)))):
          return c
    raise Unsupported(f'ambiguous callee {name}: {[c.id for c in cands]} '
                      f'(line {getattr(node, "lineno", None)})')

  def bind_args(self, ctr, pos, kw, node):
    """Maps actual arguments onto the callee's parameter names."""
    params = list(ctr.params)
    argmap = {}
    if len(pos) > len(params):
      raise Unsupported(f'too many positional arguments for {ctr.id}')
    for p, v in zip(params, pos):
      argmap[p] = v
    for k, v in kw.items():
      if k not in params:
        raise Unsupported(f'unknown keyword {k} for {ctr.id}')
      argmap[k] = v
    for p in params:
      if p not in argmap:
        if p in ctr.defaults:
          d = ctr.defaults[p]
          argmap[p] = d() if callable(d) else d
        else:
          raise Unsupported(f'missing argument {p} for {ctr.id} '
                            f'(line {getattr(node, "lineno", None)})')
    return argmap

  def call_named_contract(self, cid, pos, kw, st, node):
    ctr = C.REGISTRY.get(cid)
    if ctr is None:
      raise Unsupported(f'no contract {cid} (line {getattr(node, "lineno", None)})')
    return self.call_contract(ctr, pos, kw, st, node)

  def call_contract(self, ctr, pos, kw, st, node):
    argmap = self.bind_args(ctr, pos, kw, node)
    if ctr.kind == 'inline':
      return self.inline_call(ctr.node, argmap, st, node, ctr)
    if ctr.cm:
      return self.enter_cm(ctr, argmap, st, node)
    return self.apply_contract(ctr, argmap, st, node)

  def call_property(self, cid, recv, st, node):
    ctr = C.REGISTRY[cid]
    return self.call_contract(ctr, [recv], {}, st, node)

  # ------------------------------------------------------- contract application
  def havoc_call(self, st, ctr, mod):
    """Post-heap of a call: rows in `mod` and fields in `writes` are new, rest kept."""
    h = st.heap
    facts = []
    r = z3.Int('hc_r')
    if ctr.havoc_all:
      newh = h
      for n in list(h.names()):
        if n != 'alloc' and not n.startswith(('g:', 'ga:')):
          newh = newh.set(n, fresh('any_' + n.replace(':', '_'), heap_sort(n)))
      for gname in getattr(ctr, 'ghost_writes', ()):
        newh = newh.set(gname, fresh('ghost_' + gname.replace(':', '_'), heap_sort(gname)))
      na = fresh('alloc', I)
      newh = newh.set('alloc', na)
      return st.with_heap(newh).assume(
          na >= h.alloc, len_nonneg(newh.get('llen')),
          # whatever the callee does, tuples are immutable
          tuples_immutable(h.get('llen'), h.get('lelt'), newh.get('llen'), newh.get('lelt'), h.alloc, cls_fn))
    if ctr.allocates:
      na = fresh('alloc', I)
      facts.append(na >= h.alloc)
      newh = h.set('alloc', na)
      for a in CONTAINER_ARRAYS:
        old = h.get(a)
        new = fresh(a, heap_sort(a))
        facts.append(SAFE_FORALL([r], z3.Implies(z3.And(r < h.alloc, *[r != m for m in mod]),
                                               new[r] == old[r]), patterns=[new[r]]))
        if a == 'llen':
          facts.append(len_nonneg(new))
        newh = newh.set(a, new)
    else:
      newh = h
      for a in CONTAINER_ARRAYS:
        new = h.get(a)
        for m in mod:
          row = fresh('row_' + a, heap_sort(a).range())
          if a == 'llen':
            facts.append(row >= 0)
          new = z3.Store(new, m, row)
        newh = newh.set(a, new)
    for f in ctr.writes:
      old = h.get('f:' + f)
      if ctr.allocates:
        new = fresh('f_' + f, ValArr)
        facts.append(SAFE_FORALL([r], z3.Implies(z3.And(r < h.alloc, *[r != m for m in mod]),
                                               new[r] == old[r]), patterns=[new[r]]))
      else:
        new = old
        for m in mod:
          new = z3.Store(new, m, fresh('fv_' + f, Val))
      newh = newh.set('f:' + f, new)
    # ghost state the callee declares it writes is new after the call (its post-conditions say
    # what it is); without this a clause such as g' == g + 1 would contradict g' == g and
    # silently prune the path
    for gname in getattr(ctr, 'ghost_writes', ()):
      newh = newh.set(gname, fresh('ghost_' + gname.replace(':', '_'), heap_sort(gname)))
    return st.with_heap(newh).assume(*facts)

  def apply_contract(self, ctr, argmap, st, node):
    n = self.call_ord.setdefault(ctr.id, 0)
    self.call_ord[ctr.id] = n + 1
    line = getattr(node, 'lineno', None)
    ctx_pre = C.Ctx(argmap, st.heap, st.heap, env=argmap)
    # locals visible at the call: those of the current frame, then of the frames it was inlined
    # into (a contract may speak about the function under verification's own locals)
    import collections as _collections
    ctx_pre.caller = _collections.ChainMap(st.env, *reversed(getattr(self, 'frame_envs', [])))
    ctx_pre.caller_entry_alloc = self.entry_heap.alloc
    # the caller's entry state, for preconditions of abstract callees that relate the values
    # handed over to what the caller itself was given
    ctx_pre.caller_entry = C.Ctx(self.entry_args, self.entry_heap, st.heap, env=st.env)
    self.oblige(f'call:{ctr.id}@{line}/pre', 'call-pre', st, ctr.requires(ctx_pre),
                f'precondition of {ctr.id}', line)
    if ctr.abstract:
      trusted(f'assumed contract: {ctr.id}')
    if ctr.defs is not None:
      st = st.assume(ctr.defs(ctx_pre))
    out = []
    mod = ctr.mod(ctx_pre)
    conds = []
    for name, cond in ctr.raises.items():
      c = cond(ctx_pre)
      conds.append(c)
      if self.feasible(st, c):
        se = self.havoc_call(st.assume(c), ctr, mod)
        ctx_e = C.Ctx(argmap, st.heap, se.heap, env=argmap)
        ctx_e.caller = ctx_pre.caller
        if name in ctr.raises_post:
          se = se.assume(ctr.raises_post[name](ctx_e))
        out.append(Res(se, exc=Exc(name, origin=f'{ctr.id}@{line}')))
    for name in ctr.may_raise:
      se = self.havoc_call(st, ctr, mod)
      cls_t = fresh('exc_cls', I)
      ev = fresh('exc_obj', I)
      exc_obj = Exc(cls_t, val=VRef(ev), name=name, origin=f'{ctr.id}@{line}')
      ctx_e = C.Ctx(argmap, st.heap, se.heap, env=argmap, exc=exc_obj)
      ctx_e.caller = ctx_pre.caller
      describes_exc = False
      if name in ctr.raises_post:
        post_e = ctr.raises_post[name](ctx_e)
        describes_exc = any(str(v) == str(ev) for v in z3util_vars(post_e))
        se = se.assume(post_e)
      if describes_exc:
        # the contract speaks about the exception object itself (it may be one that existed
        # before the call): only its class is fixed here
        se = se.assume(cls_in(cls_t, name), ev < se.heap.alloc, cls_fn(ev) == cls_t)
      else:
        se = se.assume(cls_in(cls_t, name), ev >= st.heap.alloc, ev < se.heap.alloc, cls_fn(ev) == cls_t)
      out.append(Res(se, exc=exc_obj))
    sn = st.assume(z3.Not(z3.Or(conds))) if conds else st
    if self.feasible(sn):
      sn = self.havoc_call(sn, ctr, mod)
      if ctr.result == 'none':
        res = VNone
      elif ctr.result == 'iter':
        res = SpecIter()
      elif isinstance(ctr.result, tuple) and ctr.result[0] == 'tuple':
        res = TupleImm([fresh('res', Val) for _ in range(ctr.result[1])])
      else:
        res = fresh('res', Val)
      items = res.items if isinstance(res, TupleImm) else [res]
      sane = [z3.Implies(is_VRef(x), ref(x) < sn.heap.alloc) for x in items if z3.is_expr(x)]
      ctx_post = C.Ctx(argmap, st.heap, sn.heap, result=res, env=argmap)
      ctx_post.caller = ctx_pre.caller
      sn = sn.assume(*sane, ctr.ensures(ctx_post))
      out.append(Res(sn, res))
    return out

  # ---------------------------------------------------------------- inlining
  def inline_call(self, fnode, argmap, st, node, ctr=None, closure_env=None):
    if self.inline_depth > 6:
      raise Unsupported('inlining too deep')
    caller_env = st.env
    s2 = st.copy()
    env = dict(closure_env if closure_env is not None else {})
    env.update(argmap)
    s2.env = env
    self.inline_depth += 1
    if not hasattr(self, 'frame_envs'):
      self.frame_envs = []
    self.frame_envs.append(caller_env)      # locals of the enclosing frames (outermost first)
    saved_globals = self.module_globals
    if ctr is not None:
      self.ctr_stack.append(ctr)
      self.register_loops(fnode, ctr)
      from pyvc import loader as _loader
      self.module_globals = dict(_loader.module_constants(ctr.file))
      self.module_globals.update(C.MODULE_GLOBALS.get(ctr.file, {}))
    try:
      if isinstance(fnode, ast.Lambda):
        rs = self.ev(fnode.body, s2)
        out = []
        for r in rs:
          s3 = r.st.copy()
          s3.env = caller_env
          out.append(Res(s3, r.val, r.exc))
        return out
      outs = self.exec_block(fnode.body, s2)
    finally:
      self.inline_depth -= 1
      self.frame_envs.pop()
      self.module_globals = saved_globals
      if ctr is not None:
        self.ctr_stack.pop()
    out = []
    for o in outs:
      s3 = o.st.copy()
      s3.env = caller_env
      if o.kind in ('normal',):
        out.append(Res(s3, VNone))
      elif o.kind == 'return':
        out.append(Res(s3, o.val))
      elif o.kind == 'raise':
        out.append(Res(s3, exc=o.val))
      else:
        raise Unsupported(f'{o.kind} escapes inlined function')
    return out

  def closure_params(self, fnode, pos, kw):
    a = fnode.args
    names = [x.arg for x in a.posonlyargs + a.args]
    if a.vararg or a.kwarg:
      raise Unsupported('closure with *args/**kwargs')
    argmap = dict(zip(names, pos))
    argmap.update(kw)
    return argmap

  # ---------------------------------------------------------------- Call node
  def ex_Call(self, e, st):
    if any(isinstance(a, ast.Starred) for a in e.args) or any(k.arg is None for k in e.keywords):
      return self.call_with_splat(e, st)
    if isinstance(e.func, ast.Name) and e.func.id in ('tuple', 'list') and len(e.args) == 1 \
        and not e.keywords and isinstance(e.args[0], ast.GeneratorExp):
      return self.records_of_genexp(e.args[0], e.func.id, st, e)
    kwnames = [k.arg for k in e.keywords]
    parts = [e.func] + list(e.args) + [k.value for k in e.keywords]
    # `recv.m(...)` overridden by a contract whose first parameter is `self`: the contract
    # receives the receiver object (same convention as call_with_splat)
    cur = self.ctr_stack[-1] if getattr(self, 'ctr_stack', None) else self.ctr
    src = ast.unparse(e.func)
    if (isinstance(e.func, ast.Attribute) and e.func.attr == 'with_traceback' and len(e.args) == 1
        and not e.keywords and src not in cur.calls):
      trusted('BaseException.with_traceback(tb) returns its receiver; cannot fail for a traceback or None')
      return self.then(self.ev_list([e.func.value, e.args[0]], st), lambda st2, vals: [Res(st2, vals[0])])
    as_method = (isinstance(e.func, ast.Attribute) and src in cur.calls and
                 (C.REGISTRY[cur.calls[src]].params or [None])[0] == 'self')
    if as_method:
      parts[0] = e.func.value
    def k(st2, vals):
      f = vals[0]
      pos = vals[1:1 + len(e.args)]
      kw = dict(zip(kwnames, vals[1 + len(e.args):]))
      if as_method:
        return self.call_named_contract(cur.calls[src], [f] + pos, kw, st2, e)
      return self.do_call(f, pos, kw, st2, e)
    return self.then(self.ev_list(parts, st), k)

  def records_of_genexp(self, ge, kind, st, node):
    """tuple(R(x) for x in seq) / tuple(A(x) if isinstance(x, T) else B(x) for x in seq) where R, A,
    B are one-field record classes: a fresh sequence of fresh, pairwise distinct records, the i-th
    one holding the i-th element (summary with a quantified post; no user code runs)."""
    from pyvc.state import cls_fn
    from pyvc.expr import comp_ref
    g = ge.generators[0] if len(ge.generators) == 1 else None
    def rec_cls(x):
      f = x.func if isinstance(x, ast.Call) else None
      nm = f.attr if isinstance(f, ast.Attribute) else (f.id if isinstance(f, ast.Name) else None)
      ok = (nm in DATACLASSES and len(DATACLASSES[nm]) == 1 and len(x.args) == 1 and not x.keywords
            and isinstance(x.args[0], ast.Name) and g is not None and isinstance(g.target, ast.Name)
            and x.args[0].id == g.target.id)
      return nm if ok else None
    if g is None or g.ifs or not isinstance(g.target, ast.Name):
      self.unsupp('generator expression outside the summarised forms', node)
    elt = ge.elt
    if isinstance(elt, ast.IfExp):
      t = elt.test
      okt = (isinstance(t, ast.Call) and isinstance(t.func, ast.Name) and t.func.id == 'isinstance'
             and len(t.args) == 2 and isinstance(t.args[0], ast.Name) and t.args[0].id == g.target.id
             and isinstance(t.args[1], ast.Name) and t.args[1].id in ('str', 'int'))
      ca, cb = rec_cls(elt.body), rec_cls(elt.orelse)
      if not (okt and ca and cb):
        self.unsupp('generator expression outside the summarised forms', node)
      tname = t.args[1].id
      choose = lambda x: (is_VStr(x) if tname == 'str' else z3.Or(is_VInt(x), is_VBool(x)))
    else:
      ca = cb = rec_cls(elt)
      if not ca:
        self.unsupp('generator expression outside the summarised forms', node)
      choose = lambda x: z3.BoolVal(True)
    fa, fb = DATACLASSES[ca][0], DATACLASSES[cb][0]
    trusted(f'{kind}(<record>(x) for x in seq): one fresh {ca}/{cb} record per element, in order')
    def k(st2, itv):
      view = self.as_seqview(itv, st2, node)
      extra = []
      if getattr(view, 'is_keys', False):
        extra.append(dkeys_axioms(view.has))
      st3 = st2.assume(*extra)
      h = st3.heap
      site = z3.IntVal(node.lineno * 1000 + node.col_offset)
      a0 = h.alloc
      n = view.length
      i, j = z3.Ints('ge_i ge_j')
      rec = lambda x: comp_ref(site, a0, VInt(x))
      st4, l = self.new_list_from(st3, z3.If(n > 0, n, 0), fresh('ge_arr', ValArr),
                                  'tuple' if kind == 'tuple' else 'list')
      h4 = st4.heap
      arr = h4.eltarr(l)
      na = fresh('ge_alloc', I)
      r = z3.Int('ge_r')
      newh = h4.set('alloc', na)
      facts = [na >= h4.alloc,
               SAFE_FORALL([i, j], z3.Implies(z3.And(0 <= i, i < j, j < n), rec(i) != rec(j)),
                           patterns=[z3.MultiPattern(rec(i), rec(j))])]
      fields = sorted({fa, fb})
      newf = {}
      for f in fields:
        newf[f] = fresh('ge_f_' + f, ValArr)
        oldf = h4.get('f:' + f)
        facts.append(SAFE_FORALL([r], z3.Implies(r < h4.alloc, newf[f][r] == oldf[r]), patterns=[newf[f][r]]))
        newh = newh.set('f:' + f, newf[f])
      x_i = view.elt(i)
      facts.append(SAFE_FORALL([i], z3.Implies(z3.And(0 <= i, i < n), z3.And(
          arr[i] == VRef(rec(i)), rec(i) >= h4.alloc, rec(i) < na,
          cls_fn(rec(i)) == z3.If(choose(x_i), z3.IntVal(CLASSES[ca]), z3.IntVal(CLASSES[cb])),
          z3.If(choose(x_i), newf[fa][rec(i)] == x_i, newf[fb][rec(i)] == x_i))), patterns=[arr[i]]))
      return [Res(st4.with_heap(newh).assume(*facts), VRef(l))]
    return self.then(self.ev(g.iter, st), k)

  def call_with_splat(self, e, st):
    """f(*args, **kwargs) with a single list splat and a single dict splat: only for callees
    that have an abstract contract taking (receiver, args list, kwargs dict)."""
    stars = [a for a in e.args if isinstance(a, ast.Starred)]
    dstars = [k for k in e.keywords if k.arg is None]
    plain_kw = [k for k in e.keywords if k.arg is not None]
    if len(stars) != 1 or len(e.args) != 1 or len(dstars) > 1 or plain_kw:
      self.unsupp('call with *args/**kwargs outside the supported form', e)
    if len(stars) == 1 and not dstars and isinstance(stars[0].value, ast.Call):
      # f(*g(...)) where g returns an immediate tuple of known width: an ordinary call
      def kt(st2, vals):
        if not isinstance(vals[1], TupleImm):
          self.unsupp('f(*call()) where the call does not return a tuple of known width', e)
        return self.do_call(vals[0], list(vals[1].items), {}, st2, e)
      return self.then(self.ev_list([e.func, stars[0].value], st), kt)
    cur = self.ctr_stack[-1]
    src = ast.unparse(e.func)
    if src not in cur.calls:
      self.unsupp(f'splat call of `{src}` without an abstract contract', e)
    target = C.REGISTRY[cur.calls[src]]
    # a contract whose first parameter is `self` receives the receiver object, otherwise the
    # callable value itself (e.g. self.__fn_or_cls__)
    as_method = isinstance(e.func, ast.Attribute) and target.params and target.params[0] == 'self'
    parts = [e.func.value if as_method else e.func, stars[0].value]
    if dstars:
      parts.append(dstars[0].value)
    def k(st2, vals):
      first = vals[0].recv if isinstance(vals[0], BoundMethod) else vals[0]
      pos = [first] + list(vals[1:]) + ([VNone] if not dstars else [])
      return self.call_named_contract(cur.calls[src], pos, {}, st2, e)
    return self.then(self.ev_list(parts, st), k)

  def do_call(self, f, pos, kw, st, node):
    if isinstance(f, Closure):
      env = f.env if f.env is not None else st.env
      return self.inline_call(f.node, self.closure_params(f.node, pos, kw), st, node,
                              closure_env=env)
    if isinstance(f, BuiltinFn):
      return self.call_builtin(f.name, pos, kw, st, node)
    if isinstance(f, TypeObj):
      return self.call_type(f.name, pos, kw, st, node)
    if isinstance(f, BoundMethod):
      return self.call_method(f.recv, f.name, pos, kw, st, node)
    if isinstance(f, SpecFn):
      return self.call_named_contract(f.name, pos, kw, st, node)
    if z3.is_expr(f):
      return self.call_value(f, pos, kw, st, node)
    self.unsupp(f'call of {type(f).__name__}', node)

  def call_value(self, f, pos, kw, st, node):
    """Call of a first-class callable value: needs an abstract-callable contract."""
    cur = self.ctr_stack[-1]
    src = ast.unparse(node.func)
    if src in cur.calls:
      return self.call_named_contract(cur.calls[src], [f] + pos, kw, st, node)
    self.unsupp(f'call of a callable value `{src}` without contract', node)

  # ---------------------------------------------------------------- builtins
  def call_builtin(self, name, pos, kw, st, node):
    m = getattr(self, 'bi_' + name.replace('.', '_'), None)
    if m is not None:
      return m(pos, kw, st, node)
    # module-level function with a contract (ordered_arguments, _compare_buildable, ...)
    short = name.split('.')[-1]
    ctr = self.resolve_contract(short, None, st, node)
    if ctr is not None:
      return self.call_contract(ctr, pos, kw, st, node)
    # a plain helper function of the same module that has no contract: its real body is inlined
    # (it becomes part of the caller's verified text and of its source hash)
    if '.' not in name:
      cur = self.ctr_stack[-1] if getattr(self, 'ctr_stack', None) else self.ctr
      ctr = auto_inline_contract(cur.file, name)
      if ctr is not None:
        return self.call_contract(ctr, pos, kw, st, node)
    self.unsupp(f'call to `{name}` (no model, no contract)', node)

  def isinstance_cond(self, v, t, st, node):
    if isinstance(t, TupleImm):
      return z3.Or([self.isinstance_cond(v, x, st, node) for x in t.items])
    if not isinstance(t, TypeObj):
      self.unsupp('isinstance with non-type', node)
    if isinstance(v, Abstract):
      if isinstance(v, TupleImm):
        return z3.BoolVal(t.name in ('tuple', 'object'))
      if isinstance(v, TypeObj):
        return z3.BoolVal(t.name in ('type', 'object'))
      self.unsupp('isinstance of abstract value', node)
    n = t.name
    if n == 'int':
      return z3.Or(is_VInt(v), is_VBool(v))
    if n == 'bool':
      return is_VBool(v)
    if n == 'str':
      return is_VStr(v)
    if n == 'object':
      return z3.BoolVal(True)
    if n == 'inspect.Parameter':
      return is_VParam(v)
    if n == 'Sequence':      # typing.Sequence: list / tuple (str is excluded by the callers' domain)
      return z3.And(is_VRef(v), z3.Or(cls_in(st.heap.cls(ref(v)), 'list'),
                                      cls_in(st.heap.cls(ref(v)), 'tuple')))
    if n == 'Dict':
      return z3.And(is_VRef(v), cls_in(st.heap.cls(ref(v)), 'dict'))
    if n in CLASSES:
      return z3.And(is_VRef(v), cls_in(st.heap.cls(ref(v)), n))
    if n == 'type':
      return z3.And(is_VRef(v), is_type_obj(ref(v)))
    self.unsupp(f'isinstance(_, {n})', node)

  def bi_isinstance(self, pos, kw, st, node):
    if z3.is_expr(pos[1]):
      # dynamic type value: needs an abstract (pure-predicate) contract named by the sidecar
      cur = self.ctr_stack[-1]
      if 'isinstance' in cur.calls:
        return self.call_named_contract(cur.calls['isinstance'], pos, kw, st, node)
      self.unsupp('isinstance with a dynamic type value', node)
    return [Res(st, VBool(self.isinstance_cond(pos[0], pos[1], st, node)))]

  def bi_issubclass(self, pos, kw, st, node):
    cur = self.ctr_stack[-1]
    if 'issubclass' in cur.calls and all(z3.is_expr(p) for p in pos):
      return self.call_named_contract(cur.calls['issubclass'], pos, kw, st, node)
    self.unsupp('issubclass', node)

  def bi_callable(self, pos, kw, st, node):
    v = pos[0]
    if isinstance(v, Abstract):
      return [Res(st, VBool(z3.BoolVal(isinstance(v, (Closure, BuiltinFn, TypeObj, BoundMethod)))))]
    return [Res(st, VBool(z3.And(is_VRef(v), is_callable_obj(ref(v)))))]

  def bi_id(self, pos, kw, st, node):
    v = pos[0]
    trusted('id(): distinct for simultaneously live objects (identity = reference)')
    out = []
    for st2, isr in self.fork(st, is_VRef(v)):
      if isr:
        out.append(Res(st2, VInt(ref(v))))
      else:
        # ids of non-reference values: an injective function outside the ref range is not needed
        out.append(Res(st2, VInt(id_of_val(v))))
    return out

  def bi_len(self, pos, kw, st, node):
    v = pos[0]
    if isinstance(v, TupleImm):
      return [Res(st, VInt(z3.IntVal(len(v.items))))]
    if isinstance(v, SeqView):
      return [Res(st, VInt(v.length))]
    if isinstance(v, ParamMap):
      return [Res(st, VInt(sig_n(v.g)))]
    if isinstance(v, Abstract):
      self.unsupp('len of abstract value', node)
    out = []
    r = ref(v)
    for st1, isref in self.fork(st, is_VRef(v)):
      if not isref:
        if self.feasible(st1, is_VStr(v)):
          self.unsupp('len(str)', node)
        out.append(self.exc_res(st1, 'TypeError', origin=f'len@{node.lineno}'))
        continue
      c = st1.heap.cls(r)
      for st2, isl in self.fork(st1, z3.Or([cls_in(c, n) for n in SEQLIKE])):
        if isl:
          out.append(Res(st2, VInt(st2.heap.len(r))))
        else:
          for st3, isd in self.fork(st2, z3.Or([cls_in(c, n) for n in DICTLIKE])):
            if isd:
              has = st3.heap.hasarr(r)
              out.append(Res(st3.assume(dkeys_axioms(has)), VInt(dkeys_cnt(has))))
            else:
              out.extend(self.len_of_object(v, st3, node))
    return out

  def len_of_object(self, v, st, node):
    # a sequence given as an opaque user value (e.g. the `value` of a slice assignment)
    trusted('len() of a user sequence is a non-negative int and does not change the heap')
    n = user_len(ref(v))
    return [Res(st.assume(n >= 0), VInt(n))]

  def view_to_array(self, view, node):
    """(array const, defining fact): a first-order array with the view's elements."""
    if getattr(view, 'params_of', None) is not None:
      # the row of list(signature.parameters.values()): a named array (axiom PARAM_ROW_AXIOM)
      return param_row(view.params_of), z3.BoolVal(True)
    i = z3.Int('va_i')
    body = view.elt(i)
    if not z3.is_expr(body):
      self.unsupp('materialising a view of tuples', node)
    arr = fresh('view', ValArr)
    pats = [arr[i]]
    if getattr(view, 'is_keys', False):
      pats.append(body)       # the enumeration term seq[i] also triggers the definition
    return arr, SAFE_FORALL([i], arr[i] == body, patterns=pats)

  def bi_list(self, pos, kw, st, node, clsname='list'):
    if not pos:
      st2, r = self.new_list(st, [], clsname)
      return [Res(st2, VRef(r))]
    v = pos[0]
    if isinstance(v, TupleImm):
      st2, r = self.new_list(st, v.items, clsname)
      return [Res(st2, VRef(r))]
    view = self.as_seqview(v, st, node)
    extra = []
    if getattr(view, 'is_keys', False):
      extra.append(dkeys_axioms(st.heap.hasarr(view.src)))
    arr, fact = self.view_to_array(view, node)
    st2, r = self.new_list_from(st.assume(fact, *extra), view.length, arr, clsname)
    return [Res(st2, VRef(r))]

  def bi_tuple(self, pos, kw, st, node):
    if pos and isinstance(pos[0], TupleImm):
      return [Res(st, pos[0])]
    return self.bi_list(pos, kw, st, node, clsname='tuple')

  INTERNALS = ('__fn_or_cls__', '__arguments__', '__argument_history__', '__argument_tags__',
               '__signature_info__')

  def bi_dict(self, pos, kw, st, node):
    if len(pos) == 1 and not kw and isinstance(pos[0], InstanceDict):
      # dict(obj.__dict__): a fresh dict with the five internals of the Buildable
      o = ref(pos[0].obj)
      has = z3.K(Val, z3.BoolVal(False))
      val = fresh('idict_val', ValMap)
      facts = []
      for f in self.INTERNALS:
        has = z3.Store(has, strlit(f), True)
        facts.append(val[strlit(f)] == st.heap.fld(o, f))
      st2, d = self.new_dict(st.assume(*facts), 'dict', has=has, val=val)
      return [Res(st2, VRef(d))]
    if not pos and not kw:
      st2, r = self.new_dict(st)
      return [Res(st2, VRef(r))]
    if len(pos) == 1 and not kw and z3.is_expr(pos[0]):
      return self.dict_copy(pos[0], st, node)
    if len(pos) == 1 and not kw and isinstance(pos[0], SeqView) and \
        len(getattr(pos[0], 'zip_parts', None) or ()) == 2:
      return self.dict_of_zip(pos[0], st, node)
    self.unsupp('dict(...) form', node)

  def dict_of_zip(self, zv, st, node):
    """dict(zip(K, V)): key k is present iff it occurs among the first n = min(len) keys; its
    value is the one paired with its *last* occurrence (later pairs overwrite earlier ones)."""
    from pyvc.expr import zip_axioms
    trusted('dict(zip(K, V)): keys K[0..n), value of the last occurrence (n = shorter length)')
    kview, vview = zv.zip_parts
    facts = []
    if getattr(kview, 'src_arrays', None) == ('llen', 'lelt') and kview.src is not None and \
        getattr(kview, 'live', False):
      K = st.heap.eltarr(kview.src)
    else:
      K, f = self.view_to_array(kview, node)
      facts.append(f)
    n = z3.simplify(zv.length)
    k = z3.Const('dz_k', Val)
    newhas = fresh('dz_has', HasArr)
    newval = fresh('dz_val', ValMap)
    w = zip_last(K, n, k)
    facts += [zip_axioms(K, n),
              SAFE_FORALL([k], newhas[k] == (w >= 0), patterns=[newhas[k]]),
              SAFE_FORALL([k], z3.Implies(newhas[k], newval[k] == vview.elt(w)), patterns=[newval[k]])]
    st2, d = self.new_dict(st.assume(*facts), 'dict', has=newhas, val=newval)
    return [Res(st2, VRef(d))]

  def bi_collections_defaultdict(self, pos, kw, st, node):
    """collections.defaultdict(factory[, mapping]): new defaultdict with the mapping's items."""
    trusted('collections.defaultdict(factory, mapping): new dict with the same items')
    if len(pos) == 1:
      st2, r = self.new_dict(st, 'defaultdict')
      return [Res(st2, VRef(r))]
    src = pos[1]
    h = st.heap
    if self.feasible_full(st, z3.Not(z3.And(is_VRef(src), cls_in(h.cls(ref(src)), 'dict')))):
      self.unsupp('defaultdict(factory, non-dict)', node)
    st2, r = self.new_dict(st, 'defaultdict', has=h.hasarr(ref(src)), val=h.valarr(ref(src)))
    return [Res(st2, VRef(r))]

  def bi_dataclasses_is_dataclass(self, pos, kw, st, node):
    trusted('dataclasses.is_dataclass: pure predicate')
    return [Res(st, VBool(is_dataclass_val(self.need_val(pos[0], node))))]

  def bi_functools_partial(self, pos, kw, st, node):
    """functools.partial(f, ...): an opaque callable value (only passed on, never called here)."""
    st2, r = st.alloc('functools.partial')
    return [Res(st2, VRef(r))]

  def bi_set(self, pos, kw, st, node):
    if not pos:
      st2, r = self.new_dict(st, 'set')
      return [Res(st2, VRef(r))]
    v = pos[0]
    if z3.is_expr(v):
      h = st.heap
      c = h.cls(ref(v))
      if not self.feasible_full(st, z3.Not(z3.And(is_VRef(v), z3.Or([cls_in(c, n) for n in DICTLIKE])))):
        st2, r = self.new_dict(st, 'set', has=h.hasarr(ref(v)))
        return [Res(st2, VRef(r))]
    self.unsupp('set(...) of a non-dict-like value', node)

  def bi_object(self, pos, kw, st, node):
    st2, r = st.alloc('object')
    return [Res(st2, VRef(r))]

  def bi_range(self, pos, kw, st, node):
    if any(isinstance(p, Abstract) for p in pos):
      self.unsupp('range of abstract', node)
    def go(st2, ints):
      if len(ints) == 1:
        lo, hi, step = z3.IntVal(0), ints[0], z3.IntVal(1)
      elif len(ints) == 2:
        lo, hi, step = ints[0], ints[1], z3.IntVal(1)
      else:
        lo, hi, step = ints
      stp = z3.simplify(step)
      if z3.is_int_value(stp) and stp.as_long() == 1:
        n = z3.If(hi > lo, hi - lo, z3.IntVal(0))
        return [Res(st2, SeqView(n, lambda i: VInt(lo + i)))]
      if z3.is_int_value(stp) and stp.as_long() == -1:
        n = z3.If(lo > hi, lo - hi, z3.IntVal(0))
        return [Res(st2, SeqView(n, lambda i: VInt(lo - i)))]
      trusted('range(a, b, s): length characterised by range_len axioms (cross-checked)')
      n = range_len(lo, hi, step)
      return [Res(st2.assume(range_len_axioms(lo, hi, step)),
                  SeqView(n, lambda i: VInt(lo + i * step)))]
    def chain(i, st2, acc):
      if i == len(pos):
        return go(st2, acc)
      return self.with_int(pos[i], st2, lambda st3, x: chain(i + 1, st3, acc + [x]), 'range arg')
    return chain(0, st, [])

  def bi_enumerate(self, pos, kw, st, node):
    view = self.as_seqview(pos[0], st, node)
    start = z3.IntVal(0)
    if len(pos) > 1:
      start = ival(pos[1])
    v = SeqView(view.length, lambda i: TupleImm([VInt(i + start), view.elt(i)]), src=view.src)
    v.src_arrays = getattr(view, 'src_arrays', None)
    if getattr(view, 'live', False):
      v.live = 'enumerate'
      v.start = start
    return [Res(st, v)]

  def bi_zip(self, pos, kw, st, node):
    views = [self.as_seqview(p, st, node) for p in pos]
    n = views[0].length
    for v in views[1:]:
      n = z3.If(v.length < n, v.length, n)
    out = SeqView(n, lambda i: TupleImm([v.elt(i) for v in views]))
    out.src_arrays = None
    out.zip_parts = views
    return [Res(st, out)]

  def bi_reversed(self, pos, kw, st, node):
    view = self.as_seqview(pos[0], st, node)
    v = SeqView(view.length, lambda i: view.elt(view.length - 1 - i), src=view.src)
    v.src_arrays = getattr(view, 'src_arrays', None)
    return [Res(st, v)]

  def bi_sorted(self, pos, kw, st, node):
    """sorted(seq[, reverse=...]) of a list whose length is the constant 0 or 1: a copy."""
    v = pos[0]
    if z3.is_expr(v):
      n = st.heap.len(ref(v))
      if not self.feasible_full(st, n > 1) and not self.feasible_full(
          st, z3.Not(z3.And(is_VRef(v), cls_in(st.heap.cls(ref(v)), 'list')))):
        return self.list_copy(v, st, node)
    self.unsupp('sorted() of a sequence of unknown length', node)

  def bi_slice(self, pos, kw, st, node):
    vals = list(pos)
    if len(vals) == 1:
      vals = [VNone, vals[0], VNone]
    elif len(vals) == 2:
      vals = vals + [VNone]
    return self.make_slice(st, *vals)

  def bi_super(self, pos, kw, st, node):
    return [Res(st, SuperObj(st.env.get('self')))]

  def bi_getattr(self, pos, kw, st, node):
    obj, name = pos[0], pos[1]
    nm = z3.simplify(name) if z3.is_expr(name) else None
    lit = self.str_literal_of(nm)
    if lit is not None and len(pos) == 2:
      return self.load_attr(obj, lit, st, node)
    if (lit is not None and len(pos) == 3 and z3.is_expr(obj) and z3.is_expr(pos[2]) and
        not self.feasible(st, z3.Not(z3.And(is_VRef(obj), z3.Not(cls_in(st.heap.cls(ref(obj)), 'Buildable')))))):
      # getattr(obj, 'name', default) on an object that is not a Buildable: whether the attribute
      # exists is not modelled, so the result is either the field or the default (both considered)
      r = fresh('getattr3', Val)
      return [Res(st.assume(z3.Or(r == st.heap.fld(ref(obj), lit), r == pos[2])), r)]
    cur = self.ctr_stack[-1] if getattr(self, 'ctr_stack', None) else self.ctr
    if 'getattr' in cur.calls and len(pos) == 2 and all(z3.is_expr(p) for p in pos):
      # attribute lookup with a computed name on an arbitrary object: the contract named by
      # the caller (arbitrary user code: descriptors, __getattr__)
      return self.call_named_contract(cur.calls['getattr'], pos, kw, st, node)
    # dynamic name: only Buildables are modelled
    out = []
    for st1, isstr in self.fork(st, is_VStr(name)):
      if not isstr:
        out.append(self.exc_res(st1, 'TypeError', origin=f'getattr name@{node.lineno}'))
        continue
      isb = z3.And(is_VRef(obj), cls_in(st1.heap.cls(ref(obj)), 'Buildable'))
      for st2, b in self.fork(st1, isb):
        if not b:
          self.unsupp('getattr with dynamic name on non-Buildable', node)
        rs = self.call_named_contract('config.Buildable.__getattr__', [obj, name], {}, st2, node)
        if len(pos) == 3:
          rs2 = []
          for r in rs:
            if r.exc is not None and r.exc.name == 'AttributeError':
              rs2.append(Res(r.st, pos[2]))
            else:
              rs2.append(r)
          rs = rs2
        out.extend(rs)
    return out

  def str_literal_of(self, term):
    if term is None:
      return None
    t = z3.simplify(sval(term))
    if z3.is_int_value(t) and z3.is_true(z3.simplify(is_VStr(term))):
      return str_of_id(t.as_long())
    return None

  def bi_setattr(self, pos, kw, st, node):
    obj, name, v = pos
    lit = self.str_literal_of(z3.simplify(name))
    if lit is not None:
      return [Res(o.st, VNone) if o.kind == 'normal' else Res(o.st, exc=o.val)
              for o in self.store_attr(obj, lit, v, st, node)]
    out = []
    isb = z3.And(is_VRef(obj), cls_in(st.heap.cls(ref(obj)), 'Buildable'))
    for st2, b in self.fork(st, isb):
      if not b:
        self.unsupp('setattr with dynamic name on non-Buildable', node)
      for st3, isstr in self.fork(st2, is_VStr(name)):
        if isstr:
          out.extend(self.call_named_contract('config.Buildable.__setattr__', [obj, name, v], {}, st3, node))
        else:
          out.append(self.exc_res(st3, 'TypeError', origin=f'setattr name@{node.lineno}'))
    return out

  def bi_delattr(self, pos, kw, st, node):
    obj, name = pos
    out = []
    isb = z3.And(is_VRef(obj), cls_in(st.heap.cls(ref(obj)), 'Buildable'))
    for st2, b in self.fork(st, isb):
      if not b:
        self.unsupp('delattr on non-Buildable', node)
      for st3, isstr in self.fork(st2, is_VStr(name)):
        if isstr:
          out.extend(self.call_named_contract('config.Buildable.__delattr__', [obj, name], {}, st3, node))
        else:
          out.append(self.exc_res(st3, 'TypeError', origin=f'delattr name@{node.lineno}'))
    return out

  def bi_object___setattr__(self, pos, kw, st, node):
    obj, name, v = pos
    lit = self.str_literal_of(z3.simplify(name))
    if lit is None:
      self.unsupp('object.__setattr__ with dynamic name', node)
    return [Res(self.raw_store_attr(obj, lit, v, st), VNone)]

  def bi_next(self, pos, kw, st, node):
    """next(itertools.count()) on the module-level history counter (assumed contract)."""
    trusted('next(itertools.count): returns the current count and increments it (atomic C call)')
    it = pos[0]
    if not (z3.is_expr(it) and it.eq(SET_COUNTER)):
      self.unsupp('next() on an unknown iterator', node)
    r = ref(SET_COUNTER)
    cur = st.heap.fld(r, 'count')
    st2 = self.raw_store_attr(SET_COUNTER, 'count', VInt(ival(cur) + 1), st)
    return [Res(st2, cur)]

  def bi_frozenset(self, pos, kw, st, node):
    return self.bi_set(pos, kw, st, node)

  def bi_str(self, pos, kw, st, node):
    return [Res(st, VStr(fresh('str', I)))]

  bi_repr = bi_str

  def bi_type(self, pos, kw, st, node):
    if len(pos) != 1 or not z3.is_expr(pos[0]):
      self.unsupp('type(...) form', node)
    return [Res(st, TypeOf(pos[0]))]

  # logging.* : no-ops that cannot raise (DESIGN §2.1)
  def bi_logging_info(self, pos, kw, st, node):
    return [Res(st, VNone)]
  bi_logging_warning = bi_logging_debug = bi_logging_error = bi_logging_exception = bi_logging_info

  # ---------------------------------------------------------------- type calls
  def call_type(self, name, pos, kw, st, node):
    if name == 'type':
      return self.bi_type(pos, kw, st, node)
    if name in ('list', 'tuple', 'dict', 'set', 'slice', 'object', 'str', 'frozenset'):
      if name == 'frozenset':
        rs = self.bi_set(pos, kw, st, node)
        return rs
      return getattr(self, 'bi_' + name)(pos, kw, st, node)
    if name in CLASSES and 'BaseException' in _ancestors(name):
      # exception construction: class matters, message is opaque
      st2, r = st.alloc(name)
      v = VRef(r)
      st2.meta[('excobj', v.get_id())] = Exc(name, val=v, origin=f'{name}()@{node.lineno}')
      return [Res(st2, v)]
    if name == 'defaultdict':
      return self.bi_collections_defaultdict(pos, kw, st, node)
    if name == 'History':
      trusted('History(mapping): dict subclass constructor copies the items')
      if not pos:
        st2, r = self.new_dict(st, 'History')
        return [Res(st2, VRef(r))]
      src = pos[0]
      h = st.heap
      if self.feasible_full(st, z3.Not(z3.And(is_VRef(src), cls_in(h.cls(ref(src)), 'dict')))):
        self.unsupp('History(non-dict)', node)
      st2, r = self.new_dict(st, 'History', has=h.hasarr(ref(src)), val=h.valarr(ref(src)))
      return [Res(st2, VRef(r))]
    if name in DATACLASSES:
      fields = DATACLASSES[name]
      vals = dict(zip(fields, pos))
      vals.update(kw)
      if set(vals) != set(fields):
        self.unsupp(f'{name}(...) with fields {sorted(vals)}', node)
      st2, r = st.alloc(name)
      for f in fields:
        st2 = self.raw_store_attr(VRef(r), f, vals[f], st2)
      return [Res(st2, VRef(r))]
    if name in DATACLASSES_POST_INIT:
      # @dataclass with __post_init__: allocate, set the declared fields (given or default),
      # then run __post_init__ through its contract
      fields, dflts, post = DATACLASSES_POST_INIT[name]
      vals = dict(zip(fields, pos))
      vals.update(kw)
      for f in fields:
        if f not in vals:
          if f not in dflts:
            self.unsupp(f'{name}(...) without field {f}', node)
          vals[f] = dflts[f]
      if set(vals) != set(fields):
        self.unsupp(f'{name}(...) with fields {sorted(vals)}', node)
      trusted(f'@dataclass {name}: __init__ stores the fields, then calls __post_init__')
      st2, r = st.alloc(name)
      for f in fields:
        st2 = self.raw_store_attr(VRef(r), f, vals[f], st2)
      return self.then(self.call_named_contract(post, [VRef(r)], {}, st2, node),
                       lambda s3, _v: [Res(s3, VRef(r))])
    ctr = C.REGISTRY.get(f'new:{name}')
    if ctr is not None:
      return self.call_contract(ctr, pos, kw, st, node)
    self.unsupp(f'construction of {name}', node)

  # ---------------------------------------------------------------- methods
  def call_method(self, recv, name, pos, kw, st, node):
    if isinstance(recv, ParamMap):
      return self.parammap_method(recv, name, pos, st, node)
    if isinstance(recv, InstanceDict):
      if name == 'update' and len(pos) == 1 and z3.is_expr(pos[0]):
        # obj.__dict__.update(state): every internal named by the state dict is (re)bound
        src = pos[0]
        h = st.heap
        if self.feasible_full(st, z3.Not(z3.And(is_VRef(src), cls_in(h.cls(ref(src)), 'dict')))):
          self.unsupp('__dict__.update with a non-dict', node)
        k = z3.Const('idu_k', Val)
        others = z3.And(*[k != strlit(f) for f in self.INTERNALS])
        if self.feasible_full(st, z3.Exists([k], z3.And(h.has(ref(src), k), others))):
          self.unsupp('__dict__.update with keys other than the Buildable internals', node)
        st2 = st
        for f in self.INTERNALS:
          cur = st2.heap.fld(ref(recv.obj), f)
          newv = z3.If(h.has(ref(src), strlit(f)), h.dget(ref(src), strlit(f)), cur)
          st2 = self.raw_store_attr(recv.obj, f, newv, st2)
        return [Res(st2, VNone)]
      self.unsupp(f'__dict__.{name}', node)
    if isinstance(recv, SuperObj):
      if name == '__setattr__':
        lit = self.str_literal_of(z3.simplify(pos[0]))
        if lit is None:
          self.unsupp('super().__setattr__ with dynamic name', node)
        return [Res(self.raw_store_attr(recv.selfval, lit, pos[1], st), VNone)]
      self.unsupp(f'super().{name}', node)
    if isinstance(recv, SeqView):
      self.unsupp(f'method {name} of a view', node)
    if isinstance(recv, Abstract):
      self.unsupp(f'method {name} of {type(recv).__name__}', node)
    # contract method?
    ctr = None
    if C.lookup_method(name) and name not in self.BUILTIN_METHODS:
      ctr = self.resolve_contract(name, recv, st, node)
    elif C.lookup_method(name):
      # name shared with a builtin container method: contract only if the class matches
      for c in C.lookup_method(name):
        clsname = c.qualname.split('.')[0]
        if clsname in CLASSES and not self.feasible(
            st, z3.Not(z3.And(is_VRef(recv), cls_in(st.heap.cls(ref(recv)), clsname)))):
          ctr = c
    if ctr is not None:
      if getattr(ctr, 'is_static', False):
        return self.call_contract(ctr, pos, kw, st, node)
      if getattr(ctr, 'is_classmethod', False):
        # obj.classmethod(...): cls is the class value of the receiver's class
        if not self.feasible_full(st, z3.Not(z3.And(is_VRef(recv), is_type_obj(ref(recv))))):
          # SomeClass.classmethod(...): the receiver is the class value itself
          return self.call_contract(ctr, [recv] + pos, kw, st, node)
        c_ = st.heap.cls(ref(recv))
        tv = typeval(c_)
        return self.call_contract(ctr, [tv] + pos, kw,
                                  st.assume(type_cid(tv) == c_, is_VRef(tv), is_type_obj(ref(tv))), node)
      return self.call_contract(ctr, [recv] + pos, kw, st, node)
    if name == '__new__' and z3.is_expr(recv) and len(pos) == 1 and z3.is_expr(pos[0]) and not kw:
      # cls.__new__(cls) for a class value: a fresh instance of that class, no field set
      if self.feasible_full(st, recv != pos[0]):
        self.unsupp('X.__new__(Y) with X possibly different from Y', node)
      if self.feasible_full(st, z3.Not(z3.And(is_VRef(recv), is_type_obj(ref(recv))))):
        self.unsupp('__new__ on a value that may not be a class', node)
      trusted('cls.__new__(cls) / object.__new__(cls): allocates an instance of cls, no field set')
      st2, r = st.alloc(type_cid(pos[0]))
      return [Res(st2, VRef(r))]
    m = getattr(self, 'me_' + name, None)
    if m is None and name == 'split':
      m = lambda *a, **k: self.unsupp('split on an object', node)
    if m is None:
      self.unsupp(f'method .{name}()', node)
    out = []
    for st2, isref in self.fork(st, is_VRef(recv)):
      if isref:
        out.extend(m(recv, pos, kw, st2, node))
      else:
        if name in ('join', 'format') and self.feasible(st2, is_VStr(recv)):
          out.append(Res(st2, VStr(fresh('str', I))))
        elif name == 'split' and not self.feasible_full(st2, z3.Not(is_VStr(recv))):
          # str.split(sep): a fresh non-empty list of strings (contents opaque)
          trusted('str.split(sep): a fresh non-empty list of str')
          arr = fresh('split', ValArr)
          n_ = fresh('split_n', I)
          i_ = z3.Int('sp_i')
          st3, l = self.new_list_from(st2.assume(n_ >= 1, SAFE_FORALL([i_], is_VStr(arr[i_]), patterns=[arr[i_]])),
                                      n_, arr)
          out.append(Res(st3, VRef(l)))
        else:
          out.append(self.exc_res(st2, 'AttributeError', origin=f'.{name}@{node.lineno}'))
    return out

  def parammap_method(self, pm, name, pos, st, node):
    g = pm.g
    if name == 'values':
      v = SeqView(sig_n(g), lambda i: VParam(g, i))
      v.params_of = g
      return [Res(st, v)]
    if name == 'keys':
      return [Res(st, SeqView(sig_n(g), lambda i: VStr(sig_name(g, i))))]
    if name == 'items':
      return [Res(st, SeqView(sig_n(g), lambda i: TupleImm([VStr(sig_name(g, i)), VParam(g, i)])))]
    if name == 'get':
      key = pos[0]
      dflt = pos[1] if len(pos) > 1 else VNone
      found = z3.And(is_VStr(key), sig_idx(g, sval(key)) >= 0)
      return [Res(st, z3.If(found, VParam(g, sig_idx(g, sval(key))), dflt))]
    self.unsupp(f'parameters.{name}', node)

  def class_fork(self, recv, st, table, node, what):
    """table: [(class names tuple, fn(st) -> [Res])]; dispatches on the receiver's class."""
    out = []
    cur = st
    c = st.heap.cls(ref(recv))
    for names, fn in table:
      cond = z3.Or([cls_in(c, n) for n in names])
      nxt = None
      for st2, side in self.fork(cur, cond):
        if side:
          out.extend(fn(st2))
        else:
          nxt = st2
      if nxt is None:
        return out
      cur = nxt
    self.unsupp(f'{what} on a value of unknown class', node)

  def dict_copy(self, recv, st, node):
    trusted('dict.copy / dict(d): new dict with the same items')
    r = ref(recv)
    c = st.heap.cls(r)
    clsname = 'dict'
    st2, nr = self.new_dict(st, clsname, has=st.heap.hasarr(r), val=st.heap.valarr(r))
    return [Res(st2, VRef(nr))]

  def list_copy(self, recv, st, node):
    trusted('list.copy: new list with the same elements')
    r = ref(recv)
    st2, nr = self.new_list_from(st, st.heap.len(r), st.heap.eltarr(r))
    return [Res(st2, VRef(nr))]

  def set_copy(self, recv, st, node):
    r = ref(recv)
    st2, nr = self.new_dict(st, 'set', has=st.heap.hasarr(r))
    return [Res(st2, VRef(nr))]

  def me_copy(self, recv, pos, kw, st, node):
    return self.class_fork(recv, st, [
        (('dict',), lambda s: self.dict_copy(recv, s, node)),
        (('list',), lambda s: self.list_copy(recv, s, node)),
        (('set', 'frozenset'), lambda s: self.set_copy(recv, s, node)),
    ], node, '.copy()')

  def me_get(self, recv, pos, kw, st, node):
    trusted('dict.get')
    key = pos[0]
    dflt = pos[1] if len(pos) > 1 else VNone
    def go(s):
      r = ref(recv)
      d = dflt
      if isinstance(d, TupleImm):
        s, tr = self.new_list(s, d.items, 'tuple')      # materialise the tuple default
        d = VRef(tr)
      return [Res(s, z3.If(s.heap.has(r, key), s.heap.dget(r, key), self.need_val(d, node)))]
    return self.class_fork(recv, st, [(('dict',), go)], node, '.get()')

  def me_pop(self, recv, pos, kw, st, node):
    trusted('dict.pop')
    def go(s):
      key = pos[0]
      r = ref(recv)
      out = []
      for s2, present in self.fork(s, s.heap.has(r, key)):
        if present:
          v = s2.heap.dget(r, key)
          h = s2.heap
          h = h.set('dhas', z3.Store(h.get('dhas'), r, z3.Store(h.hasarr(r), key, False)))
          out.append(Res(s2.with_heap(h), v))
        elif len(pos) > 1:
          out.append(Res(s2, pos[1]))
        else:
          out.append(self.exc_res(s2, 'KeyError', origin=f'pop@{node.lineno}'))
      return out
    def go_list(s):
      """list.pop([i]) — shifts the later elements down."""
      r = ref(recv)
      h = s.heap
      n = h.len(r)
      idx = pos[0] if pos else VInt(n - 1)
      def k(s2, iv):
        j = self.norm_index(iv, n)
        out = []
        for s3, ok in self.fork(s2, z3.And(0 <= j, j < n)):
          if not ok:
            out.append(self.exc_res(s3, 'IndexError', origin=f'pop@{node.lineno}'))
            continue
          h3 = s3.heap
          i = z3.Int('pp_i')
          old = h3.eltarr(r)
          new = fresh('pop', ValArr)
          fact = SAFE_FORALL([i], new[i] == z3.If(i < j, old[i], old[i + 1]), patterns=[new[i]])
          h3 = h3.set('lelt', z3.Store(h3.get('lelt'), r, new))
          h3 = h3.set('llen', z3.Store(h3.get('llen'), r, n - 1))
          out.append(Res(s3.with_heap(h3).assume(fact), old[j]))
        return out
      return self.with_int(idx, s, k, 'list.pop index')
    return self.class_fork(recv, st, [(('dict',), go), (('list',), go_list)], node, '.pop()')

  def me_setdefault(self, recv, pos, kw, st, node):
    trusted('dict.setdefault')
    def go(s):
      key, dflt = pos[0], self.need_val(pos[1] if len(pos) > 1 else VNone, node)
      r = ref(recv)
      out = []
      for s2, present in self.fork(s, s.heap.has(r, key)):
        if present:
          out.append(Res(s2, s2.heap.dget(r, key)))
        else:
          h = s2.heap
          h = h.set('dhas', z3.Store(h.get('dhas'), r, z3.Store(h.hasarr(r), key, True)))
          h = h.set('dval', z3.Store(h.get('dval'), r, z3.Store(h.valarr(r), key, dflt)))
          out.append(Res(s2.with_heap(h), dflt))
      return out
    return self.class_fork(recv, st, [(('dict',), go)], node, '.setdefault()')

  def me_append(self, recv, pos, kw, st, node):
    trusted('list.append')
    def go(s):
      r = ref(recv)
      h = s.heap
      n = h.len(r)
      h2 = h.set('lelt', z3.Store(h.get('lelt'), r, z3.Store(h.eltarr(r), n, self.need_val(pos[0], node))))
      h2 = h2.set('llen', z3.Store(h2.get('llen'), r, n + 1))
      return [Res(s.with_heap(h2), VNone)]
    return self.class_fork(recv, st, [(('list',), go)], node, '.append()')

  def me_clear(self, recv, pos, kw, st, node):
    trusted('list.clear / dict.clear')
    def go_list(s):
      r = ref(recv)
      return [Res(s.hset('llen', z3.Store(s.heap.get('llen'), r, z3.IntVal(0))), VNone)]
    def go_dict(s):
      r = ref(recv)
      return [Res(s.hset('dhas', z3.Store(s.heap.get('dhas'), r, z3.K(Val, z3.BoolVal(False)))), VNone)]
    return self.class_fork(recv, st, [(('list',), go_list), (('dict', 'set'), go_dict)], node, '.clear()')

  def me_remove(self, recv, pos, kw, st, node):
    """set.remove(x): KeyError if absent."""
    def go(s):
      r = ref(recv)
      x = self.need_val(pos[0], node)
      out = []
      for s2, present in self.fork(s, s.heap.has(r, x)):
        if present:
          h = s2.heap
          out.append(Res(s2.with_heap(h.set('dhas', z3.Store(h.get('dhas'), r,
                                                           z3.Store(h.hasarr(r), x, False)))), VNone))
        else:
          out.append(self.exc_res(s2, 'KeyError', origin=f'set.remove@{node.lineno}'))
      return out
    return self.class_fork(recv, st, [(('set',), go)], node, '.remove()')

  def me_add(self, recv, pos, kw, st, node):
    def go(s):
      r = ref(recv)
      h = s.heap
      h = h.set('dhas', z3.Store(h.get('dhas'), r, z3.Store(h.hasarr(r), self.need_val(pos[0], node), True)))
      return [Res(s.with_heap(h), VNone)]
    return self.class_fork(recv, st, [(('set',), go)], node, '.add()')

  def me_update(self, recv, pos, kw, st, node):
    """set.update(iterable of hashables) / dict.update(dict)."""
    trusted('set.update / dict.update')
    other = pos[0]
    def go_set(s):
      r = ref(recv)
      h = s.heap
      k = z3.Const('up_k', Val)
      if isinstance(other, TupleImm):
        has = h.hasarr(r)
        for it in other.items:
          has = z3.Store(has, it, True)
        return [Res(s.with_heap(h.set('dhas', z3.Store(h.get('dhas'), r, has))), VNone)]
      oc = h.cls(ref(other))
      if self.feasible_full(s, z3.Not(z3.And(is_VRef(other), z3.Or([cls_in(oc, n) for n in DICTLIKE])))):
        self.unsupp('set.update with a non-set argument', node)
      new = fresh('union', HasArr)
      fact = SAFE_FORALL([k], new[k] == z3.Or(h.hasarr(r)[k], h.hasarr(ref(other))[k]),
                       patterns=[new[k]])
      return [Res(s.with_heap(h.set('dhas', z3.Store(h.get('dhas'), r, new))).assume(fact), VNone)]
    def go_dict(s):
      r = ref(recv)
      h = s.heap
      k = z3.Const('up_k', Val)
      ro = ref(other)
      if self.feasible_full(s, z3.Not(z3.And(is_VRef(other), cls_in(h.cls(ro), 'dict')))):
        self.unsupp('dict.update with a non-dict argument', node)
      nh = fresh('upd_has', HasArr)
      nv = fresh('upd_val', ValMap)
      facts = [SAFE_FORALL([k], nh[k] == z3.Or(h.hasarr(r)[k], h.hasarr(ro)[k]), patterns=[nh[k]]),
               SAFE_FORALL([k], nv[k] == z3.If(h.hasarr(ro)[k], h.valarr(ro)[k], h.valarr(r)[k]),
                         patterns=[nv[k]])]
      h = h.set('dhas', z3.Store(h.get('dhas'), r, nh))
      h = h.set('dval', z3.Store(h.get('dval'), r, nv))
      return [Res(s.with_heap(h).assume(*facts), VNone)]
    return self.class_fork(recv, st, [(('set',), go_set), (('dict',), go_dict)], node, '.update()')

  def me_keys(self, recv, pos, kw, st, node):
    def go(s):
      r = ref(recv)
      return [Res(s.assume(dkeys_axioms(s.heap.hasarr(r))), self.dict_keys_view(r, s))]
    return self.class_fork(recv, st, [(('dict',), go)], node, '.keys()')

  def me_values(self, recv, pos, kw, st, node):
    def go(s):
      r = ref(recv)
      kv = self.dict_keys_view(r, s)
      va = s.heap.valarr(r)
      v = SeqView(kv.length, lambda i: va[kv.elt(i)], src=r)
      v.src_arrays = ('dhas', 'dval')
      return [Res(s.assume(dkeys_axioms(s.heap.hasarr(r))), v)]
    return self.class_fork(recv, st, [(('dict',), go)], node, '.values()')

  def me_items(self, recv, pos, kw, st, node):
    def go(s):
      r = ref(recv)
      kv = self.dict_keys_view(r, s)
      va = s.heap.valarr(r)
      v = SeqView(kv.length, lambda i: TupleImm([kv.elt(i), va[kv.elt(i)]]), src=r)
      v.src_arrays = ('dhas', 'dval')
      return [Res(s.assume(dkeys_axioms(s.heap.hasarr(r))), v)]
    return self.class_fork(recv, st, [(('dict',), go)], node, '.items()')

  def me_indices(self, recv, pos, kw, st, node):
    """slice.indices(len): assumed contract SliceIndices (cross-checked against CPython)."""
    trusted('slice.indices: SliceIndices axioms (cross-checked against CPython by enumeration)')
    def go(s):
      r = ref(recv)
      h = s.heap
      def k(s2, n):
        lo, hi, stp = h.fld(r, 'start'), h.fld(r, 'stop'), h.fld(r, 'step')
        out = []
        wellt = z3.And(*[z3.Or(is_VNone(x), is_VInt(x)) for x in (lo, hi, stp)])
        for s3, ok in self.fork(s2, wellt):
          if not ok:
            out.append(self.exc_res(s3, 'TypeError', origin=f'slice.indices@{node.lineno}'))
            continue
          for s4, zero in self.fork(s3, z3.And(is_VInt(stp), ival(stp) == 0)):
            if zero:
              out.append(self.exc_res(s4, 'ValueError', origin=f'slice step 0@{node.lineno}'))
              continue
            a, b, c = slice_indices(lo, hi, stp, n)
            out.append(Res(s4, TupleImm([VInt(a), VInt(b), VInt(c)])))
        return out
      return self.with_int(pos[0], s, k, 'slice.indices arg')
    return self.class_fork(recv, st, [(('slice',), go)], node, '.indices()')

  # ---------------------------------------------------------------- with
  def exec_with(self, cm, optional_vars, body, st, node):
    """`with <contract-based context manager>: body` — enter / body / exit by contract."""
    if not isinstance(cm, CMValue):
      self.unsupp('with statement on a value without context-manager contract', node)
    if optional_vars is not None:
      self.unsupp('with ... as target', node)
    ctr, argmap, st_enter, h_enter0 = cm.ctr, cm.argmap, st, cm.h0
    outs = []
    for bo in self.exec_block(body, st_enter):
      body_heap = bo.st.heap
      # __exit__: modifies what the contract declares, then exit_post / exc_rel hold
      ctx_pre = C.Ctx(argmap, h_enter0, h_enter0, env=argmap)
      se = self.havoc_call(bo.st, ctr, ctr.mod(ctx_pre))
      ctx = C.Ctx(argmap, h_enter0, se.heap, env=argmap, body=body_heap)
      if ctr.exit_post is not None:
        se = se.assume(ctr.exit_post(ctx))
      if bo.kind == 'raise':
        E = bo.val
        if E.val is None:
          ev = fresh('exc_obj', I)
          E = Exc(E.cls_term, val=VRef(ev), name=E.name, origin=E.origin)
        fcls, fv = fresh('exit_exc_cls', I), fresh('exit_exc', I)
        F = Exc(fcls, val=VRef(fv), name=E.name, origin=f'{E.origin} via {ctr.id}')
        rel = ctr.exc_rel(ctx, E, F) if ctr.exc_rel is not None else z3.BoolVal(True)
        se2 = se.assume(rel, cls_in(fcls, 'BaseException'), cls_fn(fv) == fcls)
        outs.append(Outcome('raise', se2, F))
        if ctr.swallows is not None:
          sw = ctr.swallows(ctx, E)
          if self.feasible(se, sw):
            outs.append(Outcome('normal', se.assume(sw)))
      else:
        outs.append(Outcome(bo.kind, se, bo.val))
    return outs

  def enter_cm(self, ctr, argmap, st, node):
    """Call of a context-manager function: __enter__ by contract; returns [Res(CMValue)]."""
    line = getattr(node, 'lineno', None)
    ctx_pre = C.Ctx(argmap, st.heap, st.heap, env=argmap)
    self.oblige(f'call:{ctr.id}@{line}/pre', 'call-pre', st, ctr.requires(ctx_pre),
                f'precondition of {ctr.id}', line)
    out = []
    conds = []
    mod = ctr.mod(ctx_pre)
    for name, cond in ctr.raises.items():
      cnd = cond(ctx_pre)
      conds.append(cnd)
      if self.feasible(st, cnd):
        se = self.havoc_call(st.assume(cnd), ctr, mod)
        if name in ctr.raises_post:
          se = se.assume(ctr.raises_post[name](C.Ctx(argmap, st.heap, se.heap, env=argmap)))
        out.append(Res(se, exc=Exc(name, origin=f'{ctr.id}@{line}')))
    sn = st.assume(z3.Not(z3.Or(conds))) if conds else st
    if self.feasible(sn):
      sn2 = self.havoc_call(sn, ctr, mod)
      if ctr.enter_ensures is not None:
        sn2 = sn2.assume(ctr.enter_ensures(C.Ctx(argmap, st.heap, sn2.heap, env=argmap)))
      out.append(Res(sn2, CMValue(ctr, argmap, sn2, st.heap)))
    return out


class CMValue(Abstract):
  """An entered contract-based context manager."""

  def __init__(self, ctr, argmap, st, h0):
    self.ctr, self.argmap, self.st, self.h0 = ctr, argmap, st, h0


# classes whose construction is "allocate and set these fields" (dataclasses / trivial __init__)
DATACLASSES = {
    'BuildableTraverserMetadata': ['fn_or_cls', 'argument_names', 'argument_tags', 'argument_history'],
    'Attr': ['name'], 'Index': ['index'], 'Key': ['key'],      # frozen dataclasses of daglish
    '_Placeholder': ['index'],
    'HistoryEntry': ['sequence_id', 'param_name', 'kind', 'new_value', 'location'],
    'Location': ['filename', 'line_number', 'function_name'],
}


DATACLASSES_POST_INIT = {
    'SignatureInfo': (['signature', 'has_var_keyword'], {'has_var_keyword': VNone},
                      'signatures.SignatureInfo.__post_init__'),
}


def _ancestors(name):
  from pyvc.sorts import _PARENT
  out = []
  while name is not None:
    out.append(name)
    name = _PARENT[name]
  return out


# ---------------------------------------------------------------------------
# uninterpreted helpers
param_row = z3.Function('param_row', I, ValArr)


def param_row_axiom():
  g, i = z3.Ints('pr_g pr_i')
  return SAFE_FORALL([g, i], param_row(g)[i] == VParam(g, i), patterns=[param_row(g)[i]])


is_type_obj = z3.Function('is_type_obj', I, B)
is_dataclass_val = z3.Function('is_dataclass_val', Val, B)
is_callable_obj = z3.Function('is_callable_obj', I, B)
id_of_val = z3.Function('id_of_val', Val, I)
user_len = z3.Function('user_len', I, I)
range_len = z3.Function('range_len', I, I, I, I)


def range_len_axioms(lo, hi, step):
  n = range_len(lo, hi, step)
  return z3.And(
      n >= 0,
      z3.Implies(z3.And(step > 0, lo >= hi), n == 0),
      z3.Implies(z3.And(step < 0, lo <= hi), n == 0),
      z3.Implies(z3.And(step > 0, lo < hi),
                 z3.And(n >= 1, lo + (n - 1) * step < hi, lo + n * step >= hi)),
      z3.Implies(z3.And(step < 0, lo > hi),
                 z3.And(n >= 1, lo + (n - 1) * step > hi, lo + n * step <= hi)))


def slice_indices(lo, hi, stp, n):
  """CPython's PySlice_AdjustIndices for slice(lo, hi, stp).indices(n), n >= 0."""
  step = z3.If(is_VNone(stp), z3.IntVal(1), ival(stp))
  neg = step < 0
  def clamp(v, is_start):
    dflt = z3.If(neg, z3.If(z3.BoolVal(is_start), n - 1, z3.IntVal(-1)),
                 z3.If(z3.BoolVal(is_start), z3.IntVal(0), n))
    x = ival(v)
    adj = z3.If(x < 0, x + n, x)
    lowb = z3.If(neg, z3.IntVal(-1), z3.IntVal(0))
    upb = z3.If(neg, n - 1, n)
    cl = z3.If(x < 0, z3.If(adj < lowb, lowb, adj), z3.If(x > upb, upb, x))
    # CPython: if x < 0: x += n; if x < 0: x = -1 if neg else 0  ; elif x >= n: x = n-1 if neg else n
    cl = z3.If(x < 0,
               z3.If(x + n < 0, z3.If(neg, z3.IntVal(-1), z3.IntVal(0)), x + n),
               z3.If(x >= n, z3.If(neg, n - 1, n), x))
    return z3.If(is_VNone(v), dflt, cl)
  return clamp(lo, True), clamp(hi, False), step
