"""Z3 sorts and the shared specification vocabulary of pyvc (DESIGN.md §2.2, §4).

Python values are terms of one algebraic datatype `Val`.  Everything with
identity lives in a heap of arrays indexed by an integer reference.
"""
import z3

I = z3.IntSort()
B = z3.BoolSort()

_V = z3.Datatype('Val')
_V.declare('VInt', ('ival', I))
_V.declare('VBool', ('bval', B))
_V.declare('VStr', ('sval', I))          # strings are interned ids: ==, in, hashing only
_V.declare('VNone')
_V.declare('VRef', ('ref', I))           # every object with identity
_V.declare('VParam', ('psig', I), ('pidx', I))   # inspect.Parameter #pidx of signature psig
Val = _V.create()

VInt, VBool, VStr, VNone, VRef, VParam = (
    Val.VInt, Val.VBool, Val.VStr, Val.VNone, Val.VRef, Val.VParam)
is_VInt, is_VBool, is_VStr, is_VNone, is_VRef, is_VParam = (
    Val.is_VInt, Val.is_VBool, Val.is_VStr, Val.is_VNone, Val.is_VRef, Val.is_VParam)
ival, bval, sval, ref, psig, pidx = (
    Val.ival, Val.bval, Val.sval, Val.ref, Val.psig, Val.pidx)

ValArr = z3.ArraySort(I, Val)            # list elements / object fields
HasArr = z3.ArraySort(Val, B)            # dict / set membership
ValMap = z3.ArraySort(Val, Val)          # dict values

def _forall(vs, body, patterns=None):
  """ForAll with the given trigger when z3 accepts it (terms containing `ite` are not valid
  triggers), inferred triggers otherwise."""
  if patterns:
    try:
      return z3.ForAll(vs, body, patterns=patterns)
    except z3.Z3Exception:
      pass
  return z3.ForAll(vs, body)


# ---------------------------------------------------------------------------
# class tags (python side enumeration; `cls` heap array maps ref -> tag)

CLASSES = {}
_PARENT = {}


def defclass(name, parent=None):
  if name not in CLASSES:
    CLASSES[name] = len(CLASSES) + 1
    _PARENT[name] = parent
  return CLASSES[name]


for _n, _p in [
    ('object', None), ('dict', 'object'), ('list', 'object'), ('tuple', 'object'),
    ('set', 'object'), ('frozenset', 'object'), ('slice', 'object'),
    ('defaultdict', 'dict'),
    ('function', 'object'),
    ('Signature', 'object'), ('SignatureInfo', 'object'),
    ('Buildable', 'object'), ('Config', 'Buildable'), ('Partial', 'Buildable'),
    ('ArgFactory', 'Buildable'), ('TaggedValueCls', 'Config'),
    ('_Placeholder', 'object'), ('NoValue', 'object'), ('VarArgsHandle', 'object'),
    ('History', 'dict'), ('HistoryEntry', 'object'), ('Location', 'object'),
    ('ChangeKind', 'object'),
    ('BuildableTraverserMetadata', 'tuple'),
    ('State', 'object'), ('MemoizedTraversal', 'object'), ('BasicTraversal', 'object'),
    ('PathElement', 'object'), ('Index', 'PathElement'), ('Key', 'PathElement'),
    ('Attr', 'PathElement'), ('BuildableAttr', 'Attr'), ('BuildableFnOrCls', 'Attr'),
    ('NodeTraverser', 'object'), ('TagType', 'object'), ('FiddleFlag', 'object'),
    ('_BuiltArgFactory', 'object'), ('_InvokeArgFactoryWrapper', 'object'),
    ('functools.partial', 'object'), ('threading.local', 'object'),
    ('BaseException', 'object'), ('Exception', 'BaseException'),
    ('KeyboardInterrupt', 'BaseException'), ('SystemExit', 'BaseException'),
    ('GeneratorExit', 'BaseException'),
    ('TypeError', 'Exception'), ('ValueError', 'Exception'),
    ('LookupError', 'Exception'), ('KeyError', 'LookupError'),
    ('IndexError', 'LookupError'), ('AttributeError', 'Exception'),
    ('AssertionError', 'Exception'), ('RuntimeError', 'Exception'),
    ('NotImplementedError', 'RuntimeError'), ('NameError', 'Exception'),
    ('ImportError', 'Exception'), ('ModuleNotFoundError', 'ImportError'),
    ('StopIteration', 'Exception'),
    ('TaggedValueNotFilledError', 'ValueError'),
    ('PyrefPolicyError', 'Exception'),
    ('UserException', 'Exception'),        # an arbitrary user-defined Exception subclass
    ('UserBaseException', 'BaseException'),  # an arbitrary non-Exception BaseException
]:
  defclass(_n, _p)


def subclasses(name):
  """All class tags that are `name` or a declared subclass of it."""
  out = []
  for c in CLASSES:
    d = c
    while d is not None:
      if d == name:
        out.append(CLASSES[c])
        break
      d = _PARENT[d]
  return out


def cls_in(cls_term, name):
  return z3.Or([cls_term == z3.IntVal(c) for c in subclasses(name)])


def cls_is(cls_term, name):
  return cls_term == z3.IntVal(CLASSES[name])


# ---------------------------------------------------------------------------
# well-known singleton objects: fixed negative references (allocated refs are >= 0)

SINGLETONS = {}
SINGLETON_CLASS = {}


def singleton(name, clsname='object'):
  if name not in SINGLETONS:
    SINGLETONS[name] = -(len(SINGLETONS) + 1)
    SINGLETON_CLASS[name] = clsname
  return VRef(z3.IntVal(SINGLETONS[name]))


NO_VALUE = singleton('NO_VALUE', 'NoValue')
VARARGS = singleton('VARARGS', 'VarArgsHandle')
EMPTY = singleton('inspect.Parameter.empty')
UNSET_SENTINEL = singleton('_UNSET_SENTINEL')
DELETED = singleton('history.DELETED')
CK_NEW_VALUE = singleton('ChangeKind.NEW_VALUE')
CK_UPDATE_TAGS = singleton('ChangeKind.UPDATE_TAGS')
TAGGED_VALUE_FN = singleton('tagged_value_fn', 'function')
DC_MISSING = singleton('dataclasses.MISSING')
TRACKING_STATE = singleton('history._tracking_state', 'threading.local')
SET_COUNTER = singleton('history._set_counter')
BUILD_STATE = singleton('building._state', 'threading.local')
MIN_SINGLETON = -64   # refs below this are free for symbolic user objects

# ---------------------------------------------------------------------------
# interned strings

_STR_IDS = {}


def strlit(s):
  """Interned id of a string literal; distinct literals get distinct ids >= 0.

  Symbolic strings range over all ints, so an unknown string may or may not be
  one of the literals."""
  if s not in _STR_IDS:
    _STR_IDS[s] = len(_STR_IDS)
  return VStr(z3.IntVal(_STR_IDS[s]))


def str_of_id(i):
  for s, j in _STR_IDS.items():
    if j == i:
      return s
  return None


# ---------------------------------------------------------------------------
# signature model  Sig = (n, kind, name, hasdef, dflt, idx)  (DESIGN.md §4)

PO, PK, VP, KO, VK = 0, 1, 2, 3, 4
sig_n = z3.Function('sig_n', I, I)
sig_kind = z3.Function('sig_kind', I, I, I)
sig_name = z3.Function('sig_name', I, I, I)          # string id of parameter i
sig_hasdef = z3.Function('sig_hasdef', I, I, B)
sig_dflt = z3.Function('sig_dflt', I, I, Val)
sig_idx = z3.Function('sig_idx', I, I, I)            # string id -> index or -1
sig_vps = z3.Function('sig_vps', I, I)               # index of *args or -1
sig_npos = z3.Function('sig_npos', I, I)             # number of PO + PK parameters
sig_vk = z3.Function('sig_vk', I, I)                 # index of **kwargs or -1
sig_npo = z3.Function('sig_npo', I, I)               # number of positional-only parameters


def WF(g):
  """Everything inspect.Signature.__init__ validates, plus the derived indices."""
  i, j, s = z3.Ints('wf_i wf_j wf_s')
  n = sig_n(g)
  k = lambda x: sig_kind(g, x)
  inr = lambda x: z3.And(0 <= x, x < n)
  return z3.And(
      n >= 0,
      _forall([i], z3.Implies(inr(i), z3.And(0 <= k(i), k(i) <= 4)), patterns=[k(i)]),
      _forall([i, j], z3.Implies(z3.And(0 <= i, i < j, j < n),
                                   z3.And(k(i) <= k(j),
                                          z3.Implies(k(i) == k(j), z3.And(k(i) != VP, k(i) != VK)))),
                patterns=[z3.MultiPattern(k(i), k(j))]),
      _forall([i], z3.Implies(inr(i), sig_idx(g, sig_name(g, i)) == i),
                patterns=[sig_name(g, i)]),
      _forall([s], z3.Or(sig_idx(g, s) == -1,
                           z3.And(inr(sig_idx(g, s)), sig_name(g, sig_idx(g, s)) == s)),
                patterns=[sig_idx(g, s)]),
      _forall([i], z3.Implies(z3.And(inr(i), z3.Or(k(i) == VP, k(i) == VK)),
                                z3.Not(sig_hasdef(g, i))), patterns=[sig_hasdef(g, i)]),
      _forall([i, j], z3.Implies(z3.And(0 <= i, i < j, j < n, k(j) <= PK, sig_hasdef(g, i)),
                                   sig_hasdef(g, j)),
                patterns=[z3.MultiPattern(sig_hasdef(g, i), sig_hasdef(g, j))]),
      _forall([i], z3.Implies(z3.And(inr(i), sig_hasdef(g, i)), sig_dflt(g, i) != EMPTY),
                patterns=[sig_dflt(g, i)]),
      # derived: vps
      z3.Or(z3.And(sig_vps(g) == -1,
                   _forall([i], z3.Implies(inr(i), k(i) != VP), patterns=[k(i)])),
            z3.And(inr(sig_vps(g)), k(sig_vps(g)) == VP)),
      # derived: vk
      z3.Or(z3.And(sig_vk(g) == -1,
                   _forall([i], z3.Implies(inr(i), k(i) != VK), patterns=[k(i)])),
            z3.And(inr(sig_vk(g)), k(sig_vk(g)) == VK)),
      # derived: npos = number of PO/PK parameters (they form a prefix)
      0 <= sig_npos(g), sig_npos(g) <= n,
      _forall([i], z3.Implies(inr(i), (k(i) <= PK) == (i < sig_npos(g))), patterns=[k(i)]),
      # consequences of the ordering (stated so that the solver need not find the instances):
      # *args directly follows the PO/PK prefix, **kwargs is last
      z3.Implies(sig_vps(g) >= 0, sig_vps(g) == sig_npos(g)),
      z3.Implies(sig_vk(g) >= 0, sig_vk(g) == n - 1),
      # derived: npo = number of PO parameters (a prefix as well)
      0 <= sig_npo(g), sig_npo(g) <= sig_npos(g),
      _forall([i], z3.Implies(inr(i), (k(i) == PO) == (i < sig_npo(g))), patterns=[k(i)]),
  )


def IK(i):
  return VInt(i)


def SK(s):
  return VStr(s)


def vps_val(g):
  """Value of SignatureInfo.var_positional_start."""
  return z3.If(sig_vps(g) >= 0, VInt(sig_vps(g)), VNone)


def Canon(g, has):
  """Canonical storage format of an argument store with membership array `has`.

  (Contiguity of the variadic keys is stated in closed form by `Closed`.)"""
  i, s = z3.Ints('cn_i cn_s')
  v = z3.Const('cn_v', Val)
  vps = sig_vps(g)
  return z3.And(
      # only int and str keys
      _forall([v], z3.Implies(has[v], z3.Or(is_VInt(v), is_VStr(v))), patterns=[has[v]]),
      _forall([i], z3.Implies(
          has[IK(i)],
          z3.And(i >= 0,
                 z3.Or(z3.And(i < sig_n(g), sig_kind(g, i) == PO),
                       z3.And(vps >= 0, i >= vps)))), patterns=[has[IK(i)]]),
      _forall([s], z3.Implies(
          has[SK(s)],
          z3.Or(z3.And(sig_idx(g, s) >= 0,
                       z3.Or(sig_kind(g, sig_idx(g, s)) == PK, sig_kind(g, sig_idx(g, s)) == KO)),
                z3.And(sig_vk(g) >= 0,
                       z3.Or(sig_idx(g, s) < 0, sig_idx(g, s) == sig_vk(g))))),
          patterns=[has[SK(s)]]),
  )


# number of variadic positional values in a store.  Definite description: if some nv
# satisfies Closed(g, has, nv) (it is then unique) store_nvar(g, has) is that nv.
store_nvar = z3.Function('store_nvar', I, HasArr, I)


def Closed(g, has, nv):
  """The int keys >= vps are exactly vps .. vps+nv-1 (contiguous and finite)."""
  j = z3.Int('nv_j')
  vps = sig_vps(g)
  return z3.And(
      nv >= 0,
      z3.Implies(vps < 0, nv == 0),
      z3.Implies(vps >= 0,
                 _forall([j], z3.Implies(j >= vps, has[IK(j)] == (j < vps + nv)),
                           patterns=[has[IK(j)]])))


def NvarDef(g, has):
  return Closed(g, has, store_nvar(g, has))


def nvar_is(g, has, nv):
  """Instance of the definite-description axiom of store_nvar at candidate nv."""
  return z3.Implies(Closed(g, has, nv), store_nvar(g, has) == nv)


def poskey(g, i):
  """Store key of positional slot i < npos."""
  return z3.If(sig_kind(g, i) == PO, IK(i), SK(sig_name(g, i)))


def default_or(g, i, missing):
  return z3.If(sig_hasdef(g, i), sig_dflt(g, i), missing)


# class objects as values: the class id instances of a class value get, and the class value of a class id
type_cid = z3.Function('type_cid', Val, I)
typeval = z3.Function('typeval', I, Val)
# last index of key k in the first n elements of the sequence K (-1 if absent): spec function of dict(zip(K, V))
zip_last = z3.Function('zip_last', ValArr, I, Val, I)


def len_nonneg(llen):
  """Heap well-formedness: every list length is non-negative."""
  r = z3.Int('ln_r')
  return _forall([r], llen[r] >= 0, patterns=[llen[r]])


def tuples_immutable(old_llen, old_lelt, new_llen, new_lelt, alloc_before, cls_fn):
  """Tuple objects never change: length and elements of every tuple that existed are kept."""
  r = z3.Int('ti_r')
  tup = z3.Or([cls_fn(r) == z3.IntVal(c) for c in subclasses('tuple')])
  return z3.And(
      _forall([r], z3.Implies(z3.And(r < alloc_before, tup), new_llen[r] == old_llen[r]), patterns=[new_llen[r]]),
      _forall([r], z3.Implies(z3.And(r < alloc_before, tup), new_lelt[r] == old_lelt[r]), patterns=[new_lelt[r]]))
